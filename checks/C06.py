"""C06: circuit transformers preserve what the circuit computes.

Extension families (2026-09-26): drop_diagonal_before_measurement.*, stratified_circuit.readers.*,
defer_measurements.repeated.* (formerly finding.defer_measurements.repeated_key), gauge_mm.cphase.*,
dynamical_decoupling.chain*, merge_1q_symbolized.*  -- what is symbolic / enumerated / outside is stated in
`bounds['extension_families']` and `bounds['outside']` in main()."""
from __future__ import annotations

import itertools

import numpy as np

from checks.common import BASE_ASSUMPTIONS, CORE_SHIM_MODULES, perturb
from oracles import circuit_sem as CS
from oracles import circuit_sem_ext as CSX
from oracles import gates_doc as D
from symx.explore import Obligation
from symx.run import run_check
from symx.slivers import settle

PID = 'C06'
SHIMS = CORE_SHIM_MODULES + [
    'cirq.protocols.decompose_protocol',
    'cirq.protocols.act_on_protocol',
    'cirq.protocols.has_unitary_protocol',
    'cirq.protocols.phase_protocol',
    'cirq.protocols.commutes_protocol',
    'cirq.protocols.resolve_parameters',
    'cirq.protocols.equal_up_to_global_phase_protocol',
    'cirq.protocols.approximate_equality_protocol',
    'cirq.linalg.predicates',
    'cirq.linalg.tolerance',
    'cirq.ops.control_values',
    'cirq.ops.measurement_gate',
    'cirq.ops.classically_controlled_operation',
    'cirq.ops.pauli_gates',
    'cirq.ops.kraus_channel',
    'cirq.ops.gateset',
    'cirq.circuits.circuit',
    'cirq.circuits.circuit_operation',
    'cirq.circuits.moment',
    'cirq.circuits.frozen_circuit',
    'cirq.qis.states',
    'cirq.study.resolver',
    'cirq.transformers.transformer_api',
    'cirq.transformers.transformer_primitives',
    'cirq.transformers.align',
    'cirq.transformers.stratify',
    'cirq.transformers.drop_empty_moments',
    'cirq.transformers.expand_composite',
    'cirq.transformers.eject_z',
    'cirq.transformers.eject_phased_paulis',
    'cirq.transformers.synchronize_terminal_measurements',
    'cirq.transformers.measurement_transformers',
    'cirq.transformers.insertion_sort',
    'cirq.transformers.tag_transformers',
    'cirq.transformers.symbolize',
    'cirq.transformers.analytical_decompositions.single_qubit_decompositions',
    'cirq.transformers.gauge_compiling.gauge_compiling',
    'cirq.transformers.gauge_compiling.cz_gauge',
    'cirq.transformers.gauge_compiling.cphase_gauge',
    'cirq.transformers.gauge_compiling.sqrt_cz_gauge',
    'cirq.transformers.gauge_compiling.iswap_gauge',
    'cirq.transformers.gauge_compiling.sqrt_iswap_gauge',
    'cirq.transformers.gauge_compiling.spin_inversion_gauge',
]

BOX = 4.0
IGN = 'ignore'
TOL = 1e-7


# =================================================================================================
# gate menu: name -> (number of symbolic parameters, builder(params) -> gate, documented matrix)
# =================================================================================================
def _syc():
    import cirq_google

    return cirq_google.SYC


def gate_table():
    import cirq

    return {
        'X': (1, lambda t: cirq.XPowGate(exponent=t), D.X),
        'Y': (1, lambda t: cirq.YPowGate(exponent=t), D.Y),
        'Z': (1, lambda t: cirq.ZPowGate(exponent=t), D.Z),
        'H': (1, lambda t: cirq.HPowGate(exponent=t), D.H),
        'rx': (1, lambda t: cirq.rx(t), D.rx),
        'rz': (1, lambda t: cirq.rz(t), D.rz),
        'PhX': (2, lambda t, p: cirq.PhasedXPowGate(exponent=t, phase_exponent=p), lambda t, p: D.phased_x(t, p)),
        'W': (1, lambda p: cirq.PhasedXPowGate(exponent=1.0, phase_exponent=p), lambda p: D.phased_x(1.0, p)),
        'PhXZ': (3, lambda x, z, a: cirq.PhasedXZGate(x_exponent=x, z_exponent=z, axis_phase_exponent=a), D.phased_xz),
        'PhXZ0': (2, lambda x, a: cirq.PhasedXZGate(x_exponent=x, z_exponent=0.0, axis_phase_exponent=a), lambda x, a: D.phased_xz(x, 0.0, a)),
        'PhXZ0w': (1, lambda a: cirq.PhasedXZGate(x_exponent=1.0, z_exponent=0.0, axis_phase_exponent=a), lambda a: D.phased_xz(1.0, 0.0, a)),
        'PhXZ_zl': (1, lambda z: cirq.PhasedXZGate(x_exponent=0.0, z_exponent=z, axis_phase_exponent=0.0), lambda z: D.phased_xz(0.0, z, 0.0)),
        'PhXZ_z': (1, lambda z: cirq.PhasedXZGate(x_exponent=0.3, z_exponent=z, axis_phase_exponent=0.2), lambda z: D.phased_xz(0.3, z, 0.2)),
        'PhXZ_za': (2, lambda z, a: cirq.PhasedXZGate(x_exponent=0.3, z_exponent=z, axis_phase_exponent=a), lambda z, a: D.phased_xz(0.3, z, a)),
        'CZ': (1, lambda t: cirq.CZPowGate(exponent=t), D.CZ),
        'CX': (1, lambda t: cirq.CXPowGate(exponent=t), D.CX),
        'SWAP': (1, lambda t: cirq.SwapPowGate(exponent=t), D.SWAP),
        'ISWAP': (1, lambda t: cirq.ISwapPowGate(exponent=t), D.ISWAP),
        'FSim': (2, lambda a, b: cirq.FSimGate(a, b), D.fsim),
        'ZZ': (1, lambda t: cirq.ZZPowGate(exponent=t), D.ZZ),
        'CCZ': (1, lambda t: cirq.CCZPowGate(exponent=t), D.CCZ),
        'CCX': (1, lambda t: cirq.CCXPowGate(exponent=t), D.CCX),
        # concrete members (fast paths of the passes compare against these exact values)
        'X1': (0, lambda: cirq.X, lambda: D.X(1.0)),
        'Y1': (0, lambda: cirq.Y, lambda: D.Y(1.0)),
        'Z1': (0, lambda: cirq.Z, lambda: D.Z(1.0)),
        'H1': (0, lambda: cirq.H, lambda: D.H(1.0)),
        'S': (0, lambda: cirq.S, lambda: D.Z(0.5)),
        'T': (0, lambda: cirq.T, lambda: D.Z(0.25)),
        'CZ1': (0, lambda: cirq.CZ, lambda: D.CZ(1.0)),
        'SQCZ': (0, lambda: cirq.CZ**0.5, lambda: D.CZ(0.5)),
        'SQCZi': (0, lambda: cirq.CZ**-0.5, lambda: D.CZ(-0.5)),
        'CNOT': (0, lambda: cirq.CNOT, lambda: D.CX(1.0)),
        'SWAP1': (0, lambda: cirq.SWAP, lambda: D.SWAP(1.0)),
        'ISWAP1': (0, lambda: cirq.ISWAP, lambda: D.ISWAP(1.0)),
        'SQISWAP': (0, lambda: cirq.SQRT_ISWAP, lambda: D.ISWAP(0.5)),
        'I1': (0, lambda: cirq.I, lambda: np.eye(2)),
        'SYC': (0, _syc, lambda: D.fsim(np.pi / 2, np.pi / 6)),
    }


# =================================================================================================
# circuit shapes: list of moments, a moment is a list of (gate name, qubit indices[, options])
# options: tags=(...), key='m' (for 'M'), inv=(bools) (invert mask), ctrl='m' (classical control),
#          sub=[moments] and reps=n (for 'SUB': nested CircuitOperation)
#          pauli='XZ', neg=bool (for 'MP': measurement of a Pauli observable, one record bit)
#          box=(lo, hi) (parameter box of this gate instead of [-BOX, BOX])
# =================================================================================================
TWIN_PINS = (0.25, -0.5, 0.75, 1.25, -0.25, 0.5, -1.25, 1.5)


class Built:
    def __init__(self, pin_after=None):
        self.pin_after = pin_after
        self.doc = {}  # id(op object as placed) -> documented matrix
        self.keep = []  # keeps op objects alive so ids stay unique
        self.n_params = 0
        self.ops = []  # every op object created, outer ones in order
        self.ignored = []  # ops carrying the IGN tag (any nesting level)
        self.subops = []  # CircuitOperation objects (possibly tagged), any nesting level
        self.boxed = []  # ops built with their own parameter box (option box=)

    def matrix_of(self, wrong=False):
        first = [True]

        def f(op):
            m = self.doc.get(id(op))
            if m is None:
                return None
            if wrong and first[0] and m.shape[0] >= 2:
                first[0] = False
                return perturb(m)
            return m

        return f


def _conds(c):
    """'a' -> key condition; ('a', 'b') -> both; 'sympy:a > b' -> sympy condition over the keys;
    'idx:a:-2' -> KeyCondition on record -2 of key a; 'mask:a:<index>:<bitmask or ->:<target>:<eq 0/1>'
    -> BitMaskKeyCondition"""
    import cirq
    import sympy

    cs = [c] if isinstance(c, str) else list(c)
    out = []
    for x in cs:
        if x.startswith('sympy:'):
            out.append(sympy.parse_expr(x[6:]))
        elif x.startswith('idx:'):
            _, k, i = x.split(':')
            out.append(cirq.KeyCondition(cirq.MeasurementKey(k), index=int(i)))
        elif x.startswith('mask:'):
            _, k, i, bm, tv, eq = x.split(':')
            out.append(cirq.BitMaskKeyCondition(cirq.MeasurementKey(k), index=int(i), target_value=int(tv), equal_target=bool(int(eq)), bitmask=None if bm == '-' else int(bm)))
        else:
            out.append(x)
    return out


def build(cx, spec, qubits, B=None, top=True, pin_after=None):
    import cirq

    G = gate_table()
    B = B or Built(pin_after)
    moments = []
    for mspec in spec:
        ops = []
        for item in mspec:
            name, qi = item[0], item[1]
            opt = item[2] if len(item) > 2 else {}
            qs = [qubits[i] for i in qi]
            if name == 'M':
                op = cirq.measure(*qs, key=opt.get('key', 'm'), invert_mask=tuple(opt.get('inv', ())))
            elif name == 'MP':
                # Pauli-observable measurement: pauli='XZ' (one letter per qubit), neg=True: coefficient -1
                P = {'X': cirq.X, 'Y': cirq.Y, 'Z': cirq.Z}
                ps = cirq.PauliString({q: P[ch] for q, ch in zip(qs, opt['pauli'])}, coefficient=-1 if opt.get('neg') else 1)
                op = cirq.measure_single_paulistring(ps, key=opt.get('key', 'm'))
            elif name == 'SUB':
                inner = build(cx, opt['sub'], qubits, B, top=False)
                op = cirq.CircuitOperation(cirq.FrozenCircuit(inner), repetitions=opt.get('reps', 1))
            else:
                npar, mk, doc = G[name]
                # vacuity twins: all but the first few parameters are generic CONSTANTS so that the
                # witness search for the (deliberately wrong) assertion stays easy
                # box=(lo, hi): parameter box of this gate (default [-BOX, BOX]); e.g. a box without multiples of 1/2
                # keeps a Z**t non-Clifford for every value
                lo, hi = opt.get('box', (-BOX, BOX))
                pins = TWIN_PINS if 'box' not in opt else tuple(lo + f * (hi - lo) for f in (0.37, 0.61, 0.23, 0.83))
                ps = [
                    pins[(B.n_params + j) % len(pins)] if (B.pin_after is not None and B.n_params + j >= B.pin_after) else cx.real(f'p{B.n_params + j}', lo, hi)
                    for j in range(npar)
                ]
                B.n_params += npar
                op = mk(*ps).on(*qs)
                B.doc[id(op)] = np.asarray(doc(*ps))
                B.keep.append(op)
                if 'box' in opt:
                    B.boxed.append(op)
            if opt.get('ctrl'):
                base = op
                op = op.with_classical_controls(*_conds(opt['ctrl']))
                # the interpreter strips the control and asks for the matrix of the inner op
                B.keep.append(base)
                inner_op = op.without_classical_controls()
                B.keep.append(inner_op)
                if id(base) in B.doc:
                    B.doc[id(inner_op)] = B.doc[id(base)]
            if opt.get('tags'):
                un = op
                op = op.with_tags(*opt['tags'])
                if id(un) in B.doc:
                    B.doc[id(op)] = B.doc[id(un)]
                B.keep.append(op)
                if IGN in opt['tags']:
                    B.ignored.append(op)
            if name == 'SUB':
                B.subops.append(op)
            B.ops.append(op)
            ops.append(op)
        moments.append(cirq.Moment(ops))
    if top:
        B.circuit = cirq.Circuit(moments)
        return B
    return moments


def all_ops_deep(circuit):
    """every operation object reachable from the circuit (descending into CircuitOperations)"""
    import cirq

    out = []
    for op in circuit.all_operations():
        out.append(op)
        if isinstance(op.untagged, cirq.CircuitOperation):
            out.extend(all_ops_deep(op.untagged.circuit))
    return out


# =================================================================================================
# assertions
# =================================================================================================
def snapshot(circuit):
    return list(circuit.moments)


def check_unchanged(cx, circuit, snap, label):
    ok = len(circuit.moments) == len(snap) and all(a is b for a, b in zip(circuit.moments, snap))
    cx.check(bool(ok), label=f'{label}: argument circuit unchanged (same immutable moments)')


def check_ignored_identical(cx, B, out, label):
    outs = all_ops_deep(out)
    for k, op in enumerate(B.ignored):
        cx.check(any(o is op or (o.untagged is op.untagged and o.tags == op.tags) for o in outs), label=f'{label}: ignored op #{k} is the identical object in the output')


def check_subcircuits_untouched(cx, B, out, label):
    import cirq

    outs = all_ops_deep(out)
    for op in B.subops:
        fc = op.untagged.circuit
        cx.check(any(isinstance(o.untagged, cirq.CircuitOperation) and o.untagged.circuit is fc for o in outs), label=f'{label}: sub-circuit not rewritten without deep=True')


def same_unitary(cx, B, out, qs, label, wrong=False, exact=False, tol=TOL):
    """out == g * in  for a phase g (|g| = 1):   V U^dagger has zero off-diagonal entries, equal
    diagonal entries, and |d0|^2 = 1.   exact=True: V == U entry-wise."""
    P = CS.out_times_in_dagger(B.circuit, out, qs, B.matrix_of(wrong))
    settle(cx)
    if exact:
        cx.close(P, np.eye(P.shape[0]), tol=tol, label=f'{label}: unitary(out) * unitary(in)^dagger == I')
        return
    n = P.shape[0]
    off = np.array([P[i, j] for i in range(n) for j in range(n) if i != j], dtype=object)
    cx.close(off, np.zeros(len(off)), tol=tol, label=f'{label}: out*in^dagger off-diagonal == 0')
    dg = np.array([P[i, i] - P[0, 0] for i in range(1, n)], dtype=object)
    cx.close(dg, np.zeros(n - 1), tol=tol, label=f'{label}: out*in^dagger diagonal entries equal')
    # |g| = 1 needs no VC: the output matrix is a product of unitary operation matrices (C03/C04)


def _const_value(e):
    from symx.snum import SNum

    if isinstance(e, SNum):
        return e.const_value() if e.is_const() else None
    if isinstance(e, (int, float, complex, np.number)):
        return complex(e)
    return None


def same_meaning(cx, B, out, qs, label, wrong=False, forget_records=False, tol=TOL, out_filter=None, prefilter=False):
    """same joint distribution of measurement records and same channel on the system qubits:
    per record r the super-operators agree (see oracles/circuit_sem.py)"""
    Sin = CSX.meaning(B.circuit, qs, B.matrix_of(wrong)).superops()
    Sout = CSX.meaning(out, qs).superops()
    if forget_records:
        Sin, Sout = _forget(Sin), _forget(Sout)
    settle(cx)
    a, b = [], []
    n_const = 0
    for rec in sorted(set(Sin) | set(Sout), key=repr):
        si, so = Sin.get(rec, {}), Sout.get(rec, {})
        for k in sorted(set(si) | set(so)):
            x, y = so.get(k, 0), si.get(k, 0)
            if prefilter:
                # entries that are CONSTANTS on both sides are decided by evaluation (exact arithmetic on the float
                # coefficients): agreement to 1e-9 (< tol) is accepted here, anything else goes to the solver
                xc, yc = _const_value(x), _const_value(y)
                if xc is not None and yc is not None and abs(xc - yc) <= 1e-9:
                    n_const += 1
                    continue
            a.append(x)
            b.append(y)
    cx.check(len(a) + n_const > 0, label=f'{label}: non-empty meaning')
    if n_const:
        cx.check(True, label=f'{label}: constant super-operator entries agree by evaluation (|a-b| <= 1e-9)')
    if not a:
        return
    cx.close(np.array(a, dtype=object), np.array(b, dtype=object), tol=tol, label=f'{label}: per-record super-operators agree ({len(set(Sin) | set(Sout))} records)')


def _forget(S):
    tot = {}
    for _rec, s in S.items():
        for k, v in s.items():
            tot[k] = tot.get(k, 0) + v
    return {(): tot}


# =================================================================================================
# generic obligation: run a transformer on a shape, assert non-mutation / ignored ops / sub-circuits /
# meaning
# =================================================================================================
def ctx_options(deep_opts=(False,), ign_opts=((),), **more):
    return [dict(deep=d, tags_to_ignore=t, **more) for d in deep_opts for t in ign_opts]


def opts_for(shape, deep=True, ign=True, **more):
    has_sub = any(it[0] == 'SUB' for m in shape for it in m)
    has_ign = _has_tag(shape, IGN)
    return ctx_options((False, True) if (has_sub and deep) else (False,), ((), (IGN,)) if (has_ign and ign) else ((),), **more)


def _has_tag(shape, tag):
    for m in shape:
        for it in m:
            o = it[2] if len(it) > 2 else {}
            if tag in o.get('tags', ()):
                return True
            if it[0] == 'SUB' and _has_tag(o['sub'], tag):
                return True
    return False


def mk_context(o):
    import cirq

    return cirq.TransformerContext(deep=o.get('deep', False), tags_to_ignore=tuple(o.get('tags_to_ignore', ())))


def twin_budget(cx):
    """vacuity twins only need ONE refuting path: paths whose path condition is hard for the witness
    search are given up quickly instead of spending the full per-VC timeout three times"""
    if cx.mode == 'sym':
        cx.opts['vc_timeout_ms'] = 8000
        cx.opts['lattices'] = (4,)


def transformer_ob(name, shape, n, run, options, kind='unitary', desc='', exact=False, untouched_subs=True, weight=2, tol=TOL, forget_records=False, extra=None, expected=(), check_ignored=True):
    """run(circuit, option, cx) -> output circuit"""
    import cirq

    def body(cx, wrong=False):
        if wrong:
            twin_budget(cx)
        qs = cirq.LineQubit.range(n)
        oi = cx.choose('opt', len(options)) if len(options) > 1 else 0
        opt = options[oi]
        B = build(cx, shape, qs, pin_after=2 if wrong else None)
        snap = snapshot(B.circuit)
        out = run(B.circuit, opt, cx)
        lab = f'{name}[opt{oi}]'
        check_unchanged(cx, B.circuit, snap, lab)
        if check_ignored and opt.get('tags_to_ignore'):
            check_ignored_identical(cx, B, out, lab)
        if untouched_subs and not opt.get('deep') and B.subops:
            check_subcircuits_untouched(cx, B, out, lab)
        if extra is not None:
            extra(cx, B, out, opt, lab)
        if kind == 'unitary':
            same_unitary(cx, B, out, qs, lab, wrong=wrong, exact=exact, tol=tol)
        else:
            same_meaning(cx, B, out, qs, lab, wrong=wrong, tol=tol, forget_records=forget_records)

    pts = [{'choose:opt': i} for i in range(min(len(options), 4))]
    return Obligation(name, body, twin=lambda cx: body(cx, wrong=True), points=pts, opts={'weight': weight}, desc=desc, expected=expected)


T_IGN = {'tags': (IGN,)}
T_A = {'tags': ('a',)}
T_AB = {'tags': ('a', 'b')}


def _sub(moments, **kw):
    d = {'sub': moments}
    d.update(kw)
    return d


def key_shapes():
    """neighbourhoods around measurement keys that every pass which moves / groups operations must
    respect (shared by align, stratify, synchronize, merge_*, map_*): n, shape"""
    return {
        'keys': (2, [[('X', [0])], [('M', [0], {'key': 'a'})], [('X', [1], {'ctrl': 'a'})], [('Z', [1])], [('M', [1], {'key': 'b'})]]),
        # a classically controlled op must not move / merge leftwards past the measurement of its key
        'keys2': (2, [[('X', [0]), ('Y', [1])], [('M', [0], {'key': 'a'})], [('X', [1], {'ctrl': 'a'})], [('M', [1], {'key': 'b'})]]),
        # a re-measurement of the key must not move / merge leftwards past an op controlled by it
        'keys3': (2, [[('X', [0])], [('M', [0], {'key': 'a'})], [('Y', [1], {'ctrl': 'a'})], [('X', [0])], [('M', [0], {'key': 'a'})]]),
        'remeasure': (2, [[('X', [0])], [('M', [0], {'key': 'a'}), ('Y', [1])], [], [('X', [1], {'ctrl': 'a'})], [('X', [0])], [('M', [0], {'key': 'a'})]]),
        # ... also when the re-measurement sits on ANOTHER qubit (no qubit conflict protects the order)
        'remeasure2': (2, [[('X', [0]), ('X', [1])], [('M', [0], {'key': 'a'})], [('X', [0])], [('Y', [0], {'ctrl': 'a'})], [('M', [1], {'key': 'a'})]]),
        # an op controlled by key a listed BEFORE a re-measurement of a in the same moment (ops of one
        # moment take effect in the order listed): it must keep reading the first result
        'samemoment': (2, [[('X', [0])], [('M', [0], {'key': 'a'})], [('X', [0])], [('Y', [1], {'ctrl': 'a'}), ('M', [0], {'key': 'a'})]]),
        # same key measured on two qubits: the order of the two records must be kept
        'samekey': (2, [[('X', [0]), ('X', [1])], [('M', [0], {'key': 'a'})], [('Y', [1])], [('M', [1], {'key': 'a'})]]),
        # value-equal operations (same gate object value on the same qubit) at different places
        'equal_ops': (2, [[('X1', [0])], [('M', [0], {'key': 'a'})], [('X1', [0])], [('M', [0], {'key': 'a'})], [('Y', [1], {'ctrl': 'a'})]]),
    }


# =================================================================================================
# eject_z
# =================================================================================================
def fam_eject_z(thorough):
    import cirq

    S = {
        'z_x_cz_y': (2, [[('Z', [0])], [('X', [0])], [('CZ', [0, 1])], [('Y', [1])]]),
        'z_phx_z': (1, [[('Z', [0])], [('PhX', [0])], [('Z', [0])]]),
        'z_phxz_end': (1, [[('Z', [0])], [('PhXZ_za', [0])]]),
        'phxz_phxz': (1, [[('PhXZ_z', [0])], [('PhXZ_za', [0])]]),
        'phxz_ign_end': (2, [[('PhXZ_z', [0])], [('CZ', [0, 1], T_IGN)]]),
        'z_phxz_ign_ign': (1, [[('Z', [0])], [('PhXZ_z', [0])], [('X', [0], T_IGN)], [('Y1', [0], T_IGN)]]),
        'z_phxz_ign_phxz': (1, [[('Z', [0])], [('PhXZ_z', [0])], [('H1', [0], T_IGN)], [('PhXZ_z', [0])]]),
        'phxz_x_ign': (1, [[('PhXZ_z', [0])], [('X', [0])], [('Z', [0], T_IGN)]]),
        'z_swap_x': (2, [[('Z', [0]), ('Z', [1])], [('SWAP', [0, 1])], [('X', [0]), ('Y', [1])]]),
        'z_swap1_x': (2, [[('Z', [0])], [('SWAP1', [0, 1])], [('X', [0]), ('X', [1])]]),
        'z_iswap1_x': (2, [[('Z', [0])], [('ISWAP1', [0, 1])], [('X', [0]), ('X', [1])]]),
        'z_iswap_x': (2, [[('Z', [0])], [('ISWAP', [0, 1])], [('X', [1])]]),
        'z_fsim_x': (2, [[('Z', [0])], [('FSim', [0, 1])], [('X', [1])]]),
        'z_h_z': (1, [[('Z', [0])], [('H', [0])], [('Z', [0])]]),
        'z_cx_x': (2, [[('Z', [0]), ('Z', [1])], [('CX', [0, 1])], [('X', [0])]]),
        'z_zz_x': (2, [[('Z', [0])], [('ZZ', [0, 1])], [('X', [0]), ('PhX', [1])]]),
        'z_ccz_x': (3, [[('Z', [0]), ('Z', [2])], [('CCZ', [0, 1, 2])], [('X', [2])]]),
        'z_sub_x': (2, [[('Z', [0])], [('SUB', [0, 1], _sub([[('Z', [0])], [('X', [0]), ('Z', [1])], [('CZ', [0, 1])]]))], [('X', [0])]]),
        'z_subign_x': (1, [[('Z', [0])], [('SUB', [0], _sub([[('Z', [0])], [('X', [0])]], tags=(IGN,)))], [('X', [0])]]),
        'z_nested2ign': (1, [[('Z', [0])], [('SUB', [0], _sub([[('Z', [0])], [('SUB', [0], _sub([[('Z', [0])], [('X', [0])]], tags=(IGN,)))], [('X', [0])]]))], [('X', [0])]]),
        'z_sub2_x': (1, [[('Z', [0])], [('SUB', [0], _sub([[('Z', [0])], [('PhXZ_z', [0])]], reps=2))], [('X', [0])]]),
    }
    if thorough:
        S.update(
            {
                'T_phxz_full': (1, [[('Z', [0])], [('PhXZ', [0])], [('X', [0])]]),
                'T_phxz_phxz_full': (1, [[('PhXZ', [0])], [('PhXZ_za', [0])], [('Z', [0], T_IGN)]]),
                'T_long': (3, [[('Z', [0]), ('PhX', [1])], [('CZ1', [0, 1])], [('SWAP1', [1, 2])], [('Z', [2]), ('X1', [0])], [('CZ', [1, 2])], [('Y1', [1])]]),
                'T_z_m': (2, [[('Z', [0]), ('X', [1])], [('CZ', [0, 1])], [('Z', [1])], [('PhX', [1])]]),
            }
        )
    obs = []
    for sname, (n, shape) in S.items():
        obs.append(
            transformer_ob(
                f'eject_z.{sname}',
                shape,
                n,
                lambda c, o, cx: cirq.eject_z(c, context=mk_context(o), atol=0.0),
                opts_for(shape),
                untouched_subs=True,
                desc='cirq.eject_z(circuit with fresh symbolic exponents/phases, context): out*in^dagger = g*I; ops tagged with an ignored tag identical; argument unchanged; sub-circuits rewritten only with deep=True',
            )
        )
    # measurements absorb the tracked phase: distribution of records and post-measurement channel
    M = {
        'z_m': (1, [[('X', [0])], [('Z', [0])], [('M', [0], {'key': 'a'})]]),
        'z_cz_m': (2, [[('X', [0]), ('X', [1])], [('Z', [0])], [('CZ', [0, 1])], [('M', [0, 1], {'key': 'a'})]]),
        'z_m_x': (1, [[('X', [0])], [('Z', [0])], [('M', [0], {'key': 'a'})], [('X', [0])], [('Z', [0])]]),
    }
    for sname, (n, shape) in M.items():
        obs.append(
            transformer_ob(
                f'eject_z.meas.{sname}',
                shape,
                n,
                lambda c, o, cx: cirq.eject_z(c, context=mk_context(o), atol=0.0),
                opts_for(shape),
                kind='meaning',
                desc='eject_z on circuits with measurements: per-record super-operators (joint record distribution and post-measurement channel) agree',
            )
        )
    return obs


# =================================================================================================
# eject_phased_paulis
# =================================================================================================
def fam_eject_pp(thorough):
    import cirq

    S = {
        'w_z_phx': (1, [[('W', [0])], [('Z', [0])], [('PhX', [0])]]),
        'x1_cz_y': (2, [[('X1', [0])], [('CZ', [0, 1])], [('Y', [1])]]),
        'w_w_cz_phx': (2, [[('X1', [0]), ('W', [1])], [('CZ', [0, 1])], [('PhX', [0])]]),
        'x_phx_y1': (1, [[('X', [0])], [('PhX', [0])], [('Y1', [0])]]),
        'w_w': (1, [[('W', [0])], [('W', [0])], [('X', [0])]]),
        'y_x1': (1, [[('Y', [0])], [('X1', [0])]]),
        'w_ign_w': (1, [[('W', [0])], [('Z', [0], T_IGN)], [('X1', [0])]]),
        'w_h_w': (1, [[('W', [0])], [('H', [0])], [('W', [0])]]),
        'w_phxz0': (1, [[('W', [0])], [('PhXZ0', [0])]]),
        'w_phxzzl_x': (1, [[('W', [0])], [('PhXZ_zl', [0])], [('X', [0])]]),
        'phxz0w_z_x': (1, [[('PhXZ0w', [0])], [('Z', [0])], [('X', [0])]]),
        'w_cz_cz': (3, [[('X1', [0])], [('CZ', [0, 1])], [('CZ', [0, 2])], [('W', [2])]]),
        'w_cz1_w': (2, [[('W', [0])], [('CZ1', [0, 1])], [('W', [1])]]),
        'w_sub_w': (1, [[('X1', [0])], [('SUB', [0], _sub([[('W', [0])], [('Z', [0])]]))], [('Y1', [0])]]),
        'w_swap': (2, [[('W', [0])], [('SWAP1', [0, 1])], [('W', [0])]]),
    }
    if thorough:
        S.update(
            {
                'T_long': (3, [[('W', [0]), ('X1', [1])], [('CZ', [0, 1])], [('Z', [0]), ('Y1', [1])], [('CZ1', [1, 2])], [('X1', [2])], [('Z', [2])]]),
                'T_subign': (2, [[('W', [0])], [('SUB', [0, 1], _sub([[('W', [0])], [('CZ', [0, 1])]], tags=(IGN,)))], [('W', [0])]]),
                'T_w_w_cz_phx': (2, [[('W', [0]), ('W', [1])], [('CZ', [0, 1])], [('PhX', [0])]]),
                'T_w_sub_w': (1, [[('W', [0])], [('SUB', [0], _sub([[('W', [0])], [('Z', [0])], [('X', [0])]]))], [('W', [0])]]),
                'T_w_ign_w': (1, [[('W', [0])], [('Z', [0], T_IGN)], [('W', [0])]]),
            }
        )
    obs = []
    for sname, (n, shape) in S.items():
        obs.append(
            transformer_ob(
                f'eject_phased_paulis.{sname}',
                shape,
                n,
                lambda c, o, cx: cirq.eject_phased_paulis(c, context=mk_context(o), atol=0.0),
                opts_for(shape),
                desc='cirq.eject_phased_paulis(circuit with fresh symbolic exponents/phases, context, atol=0): out*in^dagger = g*I; ignored ops identical; argument unchanged',
            )
        )
    M = {'w_m': (2, [[('X1', [0]), ('X', [1])], [('CZ', [0, 1])], [('M', [0], {'key': 'a'})], [('X', [1])]])}
    for sname, (n, shape) in M.items():
        obs.append(transformer_ob(f'eject_phased_paulis.meas.{sname}', shape, n, lambda c, o, cx: cirq.eject_phased_paulis(c, context=mk_context(o), atol=0.0), opts_for(shape), kind='meaning', desc='held W dumped in front of a measurement: per-record super-operators agree'))
    return obs


# =================================================================================================
# align_left / align_right / stratified_circuit / drop_empty_moments / insertion_sort
# =================================================================================================
def _moment_index(circuit, op):
    for i, m in enumerate(circuit.moments):
        if any(o is op for o in m.operations):
            return i
    return None


def fam_align(thorough):
    import cirq

    S = {
        'gaps': (3, [[('X', [0])], [], [('CZ', [0, 1])], [('Y', [2])], [('Z', [1]), ('H', [2])]], 'unitary'),
        'ign': (3, [[('X', [0])], [('Z', [1], T_IGN)], [('CZ', [1, 2])], [('Y', [0], T_IGN), ('PhX', [2])]], 'unitary'),
        'sub': (2, [[('X', [0])], [], [('SUB', [0, 1], _sub([[('Z', [0])], [], [('CZ', [0, 1])], [('X', [1])]]))], [('Y', [1])]], 'unitary'),
    }
    S.update({'key.' + k: (n, sh, 'meaning') for k, (n, sh) in key_shapes().items()})
    if thorough:
        S['T_long'] = (3, [[('X', [0])], [('CZ', [1, 2])], [], [('Z', [0], T_IGN)], [('CCZ', [0, 1, 2])], [('Y', [1])]], 'unitary')

    def extra_left(cx, B, out, opt, lab):
        if opt.get('tags_to_ignore'):
            for op in B.ignored:
                if _moment_index(B.circuit, op) is not None:
                    cx.check(_moment_index(out, op) == _moment_index(B.circuit, op), label=f'{lab}: ignored op stays in its original moment')

    obs = []
    for sname, (n, shape, kind) in S.items():
        for tname, T, extra in (('align_left', cirq.align_left, extra_left), ('align_right', cirq.align_right, None)):
            obs.append(
                transformer_ob(
                    f'{tname}.{sname}',
                    shape,
                    n,
                    lambda c, o, cx, T=T: T(c, context=mk_context(o)),
                    opts_for(shape),
                    kind=kind,
                    exact=True,
                    extra=extra,
                    desc=f'cirq.{tname}: same operations, meaning exactly preserved (product equals I without phase), ignored ops identical and (align_left) in their original moment',
                )
            )
    return obs


def fam_stratify(thorough):
    import cirq

    S = {
        'mix': (3, [[('X', [0]), ('CZ', [1, 2])], [('Y', [1]), ('Z', [0])], [('CZ', [0, 1]), ('H', [2])]], 'unitary'),
        'ign': (3, [[('X', [0]), ('CZ', [1, 2], T_IGN)], [('Y', [1]), ('Z', [0], T_IGN)], [('X', [2])]], 'unitary'),
        'sub': (2, [[('X', [0])], [('SUB', [0, 1], _sub([[('X', [0]), ('Z', [1])], [('CZ', [0, 1])]]))], [('Z', [1])]], 'unitary'),
        'meas': (2, [[('H1', [0])], [('M', [0], {'key': 'a'}), ('X', [1])], [('X', [1], {'ctrl': 'a'})], [('M', [1], {'key': 'b'})]], 'meaning'),
    }
    S.update({'key.' + k: (n, sh, 'meaning') for k, (n, sh) in key_shapes().items()})
    CATS = [
        ('none', lambda: ()),
        ('types', lambda: (cirq.XPowGate, cirq.ZPowGate)),
        ('pred', lambda: (lambda op: len(op.qubits) == 1,)),
        ('instance', lambda: (cirq.X, cirq.CZ)),
        ('meas', lambda: (cirq.MeasurementGate, cirq.XPowGate)),
        ('meas_only', lambda: (cirq.MeasurementGate,)),
    ]

    def extra(cx, B, out, opt, lab):
        cats = opt['cats']()
        ign = set(opt.get('tags_to_ignore', ()))
        if any(isinstance(c, cirq.Gate) for c in cats):
            return  # instance categories compare symbolic exponents: class membership is itself symbolic

        def cls(op):
            for i, c in enumerate(cats):
                if isinstance(c, type) and isinstance(op.gate, c):
                    return i
                if not isinstance(c, type) and callable(c) and c(op):
                    return i
            return len(cats)

        for m in out.moments:
            kinds = {('ign' if ign & set(op.tags) else cls(op)) for op in m.operations}
            cx.check(len(kinds) <= 1, label=f'{lab}: one category per moment')

    obs = []
    for sname, (n, shape, kind) in S.items():
        options = []
        for cname, cf in CATS if (thorough or sname == 'mix') else (CATS[:3] if kind == 'unitary' else [CATS[0], CATS[2], CATS[4], CATS[5]]):
            for o in opts_for(shape):
                o = dict(o)
                o['cats'] = cf
                options.append(o)
        obs.append(
            transformer_ob(
                f'stratified_circuit.{sname}',
                shape,
                n,
                lambda c, o, cx: cirq.stratified_circuit(c, context=mk_context(o), categories=o['cats']()),
                options,
                kind=kind,
                exact=True,
                extra=extra,
                desc='cirq.stratified_circuit over category menus (types, predicate, gate instances compared with symbolic exponents, measurement): meaning exactly preserved; one category per output moment',
            )
        )
    return obs


def fam_stratify_readers(thorough):
    """stratified_circuit: SEVERAL operations controlled by the same key on different qubits (mutually
    unordered, so a category menu can place the later one in an earlier stratum than the first one),
    followed by a re-measurement of that key: the re-measurement must stay behind ALL readers"""
    import cirq

    Ma = {'key': 'a'}
    Ca = {'ctrl': 'a'}
    S = {
        # first reader held back by single-qubit gates on its qubit, second reader free to move left
        'r2_a': (2, [[('M', [0], Ma), ('H', [1])], [('X', [1], Ca)], [('Y', [0], Ca)], [('M', [0], Ma)]]),
        'r2_b': (2, [[('M', [0], Ma), ('H', [1])], [('Z', [1])], [('X', [1], Ca)], [('Y', [0], Ca)], [('M', [0], Ma)]]),
        'r2_mirror': (2, [[('M', [1], Ma), ('X', [0])], [('X', [0], Ca)], [('Y', [1], Ca)], [('M', [1], Ma)]]),
        # a third reader behind the re-measurement must read the second record
        'r2_after': (2, [[('M', [0], Ma), ('H', [1])], [('X', [1], Ca)], [('Y', [0], Ca)], [('M', [0], Ma)], [('X', [1], Ca)]]),
        # both readers in ONE moment
        'r2_same': (2, [[('M', [0], Ma), ('X', [1])], [('Y', [1], Ca), ('X', [0], Ca)], [('M', [0], Ma)]]),
        # readers on two other qubits, re-measurement on the first qubit / on the second reader's qubit
        'r3_succ': (3, [[('M', [0], Ma), ('H', [1])], [('X', [1], Ca)], [('Y', [2], Ca)], [('M', [0], Ma)]]),
        'r3_other': (3, [[('M', [0], Ma), ('H', [1])], [('X', [1], Ca)], [('Y', [2], Ca)], [('M', [2], Ma)]]),
    }
    if thorough:
        S['T_r3_three'] = (3, [[('M', [0], Ma), ('H', [1])], [('X', [1], Ca)], [('Y', [2], Ca)], [('X', [0], Ca)], [('M', [0], Ma)]])
    on = lambda i: (lambda op: cirq.LineQubit(i) in op.qubits)
    CATS = [
        ('none', lambda: ()),
        ('meas', lambda: (cirq.MeasurementGate,)),
        ('meas_q1', lambda: (cirq.MeasurementGate, on(1))),
        ('meas_q0', lambda: (cirq.MeasurementGate, on(0))),
        ('q1', lambda: (on(1),)),
        ('q0_q1', lambda: (on(0), on(1))),
        ('cco', lambda: (cirq.ClassicallyControlledOperation,)),
        ('meas_cco', lambda: (cirq.MeasurementGate, cirq.ClassicallyControlledOperation)),
    ]

    def extra(cx, B, out, opt, lab):
        cats = opt['cats']()

        def cls(op):
            for i, c in enumerate(cats):
                if isinstance(c, type) and issubclass(c, cirq.Gate):
                    if isinstance(op.gate, c):
                        return i
                elif isinstance(c, type):
                    if isinstance(op, c):
                        return i
                elif c(op):
                    return i
            return len(cats)

        for m in out.moments:
            cx.check(len({cls(op) for op in m.operations}) <= 1, label=f'{lab}: one category per moment')
        cx.check(sorted(map(id, out.all_operations())) == sorted(map(id, B.circuit.all_operations())), label=f'{lab}: same operation objects')

    obs = []
    for sname, (n, shape) in S.items():
        options = [dict(deep=False, tags_to_ignore=(), cats=cf) for _cn, cf in CATS]
        obs.append(
            transformer_ob(
                f'stratified_circuit.readers.{sname}',
                shape,
                n,
                lambda c, o, cx: cirq.stratified_circuit(c, context=mk_context(o), categories=o['cats']()),
                options,
                kind='meaning',
                exact=True,
                extra=extra,
                weight=4 if n == 3 else 2,
                desc='cirq.stratified_circuit: two / three operations controlled by the same key on different qubits, then a re-measurement of the key; category menus (measurement, qubit predicates, ClassicallyControlledOperation type) that put the readers into different strata: per-record super-operators agree (the re-measurement stays behind every earlier reader), one category per moment, same operation objects',
            )
        )
    return obs


def fam_drop_empty(thorough):
    import cirq

    S = {
        'gaps': (2, [[], [('X', [0])], [], [], [('CZ', [0, 1])], []]),
        'sub': (2, [[('X', [0])], [], [('SUB', [0, 1], _sub([[], [('Z', [0])], [], [('CZ', [0, 1])]]))], []]),
        'subign': (2, [[], [('SUB', [0, 1], _sub([[], [('Z', [0])], [], [('CZ', [0, 1])]], tags=(IGN,)))], [('X', [1])]]),
        'nested2ign': (2, [[('X', [0])], [], [('SUB', [0, 1], _sub([[('Z', [0])], [], [('SUB', [0, 1], _sub([[('Y', [0])], [], [('CZ', [0, 1])]], tags=(IGN,)))]]))]]),
    }

    def extra(cx, B, out, opt, lab):
        cx.check(all(len(m.operations) > 0 for m in out.moments), label=f'{lab}: no empty moment left')
        if opt.get('deep'):
            for op in out.all_operations():
                if isinstance(op.untagged, cirq.CircuitOperation) and not (set(op.tags) & set(opt.get('tags_to_ignore', ()))):
                    cx.check(all(len(m.operations) > 0 for m in op.untagged.circuit.moments), label=f'{lab}: no empty moment left in sub-circuit (deep)')

    return [
        transformer_ob(f'drop_empty_moments.{sname}', shape, n, lambda c, o, cx: cirq.drop_empty_moments(c, context=mk_context(o)), opts_for(shape), exact=True, extra=extra, desc='cirq.drop_empty_moments: no empty moments remain (nested ones only with deep, never inside ignored sub-circuits); meaning exactly preserved')
        for sname, (n, shape) in S.items()
    ]


def fam_insertion_sort(thorough):
    import cirq

    S = {
        'disjoint': (3, [[('CZ', [1, 2])], [('X', [0])]], 'unitary'),
        'z_cz': (2, [[('Z', [1])], [('CZ', [0, 1])], [('Z', [0])]], 'unitary'),
        'x_cz1': (2, [[('X1', [1])], [('CZ1', [0, 1])], [('Z1', [0])]], 'unitary'),
        'chain': (3, [[('X1', [2])], [('Y', [1])], [('Z', [0])], [('CZ1', [0, 2])]], 'unitary'),
        'chain_s': (3, [[('S', [2])], [('Y', [1])], [('X1', [0])], [('CZ1', [0, 2])]], 'unitary'),
        'zz_z': (3, [[('ZZ', [1, 2])], [('CZ', [0, 1])], [('Z', [0])]], 'unitary'),
        'keys': (2, [[('X', [1])], [('M', [1], {'key': 'a'})], [('X', [0], {'ctrl': 'a'})], [('M', [0], {'key': 'b'})]], 'meaning'),
        'samekey': (2, [[('X', [0]), ('X', [1])], [('M', [1], {'key': 'a'})], [('M', [0], {'key': 'a'})]], 'meaning'),
        'remeasure': (3, [[('X', [0]), ('X', [1])], [('M', [1], {'key': 'a'})], [('X', [2], {'ctrl': 'a'})], [('M', [0], {'key': 'a'})]], 'meaning'),
        'ctrl_first': (2, [[('X', [1])], [('M', [1], {'key': 'a'})], [('Z', [1])], [('X', [0], {'ctrl': 'a'})]], 'meaning'),
        'remeasure2': (2, [[('X', [0]), ('X', [1])], [('M', [1], {'key': 'a'})], [('X', [1])], [('Y', [1], {'ctrl': 'a'})], [('M', [0], {'key': 'a'})]], 'meaning'),
    }
    return [
        transformer_ob(f'insertion_sort.{sname}', shape, n, lambda c, o, cx: cirq.transformers.insertion_sort_transformer(c, context=mk_context(o)), opts_for(shape), kind=kind, exact=True, desc='cirq.insertion_sort_transformer: operations only swapped when they commute (structural _commutes_ rules, disjoint qubits, measurement/control key conflicts); meaning exactly preserved')
        for sname, (n, shape, kind) in S.items()
    ]


# =================================================================================================
# expand_composite
# =================================================================================================
def fam_expand(thorough):
    import cirq

    S = {
        'cx_swap': (3, [[('CX', [0, 1])], [('SWAP', [1, 2])]]),
        'iswap': (2, [[('ISWAP', [0, 1])], [('X', [0])]]),
        'ccz': (3, [[('CCZ', [0, 1, 2])]]),
        'fsim_h': (3, [[('FSim', [0, 1]), ('H', [2])]]),
        'phxz_zz': (2, [[('PhXZ_za', [0])], [('ZZ', [0, 1])]]),
        'ign': (2, [[('CX', [0, 1], T_IGN)], [('SWAP1', [0, 1])], [('CNOT', [1, 0], T_IGN)]]),
        'sub': (2, [[('X', [0])], [('SUB', [0, 1], _sub([[('CX', [0, 1])], [('H', [1])]]))]]),
        'subign': (2, [[('SUB', [0, 1], _sub([[('CX', [0, 1])]], tags=(IGN,)))], [('CX', [1, 0])]]),
    }
    if thorough:
        S['T_ccx'] = (3, [[('CCX', [0, 1, 2])], [('CX', [2, 0])]])
        S['T_chain'] = (3, [[('SWAP', [0, 1]), ('H', [2])], [('FSim', [1, 2])], [('CX', [0, 2], T_IGN)], [('ISWAP', [0, 1])]])
        S['T_phxz'] = (2, [[('PhXZ', [0])], [('CX', [0, 1])]])
    KEEP = [('all', None), ('keep_cz', lambda op: isinstance(op.gate, (cirq.CZPowGate, cirq.ZPowGate, cirq.XPowGate, cirq.YPowGate, cirq.HPowGate)))]
    obs = []
    for sname, (n, shape) in S.items():
        options = []
        for kname, kf in KEEP:
            for o in opts_for(shape):
                o = dict(o)
                o['keep'] = kf
                options.append(o)

        def run(c, o, cx):
            if o['keep'] is None:
                return cirq.expand_composite(c, context=mk_context(o))
            return cirq.expand_composite(c, context=mk_context(o), no_decomp=o['keep'])

        obs.append(transformer_ob(f'expand_composite.{sname}', shape, n, run, options, untouched_subs=False, desc='cirq.expand_composite (default / no_decomp predicate, deep, tags_to_ignore): out*in^dagger = g*I; ignored ops identical'))
    return obs


# =================================================================================================
# measurement transformers
# =================================================================================================
def _terminal_measurements(circuit):
    """docstring of find_terminal_measurements: 'A measurement is terminal if there are no other
    operations acting on the measured qubits after the measurement operation occurs in the circuit.'
    (top level only).  Additionally a measurement whose key controls a later operation cannot be
    moved behind it without changing the meaning; those are not required to move."""
    import cirq

    res = []
    ms = circuit.moments
    for i, m in enumerate(ms):
        for op in m.operations:
            if not cirq.is_measurement(op):
                continue
            later_q = any(set(o.qubits) & set(op.qubits) for mm in ms[i + 1 :] for o in mm.operations)
            later_c = any(cirq.control_keys(o) & cirq.measurement_key_objs(op) for mm in ms[i + 1 :] for o in mm.operations)
            if not later_q:
                res.append((i, op, later_c))
    return res


def fam_sync(thorough):
    import cirq

    S = {
        'two': (2, [[('X', [0]), ('X', [1])], [('M', [0], {'key': 'a'})], [('Z', [1])], [('M', [1], {'key': 'b'})]]),
        'joint_partial': (2, [[('X', [0]), ('Y', [1])], [('M', [0, 1], {'key': 'a'})], [('X', [1])]]),
        'joint_partial3': (3, [[('X', [0])], [('M', [0, 1], {'key': 'a'}), ('X', [2])], [('X', [1])], [('M', [2], {'key': 'b'})]]),
        'ctrl': (2, [[('X', [0])], [('M', [0], {'key': 'a'})], [('X', [1], {'ctrl': 'a'})], [('M', [1], {'key': 'b'})]]),
        'ign': (2, [[('X', [0]), ('X', [1])], [('M', [0], {'key': 'a', 'tags': (IGN,)}), ('M', [1], {'key': 'b'})], [], [('I1', [0])]]),
        'last_busy': (2, [[('X', [0])], [('M', [0], {'key': 'a'})], [('X', [1])]]),
        'sub': (2, [[('X', [0])], [('SUB', [0, 1], _sub([[('X', [1])], [('M', [1], {'key': 'b'})], [('Z', [0])]]))], [('M', [0], {'key': 'a'})], [('I1', [1])]]),
    }

    S.update({'key.' + k: v for k, v in key_shapes().items()})

    def extra(cx, B, out, opt, lab):
        ign = set(opt.get('tags_to_ignore', ()))
        term = [(i, op) for i, op, ctl in _terminal_measurements(B.circuit) if not ctl and not (ign & set(op.tags))]
        for _i, op in term:
            cx.check(_moment_index(out, op) == len(out.moments) - 1, label=f'{lab}: terminal measurement sits in the final moment')
        if term and opt['after']:
            cx.check(all(cirq.is_measurement(o) for o in out.moments[-1].operations), label=f'{lab}: final moment holds measurements only (after_other_operations)')

    obs = []
    for sname, (n, shape) in S.items():
        options = []
        for after in (True, False):
            for o in opts_for(shape):
                o = dict(o)
                o['after'] = after
                options.append(o)
        obs.append(
            transformer_ob(
                f'synchronize_terminal_measurements.{sname}',
                shape,
                n,
                lambda c, o, cx: cirq.synchronize_terminal_measurements(c, context=mk_context(o), after_other_operations=o['after']),
                options,
                kind='meaning',
                extra=extra,
                desc='cirq.synchronize_terminal_measurements / find_terminal_measurements: per-record super-operators agree (a joint measurement with a busy qubit must not pass later gates, a measurement must not pass an operation it controls); terminal measurements end in the final moment',
            )
        )
    return obs


def _all_measurements_terminal(circuit):
    import cirq

    seen = set()
    for m in circuit.moments:
        for op in m.operations:
            if set(op.qubits) & seen:
                return False
        for op in m.operations:
            if cirq.is_measurement(op):
                seen |= set(op.qubits)
    return True


def fam_defer(thorough):
    import cirq

    S = {
        'basic': (2, [[('X', [0])], [('M', [0], {'key': 'a'})], [('X', [1], {'ctrl': 'a'})], [('PhX', [1])], [('M', [1], {'key': 'b'})]]),
        'inv': (2, [[('X', [0])], [('M', [0], {'key': 'a', 'inv': (True,)})], [('Y', [1], {'ctrl': 'a'})]]),
        'joint': (2, [[('X', [0]), ('X', [1])], [('M', [0, 1], {'key': 'a'})], [('X', [0], {'ctrl': 'a'})]]),
        'twice': (2, [[('X', [0])], [('M', [0], {'key': 'a'})], [('X', [0])], [('M', [0], {'key': 'a'})], [('X', [1], {'ctrl': 'a'})]]),
        'sub': (2, [[('X', [0])], [('SUB', [0, 1], _sub([[('M', [0], {'key': 'a'})], [('X', [1], {'ctrl': 'a'})]]))], [('Z', [1])]]),
        'two_keys': (2, [[('X', [0]), ('X', [1])], [('M', [0], {'key': 'a'}), ('M', [1], {'key': 'b'})], [('X', [0], {'ctrl': ('a', 'b')})]]),
        'feedback': (1, [[('X', [0])], [('M', [0], {'key': 'a'})], [('X1', [0], {'ctrl': 'a'})], [('Z', [0])]]),
        'sympy_cond': (2, [[('X', [0]), ('X', [1])], [('M', [0], {'key': 'a'}), ('M', [1], {'key': 'b'})], [('Y', [0], {'ctrl': 'sympy:a > b'})]]),
    }
    def extra(cx, B, out, opt, lab):
        cx.check(_all_measurements_terminal(out), label=f'{lab}: all measurements of the output are terminal')
        cx.check(not any(getattr(o, 'classical_controls', None) for o in out.all_operations()), label=f'{lab}: no classical control left')

    return [
        transformer_ob(
            f'defer_measurements.{sname}',
            shape,
            n,
            lambda c, o, cx: cirq.defer_measurements(c) if o['ctx'] is None else cirq.defer_measurements(c, context=cirq.TransformerContext()),
            [{'ctx': None}, {'ctx': 'default'}] if sname == 'basic' else [{'ctx': None}],
            kind='meaning',
            untouched_subs=False,
            extra=extra,
            weight=4,
            desc='cirq.defer_measurements: ancilla qubits start in |0>, per-record super-operators on the system qubits (ancillas traced out) agree with the mid-circuit-measurement + classical-control meaning; all output measurements terminal',
        )
        for sname, (n, shape) in S.items()
    ] + _defer_repeated(extra, thorough)


def _defer_repeated(extra, thorough):
    """defer_measurements with REPEATED measurement keys.  Every entry: n, variants, shape(variant).
    (The first two shapes were `finding.defer_measurements.repeated_key` until the defect was repaired.)"""
    import cirq

    Ma = {'key': 'a'}

    def ctl(c):
        return {'ctrl': c}

    IDX2 = [f'idx:a:{i}' for i in (0, 1, -1, -2)]
    IDX3 = [f'idx:a:{i}' for i in (0, 1, 2, -1, -2, -3)]
    # (a & 1) == 1 | (a & 2) != 0 | a == 2 | a != 0 (default arguments)   on records 0 / 1 / -1 / -2
    MASKS = [f'mask:a:{i}:{bm}:{tv}:{eq}' for i in (0, 1, -1, -2) for (bm, tv, eq) in (('1', 1, 1), ('2', 0, 0), ('-', 2, 1))] + ['mask:a:-1:-:0:0', 'mask:a:0:-:0:0']
    F = {
        # an earlier measurement EQUAL to the terminal one (same qubit, same key), with / without a reader
        'equal_terminal_ctrl': (2, ['a', 'idx:a:0', 'idx:a:-1', 'mask:a:0:-:0:0'], lambda v: [[('X', [0])], [('M', [0], Ma)], [('Y', [1], ctl(v))], [('X', [0])], [('M', [0], Ma)]]),
        'equal_terminal_plain': (1, [None], lambda v: [[('X', [0])], [('M', [0], Ma)], [('X', [0])], [('M', [0], Ma)]]),
        'equal_terminal_inv': (1, [None], lambda v: [[('X', [0])], [('M', [0], {'key': 'a', 'inv': (True,)})], [('X', [0])], [('M', [0], {'key': 'a', 'inv': (True,)})]]),
        # terminal measurement of a key that was measured earlier: the ORDER of the records of the key
        'order_other_qubit': (2, [None], lambda v: [[('X', [0]), ('X', [1])], [('M', [0], Ma)], [('X', [0])], [('M', [1], Ma)]]),
        'order_terminal_first': (2, [None], lambda v: [[('X', [0]), ('X', [1])], [('M', [1], Ma)], [('M', [0], Ma)], [('X', [0])]]),
        'order_three': (2, [None], lambda v: [[('X', [0]), ('X', [1])], [('M', [0], Ma)], [('X', [0])], [('M', [1], Ma)], [('M', [0], Ma)]]),
        'order_two_keys': (1, [None], lambda v: [[('X', [0])], [('M', [0], Ma)], [('X', [0])], [('M', [0], {'key': 'b'})], [('X', [0])], [('M', [0], Ma)]]),
        # KeyCondition with every valid index on a key measured twice (reader behind both / between) / three times
        'twice_idx': (2, IDX2, lambda v: [[('X', [0])], [('M', [0], Ma)], [('X', [0])], [('M', [0], Ma)], [('Y', [1], ctl(v))]]),
        'twice_idx_then_terminal': (2, IDX2, lambda v: [[('X', [0]), ('X', [1])], [('M', [0], Ma)], [('M', [1], Ma)], [('Y', [1], ctl(v))], [('M', [0], Ma)]]),
        'thrice_idx': (2, IDX3, lambda v: [[('M', [0], Ma)], [('M', [1], Ma)], [('X', [0])], [('M', [0], Ma)], [('Y', [1], ctl(v))]]),
        # BitMaskKeyCondition (bitmask / target / == / !=) with every valid index on a two-bit key measured twice
        'twice_mask': (2, MASKS, lambda v: [[('M', [0, 1], Ma)], [('X', [0])], [('M', [0, 1], Ma)], [('Y', [0], ctl(v))]]),
        # two readers with different indices of the same key
        'twice_two_readers': (2, [('idx:a:0', 'idx:a:1'), ('idx:a:-2', 'mask:a:-1:-:0:0'), ('idx:a:1', 'idx:a:-1')], lambda v: [[('M', [0], Ma)], [('X', [0])], [('M', [0], Ma)], [('Y', [1], ctl(v[0]))], [('X', [1], ctl(v[1]))]]),
    }
    if thorough:
        F['T_thrice_mask'] = (2, [f'mask:a:{i}:-:0:0' for i in (0, 1, 2, -1, -2, -3)], lambda v: [[('X', [0]), ('X', [1])], [('M', [0], Ma)], [('M', [1], Ma)], [('X', [0])], [('M', [0], Ma)], [('Y', [1], ctl(v))], [('M', [1], {'key': 'b'})]])

    obs = []
    for fname, (n, variants, shape_fn) in F.items():

        def body(cx, wrong=False, n=n, variants=variants, shape_fn=shape_fn, fname=fname):
            if wrong:
                twin_budget(cx)
            qs = cirq.LineQubit.range(n)
            vi = cx.choose('variant', len(variants)) if len(variants) > 1 else 0
            B = build(cx, shape_fn(variants[vi]), qs, pin_after=1 if wrong else None)
            snap = snapshot(B.circuit)
            out = cirq.defer_measurements(B.circuit)
            lab = f'defer_measurements.repeated.{fname}[variant{vi}]'
            check_unchanged(cx, B.circuit, snap, lab)
            extra(cx, B, out, {}, lab)
            same_meaning(cx, B, out, qs, lab, wrong=wrong)

        obs.append(
            Obligation(
                f'defer_measurements.repeated.{fname}',
                body,
                twin=lambda cx, b=body: b(cx, wrong=True),
                points=[{'choose:variant': i} for i in range(min(len(variants), 6))] if len(variants) > 1 else [{}],
                opts={'weight': 4},
                desc='cirq.defer_measurements with a measurement key measured two / three times (earlier measurement equal to the terminal one, terminal measurement of a key measured earlier, KeyCondition / BitMaskKeyCondition with every valid positive and negative record index): per-record super-operators agree (record ORDER of the key included), all output measurements terminal, no classical control left',
            )
        )
    return obs


def fam_dephase_drop(thorough):
    import cirq

    obs = []
    S = {
        'one': (1, [[('X', [0])], [('M', [0], {'key': 'a'})], [('PhX', [0])]]),
        'joint': (2, [[('X', [0]), ('X', [1])], [('CZ', [0, 1])], [('M', [0, 1], {'key': 'a', 'inv': (True, False)})], [('X', [0])]]),
        'sub': (2, [[('X', [0])], [('SUB', [0, 1], _sub([[('CX', [0, 1])], [('M', [1], {'key': 'b'})]]))], [('X', [1])]]),
        'ign': (1, [[('X', [0])], [('M', [0], {'key': 'a', 'tags': (IGN,)})], [('X', [0])], [('M', [0], {'key': 'b'})]]),
    }
    for sname, (n, shape) in S.items():
        if sname == 'sub':
            options = [{'ctx': 'default'}, {'ctx': 'explicit', 'deep': True, 'tags_to_ignore': ()}]
        elif sname == 'ign':
            options = [{'ctx': 'explicit', 'deep': True, 'tags_to_ignore': (IGN,)}]
        else:
            options = [{'ctx': 'default'}, {'ctx': 'explicit', 'deep': False, 'tags_to_ignore': ()}]
        obs.append(
            transformer_ob(
                f'dephase_measurements.{sname}',
                shape,
                n,
                lambda c, o, cx: cirq.dephase_measurements(c) if o['ctx'] == 'default' else cirq.dephase_measurements(c, context=mk_context(o)),
                options,
                kind='meaning',
                forget_records=True,
                untouched_subs=False,
                desc='cirq.dephase_measurements: the channel on the qubits with the records summed out (what a density-matrix simulation without records computes) is unchanged',
            )
        )

    # drop_terminal_measurements: identity / X in place of each terminal measurement
    D_ = {
        'inv': (2, [[('X', [0]), ('Y', [1])], [('CZ', [0, 1])], [('M', [0], {'key': 'a', 'inv': (True,)})], [('M', [1], {'key': 'b'})]]),
        'joint': (2, [[('H', [0])], [('CX', [0, 1])], [('M', [0, 1], {'key': 'a', 'inv': (False, True)})]]),
        'sub': (2, [[('X', [0])], [('SUB', [0, 1], _sub([[('CZ', [0, 1])], [('M', [1], {'key': 'b', 'inv': (True,)})]]))], [('M', [0], {'key': 'a'})]]),
    }
    for sname, (n, shape) in D_.items():

        def body(cx, wrong=False, n=n, shape=shape, sname=sname):
            if wrong:
                twin_budget(cx)
            qs = cirq.LineQubit.range(n)
            oi = cx.choose('opt', 2)
            B = build(cx, shape, qs, pin_after=2 if wrong else None)
            snap = snapshot(B.circuit)
            out = cirq.drop_terminal_measurements(B.circuit) if oi == 0 else cirq.drop_terminal_measurements(B.circuit, context=cirq.TransformerContext(deep=True))
            lab = f'drop_terminal_measurements.{sname}[opt{oi}]'
            check_unchanged(cx, B.circuit, snap, lab)
            cx.check(not cirq.is_measurement(out), label=f'{lab}: no measurement left')
            # documented result: "identity or X gates in place of terminal measurements"
            exp_ops = []
            for op in CS.flat_ops(B.circuit):
                if cirq.is_measurement(op):
                    exp_ops.extend(cirq.X(q) for q, b in zip(op.qubits, op.gate.full_invert_mask()) if b)
                else:
                    exp_ops.append(op)
            expected = cirq.Circuit(exp_ops)
            P = CS.out_times_in_dagger(expected, out, qs, B.matrix_of(wrong))
            settle(cx)
            cx.close(P, np.eye(P.shape[0]), label=f'{lab}: unitary(out) == unitary(input with measurements replaced by I / X per invert mask)')

        obs.append(Obligation(f'drop_terminal_measurements.{sname}', body, twin=lambda cx, b=body: b(cx, wrong=True), points=[{'choose:opt': 0}, {'choose:opt': 1}], desc='cirq.drop_terminal_measurements (default context and explicit deep=True): documented replacement (X where the invert mask is set, identity otherwise), exact unitary'))

    def body_nonterminal(cx):
        qs = cirq.LineQubit.range(1)
        B = build(cx, [[('X', [0])], [('M', [0], {'key': 'a'})], [('X', [0])]], qs)
        how = cx.choose('how', 2)
        try:
            if how == 0:
                cirq.drop_terminal_measurements(B.circuit)
            else:
                cirq.drop_terminal_measurements(build(cx, [[('M', [0], {'key': 'b'})]], qs).circuit, context=cirq.TransformerContext(deep=False))
            raised = False
        except ValueError:
            raised = True
        cx.check(raised, label='drop_terminal_measurements: documented ValueError (non-terminal measurement / deep=False)')

    obs.append(Obligation('drop_terminal_measurements.raises', body_nonterminal, twin=None, points=[{'choose:how': 0}, {'choose:how': 1}], desc='documented ValueError for non-terminal measurements and for deep=False'))
    return obs


# =================================================================================================
# drop_diagonal_before_measurement
# =================================================================================================
def fam_drop_diagonal(thorough):
    """cirq.drop_diagonal_before_measurement: Z**t / CZ**t (symbolic exponents) in front of
    computational-basis measurements (removable), Pauli-observable measurements in the X / Y / Z basis,
    sub-circuits that rotate and then measure, partially measured CZ, broken chains, ignored tags.
    shape -> (n, moments, 'dropped' | 'kept' | None): with 'dropped' the documentation promises that no
    Z / CZ power is left in the output, with 'kept' the CZ power must still be there"""
    import cirq

    Ma, Mb = {'key': 'a'}, {'key': 'b'}
    S = {
        # removable (docstring examples with symbolic exponents)
        'z_m': (1, [[('X', [0])], [('Z', [0])], [('M', [0], Ma)]], 'dropped'),
        'z_cz_mm': (2, [[('X', [0]), ('X', [1])], [('Z', [0])], [('CZ', [0, 1])], [('M', [0], Ma), ('M', [1], Mb)]], 'dropped'),
        'cz_joint': (2, [[('X', [0]), ('Y', [1])], [('CZ', [0, 1])], [('Z', [1])], [('M', [0, 1], {'key': 'a', 'inv': (True, False)})]], 'dropped'),
        'cz_mm_moments': (2, [[('X', [0]), ('X', [1])], [('CZ', [0, 1])], [('M', [0], Ma)], [('M', [1], Mb)]], 'dropped'),
        # Pauli-observable measurements: only the computational basis absorbs a diagonal gate
        'z_mpx': (1, [[('X', [0])], [('Z', [0])], [('MP', [0], {'key': 'a', 'pauli': 'X'})]], None),
        'z_mpy': (1, [[('X', [0])], [('Z', [0])], [('MP', [0], {'key': 'a', 'pauli': 'Y', 'neg': True})]], None),
        'z_mpz': (1, [[('X', [0])], [('Z', [0])], [('MP', [0], {'key': 'a', 'pauli': 'Z'})]], None),
        'cz_mpxz': (2, [[('X', [0]), ('X', [1])], [('CZ', [0, 1])], [('MP', [0, 1], {'key': 'a', 'pauli': 'XZ'})]], 'kept'),
        'cz_mpx_m': (2, [[('X', [0]), ('X', [1])], [('CZ', [0, 1])], [('MP', [0], {'key': 'a', 'pauli': 'X'}), ('M', [1], Mb)]], 'kept'),
        'z_mpx_m': (1, [[('X', [0])], [('Z', [0])], [('MP', [0], {'key': 'a', 'pauli': 'X'})], [('Z', [0])], [('M', [0], Mb)]], None),
        # sub-circuits that rotate and then measure / that measure directly
        'z_sub_h_m': (1, [[('X', [0])], [('Z', [0])], [('SUB', [0], _sub([[('H1', [0])], [('M', [0], Ma)]]))]], None),
        'z_sub_x_m': (1, [[('Z', [0])], [('SUB', [0], _sub([[('X', [0])], [('Z', [0])], [('M', [0], Ma)]]))]], None),
        'cz_sub_h_m_m': (2, [[('X', [0]), ('X', [1])], [('CZ', [0, 1])], [('SUB', [0], _sub([[('H1', [0])], [('M', [0], Ma)]])), ('M', [1], Mb)]], 'kept'),
        'z_sub_m': (1, [[('X', [0])], [('Z', [0])], [('SUB', [0], _sub([[('M', [0], Ma)]]))]], None),
        # partially measured CZ, chains broken by a later gate
        'cz_partial': (2, [[('X', [0]), ('X', [1])], [('CZ', [0, 1])], [('M', [0], Ma)], [('X', [1])]], 'kept'),
        'cz_partial_z': (2, [[('X', [0]), ('X', [1])], [('CZ', [0, 1])], [('Z', [0])], [('M', [0], Ma)]], None),
        'cz_broken': (2, [[('X', [0]), ('X', [1])], [('CZ', [0, 1])], [('M', [0], Ma), ('H', [1])], [('M', [1], Mb)]], 'kept'),
        'z_x_m': (1, [[('Z', [0])], [('X', [0])], [('Z', [0])], [('M', [0], Ma)], [('X', [0])], [('Z', [0])]], None),
        'z_m_z_m': (1, [[('X', [0])], [('Z', [0])], [('M', [0], Ma)], [('X', [0])], [('Z', [0])], [('M', [0], Mb)]], None),
        # classical control, ignored tags
        'ctrl_z_m': (2, [[('X', [0]), ('X', [1])], [('M', [0], Ma)], [('Z', [1], {'ctrl': 'a'})], [('M', [1], Mb)]], None),
        'z_ctrl_x_m': (2, [[('X', [0]), ('X', [1])], [('M', [0], Ma), ('Z', [1])], [('X', [1], {'ctrl': 'a'})], [('M', [1], Mb)]], None),
        'ign_z_m': (1, [[('X', [0])], [('Z', [0], T_IGN)], [('M', [0], Ma)]], None),
        'ign_cz_mm': (2, [[('X', [0]), ('X', [1])], [('Z', [1])], [('CZ', [0, 1], T_IGN)], [('M', [0], Ma), ('M', [1], Mb)]], None),
    }
    if thorough:
        S['T_cz_mpyy'] = (2, [[('X', [0]), ('X', [1])], [('Z', [0])], [('CZ', [0, 1])], [('MP', [0, 1], {'key': 'a', 'pauli': 'YY', 'neg': True})], [('M', [0, 1], Mb)]], None)
        S['T_sub_deep'] = (2, [[('X', [0])], [('Z', [0])], [('SUB', [0, 1], _sub([[('X', [1])], [('CZ', [0, 1])], [('MP', [0], {'key': 'a', 'pauli': 'X'}), ('M', [1], Mb)]]))]], None)

    def n_diag(circ):
        return sum(1 for op in CS.flat_ops(circ) if isinstance(op.gate, (cirq.ZPowGate, cirq.CZPowGate)))

    def n_cz(circ):
        return sum(1 for op in CS.flat_ops(circ) if isinstance(op.gate, cirq.CZPowGate))

    obs = []
    for sname, (n, shape, promise) in S.items():

        def extra(cx, B, out, opt, lab, promise=promise):
            if promise == 'dropped':
                cx.check(n_diag(out) == 0, label=f'{lab}: documented removal: no Z / CZ power left in front of the computational-basis measurements')
            if promise == 'kept':
                cx.check(n_cz(out) == n_cz(B.circuit), label=f'{lab}: the CZ power in front of a non-computational-basis / partial measurement is kept')

        obs.append(
            transformer_ob(
                f'drop_diagonal_before_measurement.{sname}',
                shape,
                n,
                lambda c, o, cx: cirq.drop_diagonal_before_measurement(c, context=mk_context(o)) if o.get('ctx', True) else cirq.drop_diagonal_before_measurement(c),
                opts_for(shape) + ([{'ctx': False}] if sname in ('z_m', 'z_mpx') else []),
                kind='meaning',
                extra=extra,
                desc='cirq.drop_diagonal_before_measurement (runs eject_z first) with symbolic Z**t / CZ**t: per-record super-operators agree (computational-basis MeasurementGate absorbs the diagonal gate; Pauli-observable measurements in X / Y basis, sub-circuits that rotate and then measure, partially measured CZ, chains broken by later gates and ignored tags do not); documented removal / retention counted',
            )
        )
    return obs


# =================================================================================================
# tag transformers
# =================================================================================================
def fam_tags(thorough):
    import cirq

    S = {
        'flat': (2, [[('X', [0], T_A), ('Z', [1], T_AB)], [('CZ', [0, 1])], [('Y', [0], T_A)]]),
        'sub': (2, [[('X', [0], T_A)], [('SUB', [0, 1], _sub([[('Z', [0], T_A)], [('CZ', [0, 1], T_AB)]], tags=('a',)))], [('Y', [1], {'tags': ('b',)})]]),
    }
    obs = []
    for sname, (n, shape) in S.items():
        deep_opts = [False, True] if sname == 'sub' else [False]

        def extra_index(cx, B, out, opt, lab):
            ops = all_ops_deep(out) if opt['deep'] else list(out.all_operations())
            got = sorted(str(t) for op in ops for t in op.tags if str(t).startswith('a_'))
            n_a = sum(1 for op in (all_ops_deep(B.circuit) if opt['deep'] else list(B.circuit.all_operations())) if 'a' in op.tags)
            cx.check(got == sorted(f'a_{i}' for i in range(n_a)), label=f'{lab}: tags a_0..a_{n_a - 1} each used once')
            cx.check(not any('a' in op.tags for op in ops), label=f'{lab}: no un-indexed target tag left')
            cx.check(sum(1 for op in ops if 'b' in op.tags) == sum(1 for op in (all_ops_deep(B.circuit) if opt['deep'] else list(B.circuit.all_operations())) if 'b' in op.tags), label=f'{lab}: other tags kept')

        def extra_remove(cx, B, out, opt, lab):
            ops = all_ops_deep(out) if opt['deep'] else list(out.all_operations())
            cx.check(not any('a' in op.tags for op in ops), label=f'{lab}: target tag removed')
            cx.check(sum(1 for op in ops if 'b' in op.tags) == (0 if opt.get('remove_if') else sum(1 for op in (all_ops_deep(B.circuit) if opt['deep'] else list(B.circuit.all_operations())) if 'b' in op.tags)), label=f'{lab}: other tags kept / removed by predicate')

        obs.append(transformer_ob(f'index_tags.{sname}', shape, n, lambda c, o, cx: cirq.index_tags(c, context=mk_context(o), target_tags={'a'}), [dict(deep=d, tags_to_ignore=()) for d in deep_opts], exact=True, extra=extra_index, untouched_subs=False, desc='cirq.index_tags: meaning exactly preserved, target tags replaced by tag_0..tag_k each used once, other tags kept'))
        obs.append(
            transformer_ob(
                f'remove_tags.{sname}',
                shape,
                n,
                lambda c, o, cx: cirq.remove_tags(c, context=mk_context(o), target_tags={'a'}, **({'remove_if': (lambda t: t == 'b')} if o.get('remove_if') else {})),
                [dict(deep=d, tags_to_ignore=(), remove_if=r) for d in deep_opts for r in (False, True)],
                exact=True,
                extra=extra_remove,
                untouched_subs=False,
                desc='cirq.remove_tags(target_tags / remove_if): meaning exactly preserved, exactly the selected tags removed',
            )
        )
    return obs


# =================================================================================================
# transformer primitives with meaning-preserving map / merge functions
# =================================================================================================
def _halves(op, _idx=None):
    """U^t = U^(t/2) U^(t/2): two overlapping operations (forces the multi-moment placement / wrapping)"""
    import cirq

    g = op.gate
    if isinstance(g, cirq.EigenGate):
        h = g._with_exponent(g.exponent * 0.5)
        return [h.on(*op.qubits), h.on(*op.qubits)]
    return op


def _wrap2(op1, op2):
    import cirq

    if len(set(op1.qubits) | set(op2.qubits)) > 2:
        return None
    return cirq.CircuitOperation(cirq.FrozenCircuit(op1, op2))


def _wrap1(op1, op2):
    import cirq

    if len(op1.qubits) == 1 and len(op2.qubits) == 1:
        return cirq.CircuitOperation(cirq.FrozenCircuit(op1, op2))
    return None


def _merge_disjoint_moments(m1, m2):
    import cirq

    if set(m1.qubits) & set(m2.qubits):
        return None
    return cirq.Moment(list(m1.operations) + list(m2.operations))


def _split_moment(m, _i=None):
    import cirq

    one = [op for op in m.operations if len(op.qubits) == 1]
    rest = [op for op in m.operations if len(op.qubits) != 1]
    return [cirq.Moment(one), cirq.Moment(rest)]


def _merge_batch(moments):
    import cirq

    ops = list(moments[0].operations)
    qs = set(moments[0].qubits)
    k = 1
    while k < len(moments) and not (qs & set(moments[k].qubits)):
        ops += list(moments[k].operations)
        qs |= set(moments[k].qubits)
        k += 1
    return cirq.Moment(ops), list(moments[k:])


def _split_moment_keep_order(m, _i=None):
    import cirq

    ops = list(m.operations)
    return [cirq.Moment(ops[:1]), cirq.Moment(ops[1:])]


def fam_primitives(thorough):
    import cirq

    BASE = {
        'mixed': (3, [[('X', [0]), ('CZ', [1, 2])], [('Z', [0]), ('Y', [1])], [('CZ', [0, 1]), ('H', [2])], [('X', [1])]]),
        'ign': (2, [[('X', [0]), ('Z', [1], T_IGN)], [('CZ', [0, 1])], [('Y', [0], T_IGN)], [('X', [0]), ('PhX', [1])]]),
        'sub': (2, [[('X', [0])], [('SUB', [0, 1], _sub([[('Z', [0]), ('X', [1])], [('CZ', [0, 1])], [('Y', [0])]]))], [('Z', [1])]]),
        'subign': (2, [[('X', [0])], [('SUB', [0, 1], _sub([[('Z', [0])], [('X', [0])]], tags=(IGN,)))], [('X', [0])]]),
    }
    if thorough:
        BASE['T_long'] = (3, [[('X', [0]), ('S', [1])], [('CZ1', [0, 1]), ('H1', [2])], [('Z', [0]), ('CZ', [1, 2])], [('Y1', [1], T_IGN)], [('CCZ', [0, 1, 2])], [('X1', [2]), ('T', [1])]])
    BASE['nested2'] = (2, [[('X', [0])], [('SUB', [0, 1], _sub([[('Z', [0])], [('X', [1])], [('SUB', [0, 1], _sub([[('Y', [0])], [('Z', [1])], [('CZ', [0, 1])]]))]]))], [('Z', [1])]])
    BASE['nested2ign'] = (2, [[('X', [0])], [('SUB', [0, 1], _sub([[('Z', [0])], [('X', [1])], [('SUB', [0, 1], _sub([[('Y', [0])], [('Z', [1])], [('CZ', [0, 1])]], tags=(IGN,)))]]))], [('Z', [1])]])
    MEAS = {k: v for k, v in key_shapes().items() if k != 'samemoment'}  # merge_* sort the ops of a moment by qubits: order inside one moment is not kept (see bounds)
    obs = []

    def add(pname, run, shapes, desc, more=({},), untouched=False, kind='unitary', exact=False, extra=None, check_ignored=True):
        for sname, (n, shape) in shapes.items():
            options = []
            for m in more:
                for o in opts_for(shape):
                    o = dict(o)
                    o.update(m)
                    options.append(o)
            obs.append(transformer_ob(f'{pname}.{sname}', shape, n, run, options, kind=kind, exact=exact, untouched_subs=untouched, desc=desc, extra=extra, check_ignored=check_ignored))

    kw = lambda o: dict(deep=o['deep'], tags_to_ignore=o['tags_to_ignore'])
    add('map_operations', lambda c, o, cx: cirq.map_operations(c, _halves, **kw(o)), BASE, 'cirq.map_operations with op -> two half-power ops (wrapped in a tagged CircuitOperation): out*in^dagger = g*I, ignored ops identical, deep handling', untouched=True)
    add('map_operations_and_unroll', lambda c, o, cx: cirq.map_operations_and_unroll(c, _halves, **kw(o)), BASE, 'cirq.map_operations_and_unroll with op -> two half-power ops: placement through the placement cache keeps the order on every qubit', untouched=True)
    add('map_operations_and_unroll.meas', lambda c, o, cx: cirq.map_operations_and_unroll(c, _halves, **kw(o)), MEAS, 'same with measurement / classical control present', kind='meaning')
    add('map_moments', lambda c, o, cx: cirq.map_moments(c, _split_moment, **kw(o)), {k: BASE[k] for k in ('mixed', 'sub', 'subign', 'nested2', 'nested2ign')}, 'cirq.map_moments with moment -> [1-qubit ops, other ops]', exact=True)
    add(
        'merge_operations',
        lambda c, o, cx: cirq.merge_operations(c, o['mf'], **kw(o)),
        BASE,
        'cirq.merge_operations (union-find components) with merge functions that wrap both ops into a CircuitOperation (<=2 qubits / 1-qubit only / never)',
        more=({'mf': _wrap2}, {'mf': _wrap1}, {'mf': lambda a, b: None}),
        exact=True,
    )
    add('merge_operations.meas', lambda c, o, cx: cirq.merge_operations(c, _wrap2, **kw(o)), MEAS, 'merge_operations must not merge across measurement / control key dependencies', kind='meaning')
    def merged_everywhere(cx, B, out, opt, lab):
        ign = set(opt['tags_to_ignore'])

        def ok(circ):
            ms = circ.moments
            if any(not (set(a.qubits) & set(b.qubits)) for a, b in zip(ms, ms[1:])):
                return False
            if opt['deep']:
                for op in circ.all_operations():
                    if isinstance(op.untagged, cirq.CircuitOperation) and not (ign & set(op.tags)) and not ok(op.untagged.circuit):
                        return False
            return True

        cx.check(ok(out), label=f'{lab}: no two adjacent moments left that the merge function would merge (all nesting levels with deep)')

    add('merge_moments', lambda c, o, cx: cirq.merge_moments(c, _merge_disjoint_moments, **kw(o)), {k: BASE[k] for k in ('mixed', 'sub', 'subign', 'nested2')}, 'cirq.merge_moments with "merge when qubit-disjoint": meaning exactly preserved; afterwards no adjacent qubit-disjoint moments remain, at every nesting level with deep=True', exact=True, extra=merged_everywhere)
    add('merge_moments_batch', lambda c, o, cx: cirq.transformers.transformer_primitives.merge_moments_batch(c, _merge_batch, **kw(o)), {k: BASE[k] for k in ('mixed', 'sub', 'subign', 'nested2', 'nested2ign')}, 'merge_moments_batch with "merge the longest qubit-disjoint run": meaning exactly preserved, ignored sub-circuits untouched at every depth', exact=True)
    # found on the unchanged tree: the recursion of merge_moments drops tags_to_ignore
    n_, shape_ = BASE['nested2ign']
    obs.append(
        transformer_ob(
            'finding.merge_moments.deep_ignore_nested',
            shape_,
            n_,
            lambda c, o, cx: cirq.merge_moments(c, _merge_disjoint_moments, **kw(o)),
            [dict(deep=True, tags_to_ignore=(IGN,))],
            exact=True,
            untouched_subs=False,
            desc='merge_moments(deep=True, tags_to_ignore): a CircuitOperation with an ignored tag two nesting levels deep must be left alone',
        )
    )
    add('map_moments.meas', lambda c, o, cx: cirq.map_moments(c, _split_moment_keep_order, **kw(o)), MEAS, 'map_moments with measurement / classical control present', kind='meaning')
    add(
        'merge_operations_to_circuit_op',
        lambda c, o, cx: cirq.merge_operations_to_circuit_op(c, lambda a, b: all(len(x.qubits) <= 2 for x in list(a) + list(b)), **kw(o)),
        BASE,
        'cirq.merge_operations_to_circuit_op(can_merge = all ops act on <= 2 qubits)',
        exact=True,
    )
    add(
        'merge_k_qubit_unitaries_to_circuit_op',
        lambda c, o, cx: cirq.merge_k_qubit_unitaries_to_circuit_op(c, o['k'], **kw(o)),
        BASE,
        'cirq.merge_k_qubit_unitaries_to_circuit_op(k=1,2): components wrapped, order preserved',
        more=({'k': 1}, {'k': 2}),
        exact=True,
    )
    add('merge_operations_to_circuit_op.meas', lambda c, o, cx: cirq.merge_operations_to_circuit_op(c, lambda a, b: True, **kw(o)), MEAS, 'merge_operations_to_circuit_op(can_merge = always) with measurement / classical control present', kind='meaning')
    add('merge_k_qubit_unitaries_to_circuit_op.meas', lambda c, o, cx: cirq.merge_k_qubit_unitaries_to_circuit_op(c, 2, **kw(o)), MEAS, 'same with measurement / classical control present', kind='meaning')
    add('toggle_tags', lambda c, o, cx: cirq.toggle_tags(c, [IGN, 'x'], deep=o['deep']), {k: BASE[k] for k in ('ign', 'sub')}, 'cirq.toggle_tags: meaning exactly preserved; tags are the symmetric difference', exact=True, check_ignored=False, extra=_toggle_extra)

    # unroll_circuit_op*: tagged and untagged nested circuit operations
    MT = cirq.transformers.transformer_primitives.MAPPED_CIRCUIT_OP_TAG
    UN = {
        'tagged': (2, [[('X', [0])], [('SUB', [0, 1], _sub([[('Z', [0])], [('CZ', [0, 1])], [('X', [0])]], tags=(MT,))), ], [('Y', [1])]]),
        'two': (3, [[('SUB', [0, 1], _sub([[('X', [0])], [('CZ', [0, 1])]], tags=(MT,))), ('SUB', [2], _sub([[('Y', [2])], [('Z', [2])]]))], [('CZ', [1, 2])]]),
        'nested': (2, [[('SUB', [0, 1], _sub([[('X', [0])], [('SUB', [0, 1], _sub([[('CZ', [0, 1])], [('Y', [1])]], tags=(MT,)))]], tags=(MT,)))], [('X', [1])]]),
        'reps': (1, [[('X', [0])], [('SUB', [0], _sub([[('Z', [0])], [('X', [0])]], tags=(MT,), reps=2))]]),
        'outer_untagged': (2, [[('SUB', [0, 1], _sub([[('X', [0])], [('SUB', [0, 1], _sub([[('CZ', [0, 1])], [('Y', [1])]], tags=(MT,)))], [('Z', [0])]]))], [('X', [1])]]),
    }
    for uname, U in (('unroll_circuit_op', cirq.unroll_circuit_op), ('unroll_circuit_op_greedy_earliest', cirq.unroll_circuit_op_greedy_earliest), ('unroll_circuit_op_greedy_frontier', cirq.unroll_circuit_op_greedy_frontier)):
        for sname, (n, shape) in UN.items():
            options = [dict(deep=d, tags_to_check=t) for d in (False, True) for t in ((MT,), None)]

            def extra(cx, B, out, opt, lab):
                match = lambda op: isinstance(op.untagged, cirq.CircuitOperation) and (opt['tags_to_check'] is None or MT in op.tags)
                if opt['deep']:
                    cx.check(not [op for op in all_ops_deep(out) if match(op)], label=f'{lab}: every matching CircuitOperation (any depth) is unrolled')
                else:
                    tops = [op for op in B.circuit.all_operations() if match(op)]
                    cx.check(not any(o.untagged is t.untagged for o in out.all_operations() for t in tops), label=f'{lab}: every matching top-level CircuitOperation is unrolled')

            obs.append(transformer_ob(f'{uname}.{sname}', shape, n, lambda c, o, cx, U=U: U(c, deep=o['deep'], tags_to_check=o['tags_to_check']), options, exact=True, untouched_subs=False, extra=extra, desc=f'cirq.{uname}(deep, tags_to_check): meaning exactly preserved, every matching CircuitOperation unrolled'))
    return obs


def _toggle_extra(cx, B, out, opt, lab):
    ins = list(B.circuit.all_operations())
    outs = list(out.all_operations())
    cx.check(len(ins) == len(outs), label=f'{lab}: same number of top-level ops')
    import cirq

    for a, b in zip(ins, outs):
        if opt['deep'] and isinstance(a.untagged, cirq.CircuitOperation):
            continue
        cx.check(set(b.tags) == (set(a.tags) ^ {IGN, 'x'}), label=f'{lab}: tags toggled')


# =================================================================================================
# gauge compiling with a scripted PRNG
# =================================================================================================
class ScriptedPrng:
    """stands for np.random.Generator: every draw is a solver-explored selector (choice) or a
    symbolic / menu value (random); the probability vector the code asked for is recorded"""

    def __init__(self, cx, fixed=(), random_mode='symbolic', menu=(0.0, 0.123, 0.5, 0.77)):
        self.cx = cx
        self.fixed = list(fixed)
        self.n = 0
        self.nr = 0
        self.random_mode = random_mode
        self.menu = menu
        self.draws = []

    def _next(self, n):
        i = self.n
        self.n += 1
        if i < len(self.fixed):
            v = self.fixed[i] % n
        else:
            v = self.cx.choose(f'prng{i}', n)
        self.draws.append(v)
        return v

    def choice(self, a, size=None, replace=True, p=None):
        if isinstance(a, (int, np.integer)):
            items, n = None, int(a)
        else:
            items = list(a)
            n = len(items)
        cand = list(range(n))
        if p is not None:
            p = np.asarray(p, dtype=float)
            self.cx.check(bool(abs(float(p.sum()) - 1.0) < 1e-9 and len(p) == n), label='prng.choice: probability vector sums to 1')
            cand = [i for i in range(n) if p[i] > 0]
        k = 1 if size is None else int(np.prod(size))
        outs = []
        for _ in range(k):
            idx = cand[self._next(len(cand))]
            outs.append(idx if items is None else items[idx])
        if size is None:
            return outs[0]
        arr = np.empty(k, dtype=object)
        for i, v in enumerate(outs):
            arr[i] = v
        return arr

    def random(self):
        i = self.nr
        self.nr += 1
        mode = self.random_mode(self) if callable(self.random_mode) else self.random_mode
        if mode == 'symbolic':
            return self.cx.real(f'rnd{i}', 0.0, 1.0)
        return self.menu[self.cx.choose(f'rndmenu{i}', len(self.menu))]


def fam_gauge(thorough):
    import cirq
    from cirq.transformers import gauge_compiling as GC

    obs = []

    def gauge_ob(name, T, shape, n, desc, options=None, random_mode='symbolic', weight=3):
        options = options or opts_for(shape, deep=False)

        def run(c, o, cx):
            return T(c, context=mk_context(o), prng=ScriptedPrng(cx, random_mode=random_mode))

        obs.append(transformer_ob(name, shape, n, run, options, desc=desc, weight=weight))

    gauge_ob('gauge.cz', GC.CZGaugeTransformer, [[('X', [0]), ('PhX', [1])], [('CZ1', [0, 1])], [('Y', [0])]], 2, 'CZGaugeTransformer: all 16 gauges under a scripted PRNG between symbolic single-qubit gates')
    gauge_ob('gauge.cz_ign', GC.CZGaugeTransformer, [[('X', [0])], [('CZ1', [0, 1])], [('CZ1', [0, 1], T_IGN)], [('Y', [1])]], 2, 'CZGaugeTransformer: ignored CZ untouched', options=ctx_options((False,), ((), (IGN,))))
    gauge_ob('gauge.cz_3q', GC.CZGaugeTransformer, [[('CZ1', [0, 1]), ('X', [2])], [('CZ1', [1, 2])]], 3, 'CZGaugeTransformer: two targets in consecutive moments (pre/post moments interleave)', weight=6)
    gauge_ob('gauge.sqrt_cz', GC.SqrtCZGaugeTransformer, [[('X', [0]), ('Y', [1])], [('SQCZ', [0, 1])], [('SQCZi', [0, 1])], [('X', [1])]], 2, 'SqrtCZGaugeTransformer: CZ**0.5 and CZ**-0.5, all PRNG outcomes (identity / X-conjugated with S correction, swapped qubits)')
    gauge_ob('gauge.cphase', GC.CPhaseGaugeTransformer, [[('X', [0]), ('Y', [1])], [('CZ', [0, 1])], [('X', [0])]], 2, 'CPhaseGaugeTransformer: CZ**t with SYMBOLIC t, all 16 Pauli pairs (negated exponent, Z**t / Z**(1+t) corrections, phased X / PhasedXZ posts)')
    gauge_ob('gauge.spin_inversion', GC.SpinInversionGaugeTransformer, [[('X', [0]), ('Y', [1])], [('ZZ', [0, 1])], [('X', [1])]], 2, 'SpinInversionGaugeTransformer: ZZ**t with symbolic t')
    import cirq_google

    gauge_ob('gauge.syc', cirq_google.transformers.SYCGaugeTransformer, [[('X', [0]), ('Y', [1])], [('SYC', [0, 1])], [('PhX', [1])]], 2, 'cirq_google SYCGaugeTransformer: all 8 gauges (documented SYC = FSim(pi/2, pi/6))')
    if thorough:
        gauge_ob('gauge.T_cphase_3q', GC.CPhaseGaugeTransformer, [[('X', [0])], [('CZ', [0, 1])], [('CZ', [1, 2])], [('Y', [2])]], 3, 'CPhaseGaugeTransformer: two symbolic CZ**t targets in consecutive moments, 16 x 16 Pauli pairs', weight=10)
        gauge_ob('gauge.T_cz_chain', GC.CZGaugeTransformer, [[('PhX', [0]), ('X', [1])], [('CZ1', [0, 1])], [('H', [0]), ('Y', [1])], [('CZ1', [1, 0])]], 2, 'CZGaugeTransformer: two targets with symbolic gates between them', weight=10)
    # ISWAP / SQRT_ISWAP: the Rz gauge takes a SYMBOLIC angle from prng.random(); the XY gauge
    # re-synthesises a matrix through np.angle and can only take concrete angles (menu)
    mode = lambda prng: 'symbolic' if prng.draws and prng.draws[0] == 0 else 'menu'
    gauge_ob('gauge.iswap', GC.ISWAPGaugeTransformer, [[('X', [0]), ('Y', [1])], [('ISWAP1', [0, 1])], [('X', [0])]], 2, 'ISWAPGaugeTransformer: Rz gauge with symbolic angle and both signs; XY gauge with angles from a 4-value menu (np.angle re-synthesis)', random_mode=mode, weight=6)
    gauge_ob('gauge.sqrt_iswap', GC.SqrtISWAPGaugeTransformer, [[('X', [0]), ('Y', [1])], [('SQISWAP', [0, 1])], [('X', [0])]], 2, 'SqrtISWAPGaugeTransformer: Rz gauge with symbolic angle; XY gauge with menu angles', random_mode=mode, weight=4)

    # as_sweep: parameterised circuit + sweep, resolved back at every sweep point
    def sweep_ob(name, T, shape, n, N, fixed_first, desc):
        def body(cx, wrong=False):
            if wrong:
                twin_budget(cx)
            qs = cirq.LineQubit.range(n)
            B = build(cx, shape, qs, pin_after=2 if wrong else None)
            snap = snapshot(B.circuit)
            pc, sweep = T.as_sweep(B.circuit, N=N, prng=ScriptedPrng(cx, fixed=[0] * fixed_first))
            check_unchanged(cx, B.circuit, snap, name)
            pts = list(sweep)
            cx.check(len(pts) == N, label=f'{name}: sweep has N points')
            for k, res in enumerate(pts):
                out = cirq.resolve_parameters(pc, res)
                same_unitary(cx, B, out, qs, f'{name}[point{k}]', wrong=wrong)

        obs.append(Obligation(name, body, twin=lambda cx, b=body: b(cx, wrong=True), points=[{}], opts={'weight': 6}, desc=desc))

    sweep_ob('gauge.cz.as_sweep', GC.CZGaugeTransformer, [[('X', [0]), ('PhX', [1])], [('CZ1', [0, 1])], [('Y', [0])]], 2, 1, 1, 'CZGaugeTransformer.as_sweep(N=1): the parameterised circuit resolved at the sweep point has the unitary of the input up to phase, for each of the 16 scripted gauges')
    if thorough:
        sweep_ob('gauge.T_cz.as_sweep2', GC.CZGaugeTransformer, [[('X', [0]), ('PhX', [1])], [('CZ1', [0, 1])], [('Y', [0])]], 2, 2, 1, 'CZGaugeTransformer.as_sweep(N=2): 16 x 16 scripted gauge pairs, both sweep points')
        sweep_ob('gauge.T_sqrt_cz.as_sweep', GC.SqrtCZGaugeTransformer, [[('X', [0])], [('SQCZ', [0, 1])], [('Y', [1])]], 2, 1, 2, 'SqrtCZGaugeTransformer.as_sweep(N=1) (CZ**symbol two-qubit-gate symbolizer), every scripted outcome')
    sweep_ob('gauge.spin_inversion.as_sweep', GC.SpinInversionGaugeTransformer, [[('X', [0])], [('ZZ', [0, 1])], [('Y', [1])]], 2, 2, 1, 'SpinInversionGaugeTransformer.as_sweep(N=2): both sweep points, every scripted outcome')
    return obs


# =================================================================================================
# multi-moment gauge transformers (CPhaseGaugeTransformerMM) next to operations WITHOUT a gate
# =================================================================================================
class ScriptedGenerator(np.random.Generator):
    """the multi-moment gauge transformers insist on a np.random.Generator instance: a subclass whose
    draws are those of ScriptedPrng (every choice a solver-explored selector)"""

    def __new__(cls, *a, **k):
        return super().__new__(cls, np.random.PCG64(0))

    def __init__(self, cx, **kw):
        self._s = ScriptedPrng(cx, **kw)

    def choice(self, *a, **k):
        return self._s.choice(*a, **k)

    def random(self, *a, **k):
        return self._s.random()


def fam_gauge_mm(thorough):
    import cirq
    from cirq.transformers.gauge_compiling.multi_moment_cphase_gauge import CPhaseGaugeTransformerMM

    SUBX = ('SUB', [2], _sub([[('X', [2])]]))
    S = {
        # a CircuitOperation (no gate) next to a target CZ**t: the moment must be left alone, the next one is gauged
        'sub_next_cz': (3, [[('CZ', [0, 1]), SUBX], [('CZ', [1, 2])]], 'unitary'),
        'cz_sub_z': (2, [[('CZ', [0, 1])], [('SUB', [0, 1], _sub([[('X', [0])], [('CZ', [0, 1])]]))], [('Z', [0])]], 'unitary'),
        'sub_then_block3': (3, [[('CZ', [0, 1]), SUBX], [('Z', [0]), ('CZ', [1, 2])]], 'unitary'),
        'sub2q_only_target': (2, [[('X', [0])], [('CZ', [0, 1])], [('SUB', [0, 1], _sub([[('CZ', [0, 1])]]))]], 'unitary'),
        # healthy multi-moment blocks: CZ**t, Pauli, Z**t in consecutive target moments
        'block_cz_z_pauli': (3, [[('CZ', [0, 1]), ('X1', [2])], [('Z', [0]), ('CZ', [1, 2])]], 'unitary'),
        'block_same_pair': (2, [[('X', [0])], [('CZ', [0, 1])], [('CZ', [0, 1])], [('Y', [1])]], 'unitary'),
        # unsupported gate / ignored tag in the moment
        'unsupported_h': (3, [[('CZ', [0, 1]), ('H', [2])], [('CZ', [1, 2])]], 'unitary'),
        'ign_cz': (2, [[('CZ', [0, 1], T_IGN)], [('CZ', [0, 1])]], 'unitary'),
        # a classically controlled operation has no gate either
        'ctrl_next_cz': (3, [[('M', [2], {'key': 'a'})], [('CZ', [0, 1]), ('X1', [2], {'ctrl': 'a'})], [('CZ', [0, 1])]], 'meaning'),
    }
    # blocks with three active qubits: 64 gauges; in the quick tier the first draw is fixed (X)
    FIX_FIRST = () if thorough else ('sub_then_block3', 'block_cz_z_pauli')
    if thorough:
        S['T_block3'] = (3, [[('CZ', [0, 1]), ('Z', [2])], [('Y1', [0]), ('CZ', [1, 2])], [('CZ', [0, 2])], [('CZ', [0, 1]), SUBX]], 'unitary')

    def gateless(circ):
        return [op for op in circ.all_operations() if op.gate is None]

    def extra(cx, B, out, opt, lab):
        for k, op in enumerate(gateless(B.circuit)):
            cx.check(any(o is op for o in out.all_operations()), label=f'{lab}: operation without a gate #{k} is still there (identical object)')
        n_cz = lambda c: sum(1 for op in c.all_operations() if isinstance(op.gate, cirq.CZPowGate))
        cx.check(n_cz(out) == n_cz(B.circuit), label=f'{lab}: same number of CZ powers')

    obs = []
    for sname, (n, shape, kind) in S.items():
        obs.append(
            transformer_ob(
                f'gauge_mm.cphase.{sname}',
                shape,
                n,
                lambda c, o, cx, fx=([1] if sname in FIX_FIRST else []): CPhaseGaugeTransformerMM()(c, context=mk_context(o), rng_or_seed=ScriptedGenerator(cx, fixed=fx)),
                opts_for(shape, deep=False),
                kind=kind,
                extra=extra,
                weight=6,
                desc='CPhaseGaugeTransformerMM (multi-moment gauge compiling) with SYMBOLIC CZ**t / Z**t and every scripted Pauli choice of the left moment: moments that hold an operation without a gate (CircuitOperation, classically controlled operation), an unsupported gate or an ignored tag are left alone and no operation disappears; out*in^dagger = g*I (per-record super-operators with classical control)',
            )
        )
    return obs


# =================================================================================================
# add_dynamical_decoupling: pending pulses pulled through chains of two-qubit Clifford gates
# =================================================================================================
NONCLIFF = {'box': (0.01, 0.49)}  # Z**t / X**t / CZ**t with t in this box has no stabilizer effect for ANY value


def dd_schemas():
    import cirq

    return [('XX_PAIR', 'XX_PAIR'), ('X_XINV', 'X_XINV'), ('YY_PAIR', 'YY_PAIR'), ('Y_YINV', 'Y_YINV'), ('DEFAULT', 'DEFAULT'), ('custom_YZX', (cirq.Y, cirq.Z, cirq.X))]


def fam_dd(thorough):
    """Solver-driven bounded exploration over circuit SHAPES (finite selectors) with SYMBOLIC wall gates.

    layout on qubits r=0, p=1, q=2 (one moment per line):
        head    single-qubit Cliffords on every qubit (opens the busy range of each qubit)
        idle    one single-qubit Clifford on a selected qubit / nothing (the other qubits are insertable)
        chain   two (thorough: up to three) two-qubit Clifford gates in ADJACENT moments, each from
                {CNOT(a,b), CNOT(b,a), CZ(a,b)}: (r,p) then (p,q) [then (r,p) / (r,q)]
        wall    non-Clifford gates with symbolic exponent in (0.01, 0.49) (Z**t, X**t, CZ**t), concrete T,
                or a measurement, on selected qubits
        tail    single-qubit Cliffords on every qubit, optionally one more idle moment before
    for every schema (5 names + a custom Y,Z,X sequence) and single_qubit_gate_moments_only on / off"""
    import cirq

    H0 = [('H1', [0]), ('S', [1]), ('H1', [2])]
    TAIL = [('H1', [0]), ('H1', [1]), ('S', [2])]
    IDLE = [[('H1', [0])], [('S', [1])], [('X1', [2])], []]
    G1 = [('CNOT', [0, 1]), ('CNOT', [1, 0]), ('CZ1', [0, 1])]
    G2 = [('CNOT', [1, 2]), ('CNOT', [2, 1]), ('CZ1', [1, 2])]
    G3 = [None, ('CNOT', [0, 1]), ('CZ1', [0, 2]), ('CNOT', [2, 0])]
    WALL_U = [
        [('Z', [2], NONCLIFF)],
        [('X', [1], NONCLIFF)],
        [('Z', [0], NONCLIFF), ('H1', [2])],
        [('CZ', [1, 2], NONCLIFF)],
        [('T', [2]), ('Z', [0], NONCLIFF)],
    ]
    WALL_M = [[('M', [2], {'key': 'a'})], [('M', [1], {'key': 'a'}), ('Z', [2], NONCLIFF)], [('M', [0, 2], {'key': 'a'})]]
    schemas = dd_schemas()

    def shape_of(cx, walls, with_g3):
        wall = walls[cx.choose('wall', len(walls))]
        # the measurement wall next to a symbolic gate is costly (3-qubit super-operators with symbolic entries):
        # in the quick tier it is combined with the first idle pattern only
        heavy = (not thorough) and any(it[0] == 'M' for it in wall) and any(len(it) > 2 and 'box' in it[2] for it in wall)
        idle = IDLE[0] if heavy else IDLE[cx.choose('idle', len(IDLE))]
        g1 = G1[cx.choose('g1', len(G1))]
        g2 = G2[cx.choose('g2', len(G2))]
        g3 = G3[cx.choose('g3', len(G3))] if with_g3 else None
        gap = cx.choose('gap', 2) if with_g3 else 0
        return [H0, idle, [g1], [g2]] + ([[g3]] if g3 else []) + [wall] + ([[]] if gap else []) + [TAIL]

    def mk(name, schema, walls, kind, with_g3, weight):
        def body(cx, wrong=False):
            if wrong:
                twin_budget(cx)
            qs = cirq.LineQubit.range(3)
            sq = bool(cx.choose('sq_only', 2))
            B = build(cx, shape_of(cx, walls, with_g3), qs, pin_after=1 if wrong else None)
            snap = snapshot(B.circuit)
            out = cirq.add_dynamical_decoupling(B.circuit, schema=schema, single_qubit_gate_moments_only=sq)
            lab = f'{name}[sq_only={sq}]'
            check_unchanged(cx, B.circuit, snap, lab)
            # "This transformer preserves the structure of the original circuit": same number of moments, every
            # original two-qubit / non-Clifford / measurement operation still in its moment
            cx.check(len(out.moments) == len(B.circuit.moments), label=f'{lab}: number of moments preserved')
            walls_ = {id(op) for op in B.boxed}
            for i, m in enumerate(B.circuit.moments):
                for op in m.operations:
                    if len(op.qubits) > 1 or cirq.is_measurement(op) or id(op) in walls_:
                        cx.check(any(o is op for o in out.moments[i].operations), label=f'{lab}: multi-qubit / wall operation stays (identical object) in its moment')
            if kind == 'unitary':
                same_unitary(cx, B, out, qs, lab, wrong=wrong)
            else:
                same_meaning(cx, B, out, qs, lab, wrong=wrong, prefilter=True)

        return Obligation(
            name,
            body,
            twin=lambda cx: body(cx, wrong=True),
            opts={'weight': weight},
            desc='cirq.add_dynamical_decoupling: decoupling pulses inserted in idle slots and pulled through chains of two-qubit Clifford gates in adjacent moments until they meet a wall (non-Clifford gate with SYMBOLIC exponent / measurement): out*in^dagger = g*I for every exponent in the box (per-record super-operators for measurement walls); circuit structure preserved. Shapes, schema and single_qubit_gate_moments_only are finite selectors (bounded exploration).',
        )

    obs = []
    for sname, schema in schemas:
        obs.append(mk(f'dynamical_decoupling.chain.{sname}', schema, WALL_U, 'unitary', thorough, 8))
    for sname, schema in schemas if thorough else (schemas[0], schemas[4]):
        obs.append(mk(f'dynamical_decoupling.chain_meas.{sname}', schema, WALL_M, 'meaning', False, 8))
    return obs


# =================================================================================================
# merge_single_qubit_gates_to_phxz_symbolized: symbols SHARED between single-qubit and two-qubit gates
# =================================================================================================
def fam_symbolized_merge(thorough):
    """BOUNDED EXPLORATION, labelled as such: the pass re-synthesises single-qubit matrices numerically
    (single_qubit_matrix_to_phxz: np.angle / arctan2), so the values of every symbol that occurs in a
    single-qubit gate are solver-CHOSEN from a small lattice (every combination is a path) and flow through
    the real code as floats.  Genuinely symbolic: the sweep values of a symbol `w` that only occurs in a
    two-qubit gate (one fresh real per sweep point, carried through the returned sweep into the resolved
    output).  Input side: the harness resolves the expressions itself and uses the documented matrices."""
    import cirq
    import sympy

    LAT = (0.25, -0.5, 1.0, 0.0)
    P0 = ((0.25, -0.5), (0.0, 1.0))
    # shape: list of moments of (gate, qubits, exponent expression over s, t, w | None for the concrete menu gates)
    S = {
        'x_cz_shared': (['s', 't'], [[('X', [0], 's')], [('CZ', [0, 1], 's')], [('Y', [0], 't')]]),
        'sum_in_1q': (['s', 't'], [[('X', [0], 's + t')], [('CZ', [0, 1], 's')], [('Y', [1], 't'), ('H1', [0], None)]]),
        'sum_in_2q': (['s', 't'], [[('X', [0], 's'), ('X', [1], 't')], [('CZ', [0, 1], 's + t')], [('Z', [0], 's')]]),
        'unshared_w': (['s', 't', 'w'], [[('X', [0], 's')], [('CZ', [0, 1], 'w')], [('Y', [0], 't')], [('X1', [0], None)]]),
        'shared_and_w': (['s', 't', 'w'], [[('X', [0], 's')], [('ZZ', [0, 1], 's')], [('CZ', [0, 1], 'w')], [('Y', [1], 's + t')]]),
        'two_2q_shared': (['s', 't'], [[('Y', [0], 's')], [('CZ', [0, 1], 's')], [('X', [1], 't')], [('ISWAP', [0, 1], 't')], [('X', [0], 's')]]),
    }
    G = gate_table()
    obs = []
    for sname, (syms, shape) in S.items():

        def body(cx, wrong=False, syms=syms, shape=shape, sname=sname):
            if wrong:
                twin_budget(cx)
            qs = cirq.LineQubit.range(2)
            S_ = {n: sympy.Symbol(n) for n in syms}
            # sweep points: s, t lattice-chosen, w symbolic
            i0 = cx.choose('point0', len(P0))
            pts = [dict(s=P0[i0][0], t=P0[i0][1]), dict(s=LAT[cx.choose('s1', len(LAT))], t=LAT[cx.choose('t1', len(LAT))])]
            if 'w' in syms:
                for k, pt in enumerate(pts):
                    pt['w'] = (0.3, 0.7)[k] if wrong else cx.real(f'w{k}', -BOX, BOX)
            # parameterised circuit (sympy) for the pass
            moments = []
            for mspec in shape:
                ops = []
                for name, qi, expr in mspec:
                    npar, mk, _doc = G[name]
                    ops.append((mk(sympy.parse_expr(expr, local_dict=S_)) if npar else mk()).on(*[qs[i] for i in qi]))
                moments.append(cirq.Moment(ops))
            circuit = cirq.Circuit(moments)
            snap = snapshot(circuit)
            sweep = cirq.ListSweep([cirq.ParamResolver({S_[n]: pt[n] for n in syms}) for pt in pts])
            new_circuit, new_sweep = cirq.merge_single_qubit_gates_to_phxz_symbolized(circuit, sweep=sweep)
            lab = f'merge_1q_symbolized.{sname}'
            check_unchanged(cx, circuit, snap, lab)
            out_pts = list(new_sweep)
            cx.check(len(out_pts) == len(pts), label=f'{lab}: the returned sweep has as many points as the input sweep')
            cx.check(cirq.parameter_names(new_circuit) <= set().union(*[set(map(str, r.param_dict)) for r in out_pts]), label=f'{lab}: every symbol of the returned circuit is assigned by the returned sweep')
            for k, (pt, res) in enumerate(zip(pts, out_pts)):
                # input resolved by the harness: plain Python evaluation of the expression, documented matrices
                B = Built()
                rmoments = []
                for mspec in shape:
                    ops = []
                    for name, qi, expr in mspec:
                        npar, mk, doc = G[name]
                        args = [eval(expr, {'__builtins__': {}}, dict(pt))] if npar else []
                        op = mk(*args).on(*[qs[i] for i in qi])
                        B.doc[id(op)] = np.asarray(doc(*args))
                        B.keep.append(op)
                        ops.append(op)
                    rmoments.append(cirq.Moment(ops))
                B.circuit = cirq.Circuit(rmoments)
                out = cirq.resolve_parameters(new_circuit, res)
                cx.check(not cirq.is_parameterized(out), label=f'{lab}[point{k}]: fully resolved by the returned sweep point')
                same_unitary(cx, B, out, qs, f'{lab}[point{k}]', wrong=wrong)

        obs.append(
            Obligation(
                f'merge_1q_symbolized.{sname}',
                body,
                twin=lambda cx, b=body: b(cx, wrong=True),
                points=[{'choose:point0': 0, 'choose:s1': 1, 'choose:t1': 2}, {'choose:point0': 1, 'choose:s1': 0, 'choose:t1': 3}, {'choose:point0': 0, 'choose:s1': 3, 'choose:t1': 3}],
                opts={'weight': 4},
                desc='cirq.merge_single_qubit_gates_to_phxz_symbolized with symbols shared between single-qubit and two-qubit gates and expressions s + t: for both sweep points the returned circuit resolved with the returned sweep point equals the input resolved with the input sweep point up to global phase. BOUNDED EXPLORATION: s, t take solver-chosen lattice values (numeric re-synthesis inside); only the sweep values of the two-qubit-only symbol w are symbolic reals.',
            )
        )
    return obs


# =================================================================================================
# symbolize (resolved back) and the @transformer decorator
# =================================================================================================
def fam_symbolize(thorough):
    import cirq
    import sympy

    S = {
        'flat': (2, [[('PhXZ_za', [0], {'tags': ('phxz_0',)}), ('X', [1])], [('CZ', [0, 1])], [('PhXZ_za', [0], {'tags': ('phxz_1', 'keep')})]]),
        'sub': (2, [[('PhXZ_za', [0], {'tags': ('phxz_0',)})], [('SUB', [0, 1], _sub([[('PhXZ_za', [1], {'tags': ('phxz_1',)})], [('CZ', [0, 1])]]))]]),
        'ign': (1, [[('PhXZ_za', [0], {'tags': ('phxz_0', IGN)})], [('PhXZ_za', [0], {'tags': ('phxz_1',)})]]),
    }
    obs = []
    for sname, (n, shape) in S.items():

        def run(c, o, cx, shape=shape):
            out = cirq.symbolize_single_qubit_gates_by_indexed_tags(c, context=mk_context(o), symbolize_tag=cirq.transformers.SymbolizeTag(prefix='phxz'))
            # resolve back: symbol x<i>, z<i>, a<i> := the exponents of the op that carried tag phxz_<i>
            vals = {}
            for op in all_ops_deep(c):
                for t in op.tags:
                    if isinstance(t, str) and t.startswith('phxz_') and not (set(op.tags) & set(o['tags_to_ignore'])):
                        i = int(t.split('_')[1])
                        g = op.gate
                        vals[f'x{i}'], vals[f'z{i}'], vals[f'a{i}'] = g.x_exponent, g.z_exponent, g.axis_phase_exponent
            names = cirq.parameter_names(out)
            deep_seen = o['deep'] or not any(it[0] == 'SUB' for m in shape for it in m)
            cx.check(names == ({k for k in vals} if deep_seen else {k for k in vals if k[1:] == '0'}), label=f'symbolize.{sname}: exactly the tagged (reachable, not ignored) gates are symbolised')
            return cirq.resolve_parameters(out, {k: v for k, v in vals.items() if k in names})

        obs.append(transformer_ob(f'symbolize.{sname}', shape, n, run, opts_for(shape), untouched_subs=False, check_ignored=False, desc='cirq.symbolize_single_qubit_gates_by_indexed_tags then resolved back with the original (symbolic) exponents: same unitary; exactly the tagged, reachable, non-ignored gates are symbolised'))
    return obs


def fam_decorator(thorough):
    import cirq

    @cirq.transformer(add_deep_support=True)
    def halves_deep(circuit, *, context=None, power=0.5):
        ign = set(context.tags_to_ignore) if context else set()
        return cirq.map_operations_and_unroll(circuit, lambda op, i: op if (ign & set(op.tags)) else _halves(op), tags_to_ignore=())

    @cirq.transformer
    def halves_plain(circuit, *, context=None):
        return cirq.map_operations_and_unroll(circuit, _halves, tags_to_ignore=context.tags_to_ignore if context else ())

    @cirq.transformer(add_deep_support=True)
    class HalvesCls:
        def __call__(self, circuit, *, context=None):
            return cirq.map_operations_and_unroll(circuit, _halves, tags_to_ignore=context.tags_to_ignore if context else ())

    S = {
        'sub': (2, [[('X', [0])], [('SUB', [0, 1], _sub([[('Z', [0])], [('SUB', [1], _sub([[('X', [1])], [('Y', [1])]]))], [('CZ', [0, 1])]]))], [('Y', [1])]]),
        'subign': (2, [[('X', [0], T_IGN)], [('SUB', [0, 1], _sub([[('Z', [0])], [('CZ', [0, 1])]], tags=(IGN,)))], [('SUB', [1], _sub([[('Y', [1])], [('X', [1], T_IGN)]]))]]),
        'nested2ign': (2, [[('X', [0])], [('SUB', [0, 1], _sub([[('Z', [0])], [('SUB', [0, 1], _sub([[('Y', [0])], [('CZ', [0, 1])]], tags=(IGN,)))]]))]]),
    }
    obs = []
    for sname, (n, shape) in S.items():
        for tname, T, deep_supported in (('func_deep', halves_deep, True), ('func_plain', halves_plain, False), ('class_deep', HalvesCls(), True)):

            def run(c, o, cx, T=T, tname=tname):
                logger = cirq.TransformerLogger()
                ctxt = cirq.TransformerContext(logger=logger, deep=o['deep'], tags_to_ignore=tuple(o['tags_to_ignore']))
                out = T(c, context=ctxt)
                cx.check(len(logger._logs) == 1 and logger._logs[0].initial_circuit is c and logger._logs[0].final_circuit is out and not logger._stack, label=f'decorator.{tname}: logger got register_initial(argument) / register_final(result) exactly once')
                return out

            def extra(cx, B, out, opt, lab, deep_supported=deep_supported):
                # how many EigenGate ops must have been split: top level always; nested iff deep was
                # requested AND the decorator adds deep support; never under an ignored CircuitOperation
                ign = set(opt['tags_to_ignore'])

                def count_top(circ):
                    k = 0
                    for op in circ.all_operations():
                        if ign & set(op.tags) or isinstance(op.untagged, cirq.CircuitOperation):
                            if isinstance(op.untagged, cirq.CircuitOperation) and not (ign & set(op.tags)) and opt['deep'] and deep_supported:
                                k += count_top(op.untagged.circuit)
                            else:
                                k += len(CS.flat_ops(cirq.Circuit(op)))
                        else:
                            k += 2 if isinstance(op.gate, cirq.EigenGate) else 1
                    return k

                cx.check(len(CS.flat_ops(out)) == count_top(B.circuit), label=f'{lab}: sub-circuits are rewritten iff deep is requested and supported, never under an ignored tag')

            obs.append(
                transformer_ob(
                    f'decorator.{tname}.{sname}',
                    shape,
                    n,
                    run,
                    ctx_options((False, True), ((), (IGN,)) if 'ign' in sname else ((),)),
                    untouched_subs=(True),
                    extra=extra,
                    desc='@cirq.transformer(add_deep_support) on a function / class / plain function: context handling, recursion into (nested) CircuitOperations only with deep=True and never under ignored tags, logging; meaning preserved',
                )
            )
    return obs


def obligations(tier):
    thorough = tier != 'quick'
    obs = []
    for fam in (fam_eject_z, fam_eject_pp, fam_align, fam_stratify, fam_stratify_readers, fam_drop_empty, fam_insertion_sort, fam_expand, fam_sync, fam_defer, fam_dephase_drop, fam_drop_diagonal, fam_tags, fam_primitives, fam_gauge, fam_gauge_mm, fam_dd, fam_symbolized_merge, fam_symbolize, fam_decorator):
        obs.extend(fam(thorough))
    names = [o.name for o in obs]
    assert len(names) == len(set(names)), [n for n in names if names.count(n) > 1]
    return obs


LEVEL = (
    'Bounded symbolic execution of the real transformer code, SMT-decided: every gate parameter of the input circuit is a fresh symbolic real that '
    'flows through the real pass (phase tracking, commutation rules, placement, merging, deferral, gauge selection under a scripted PRNG); the '
    'meaning of input and output circuit is composed by an independent reference interpreter and z3 decides equality up to global phase '
    '(out*in^dagger = g*I) or, with measurements / classical control, equality of the per-record super-operators, for all parameter values in the '
    'boxes. Circuit SHAPES, options (tags_to_ignore, deep, strategies) and PRNG outcomes are enumerated from stated finite menus. Two families are '
    'solver-driven BOUNDED EXPLORATION and labelled so: add_dynamical_decoupling (discrete Clifford bookkeeping over a shape menu; only the exponents '
    'of the non-Clifford wall gates are symbolic) and merge_single_qubit_gates_to_phxz_symbolized (symbols that reach the numeric re-synthesis take '
    'lattice values; only the sweep values of a two-qubit-only symbol are symbolic).'
)


ASSUMPTIONS = BASE_ASSUMPTIONS + [
    'tolerance slivers: on a path where the code under test decided `|x| <= tol` (abs/isclose with tol <= 1e-6 absolute, <= 1e-4 relative: '
    'is_negligible_turn, canonicalisation tests, _is_integer in eject_z) on its TRUE side, the inputs are restricted to x == 0 exactly '
    '(symx/slivers.py adds the equality to the path condition; with atol=0 it is implied, otherwise it is an assumption): inputs for which a '
    'compared quantity lies strictly inside a tolerance window of the code without hitting the special value are outside the claim '
    '(the encoding has no Lipschitz reasoning for the unit-circle abstraction)',
    'eject_z / eject_phased_paulis are run with atol=0.0 (eject_phased_paulis default is 1e-8)',
    'np.random.Generator is replaced by a scripted generator (for the multi-moment gauge transformers a np.random.Generator subclass with the same scripted draws): every choice(...) outcome with non-zero probability is explored as a selector, '
    'the probability vector must sum to 1; random() is a symbolic real in [0,1] for the Rz gauges and a 4-value menu for the XY gauges',
    'meaning of one operation = cirq.unitary(op) / cirq.kraus(op) of that single operation (tied to the documentation by C03/C04); for the INPUT circuit the '
    'documented closed-form matrices (oracles/gates_doc.py) are used instead; composition, ordering, projection, branching on records, classical '
    'control, ancilla initialisation and tracing are done by oracles/circuit_sem.py; operations of one moment take effect in the order listed',
    'vacuity twins perturb the documented matrix of the first operation of the input circuit by 0.01 in its last entry and replace all but the first two '
    'parameters by generic constants so that the witness search stays cheap',
]


def main(tier, seed=0, replay=None, only=None, procs=None):
    bounds = {
        'parameter_box': [-BOX, BOX],
        'symbolic': 'every continuous parameter of every gate of the input circuit (fresh real per occurrence: exponents, phase exponents, PhasedXZ x/z/a, FSim theta/phi, rx/rz angles); prng.random() of the Rz gauges',
        'enumerated': 'circuit shapes (menus below), options (deep, tags_to_ignore, categories, no_decomp, after_other_operations, tags_to_check, merge / map functions, k, decoupling schema, single_qubit_gate_moments_only, condition indices / bit masks), every PRNG choice, lattice values of the symbols that reach numeric re-synthesis in merge_single_qubit_gates_to_phxz_symbolized',
        'shape_menus': {
            'size': '<= 6 moments, <= 3 qubits (+ ancillas created by defer_measurements), <= 7 symbolic parameters per shape (quick); a few 6-op shapes and full 3-parameter PhasedXZ in thorough',
            'gate_menu': sorted(gate_table_names()),
            'neighbourhoods': 'Z / PhasedXZ(z) in front of (phased) X, CZ, swap-like (SWAP, ISWAP, FSim), CX/H (not phaseable), measurement, ignored op, end of circuit, nested CircuitOperation (plain, repeated, ignored, doubly nested ignored); held W in front of Z, partial W, CZ (single / double cross), another W, unknown gate, ignored op, measurement; gaps / ignored ops / nested circuits for align, stratify, drop_empty; measurement-key neighbourhoods (control after measurement, re-measurement of a key on the same / another qubit behind an op it controls, same key on two qubits, value-equal operations, control listed before a re-measurement in one moment) for every pass that moves or groups operations',
        },
        'per_record_superoperators': 'measurement circuits: <= 2 system qubits (3 for one synchronize shape, the stratify reader shapes r3_*, the dynamical-decoupling measurement walls and one multi-moment gauge shape) + <= 4 ancillas',
        'extension_families': {
            'drop_diagonal_before_measurement.*': 'symbolic: every Z**t / CZ**t / X**t exponent. enumerated: 23 shapes (computational-basis MeasurementGate single / joint / inverted, PauliMeasurementGate X, -Y, Z, XZ on 1-2 qubits, CircuitOperation that rotates and then measures / measures directly, partially measured CZ, chain broken by a later gate, classical control, ignored tag), deep on/off, tags_to_ignore on/off, default context. Meaning of a Pauli-observable measurement: oracles/circuit_sem_ext.py (projectors (I +- O)/2 from the documentation, the decomposition of the gate is not used)',
            'stratified_circuit.readers.*': 'symbolic: every gate exponent. enumerated: 7 shapes (two readers of one key on different qubits in successive moments / one moment, a third reader behind the re-measurement, re-measurement on the first qubit / on a reader qubit, 2 and 3 qubits), 8 category menus (none, MeasurementGate, qubit predicates, ClassicallyControlledOperation type and combinations)',
            'defer_measurements.repeated.*': 'symbolic: every gate exponent. enumerated: 12 shapes with a key measured two / three times (earlier measurement equal to the terminal one with / without invert mask and readers, terminal measurement of a key measured earlier on the same / another qubit, two interleaved keys), KeyCondition index in {0, 1, -1, -2} (twice) / {0, 1, 2, -1, -2, -3} (three times), BitMaskKeyCondition (bitmask 1 == 1, bitmask 2 != 0, no bitmask == 2, defaults) on a two-bit key for every valid index, two readers with different indices. BitMaskKeyCondition semantics: oracles/circuit_sem_ext.py from its docstring',
            'gauge_mm.cphase.*': 'symbolic: CZ**t / Z**t / X**t exponents. enumerated: 9 shapes (CircuitOperation / classically controlled operation next to a target CZ**t, CircuitOperation between target moments, unsupported gate, ignored tag, healthy one- and two-moment blocks on 2-3 active qubits), every Pauli choice of the left moment through a scripted np.random.Generator subclass (first of three draws fixed to X in the quick tier for the two 3-active-qubit shapes)',
            'dynamical_decoupling.chain*': 'SOLVER-DRIVEN BOUNDED EXPLORATION over shapes: head layer, idle pattern (4), two two-qubit Cliffords from {CNOT(a,b), CNOT(b,a), CZ} on (r,p) then (p,q) in adjacent moments (thorough: optional third on (r,p) / (r,q) and an extra empty moment), wall menu (Z**t, X**t, CZ**t with SYMBOLIC t in (0.01, 0.49), T, measurement single / joint / next to Z**t), tail layer; schema in {XX_PAIR, X_XINV, YY_PAIR, Y_YINV, DEFAULT, custom (Y, Z, X)}; single_qubit_gate_moments_only on / off. Symbolic: the wall exponents only (the Clifford bookkeeping is discrete). Measurement walls: quick tier 2 schemas and the symbolic-gate-next-to-measurement wall only with the first idle pattern; constant super-operator entries are decided by evaluation (|a-b| <= 1e-9), the others by the solver',
            'merge_1q_symbolized.*': 'BOUNDED EXPLORATION: symbols s, t occurring in single-qubit gates take lattice values {0.25, -0.5, 1, 0} (point 1: all 16 combinations; point 0: 2 combinations) because the pass re-synthesises single-qubit matrices numerically; symbolic: the two sweep values of a two-qubit-only symbol w. enumerated: 6 shapes (symbol shared by X**s and CZ**s / ZZ**s / ISWAP**t, expressions s + t in a single-qubit and in a two-qubit gate). Input side resolved by the harness with the documented matrices',
        },
        'tolerance': TOL,
        'outside': [
            'merge_single_qubit_gates_to_phased_x_and_z / _to_phxz, merge_single_qubit_moments_to_phxz, merge_k_qubit_unitaries (re-synthesis), drop_negligible_operations, randomized_measurements, optimize_for_target_gateset, routing, noise_adding, qubit_management_transformers, lightcone_filter, idle_moments_gauge: np.angle / LAPACK / trace-distance code that cannot take symbolic parameters (or not in the DESIGN run list)',
            'merge_single_qubit_gates_to_phxz_symbolized beyond the bounded exploration stated under extension_families (symbols of single-qubit gates with values outside the 4-value lattice, more than 2 sweep points, deep=True, tags_to_ignore)',
            'add_dynamical_decoupling: wall gates whose exponent can take Clifford values (the symbolic exponents range over (0.01, 0.49)), symbolic single-qubit Clifford layers (merged numerically through single_qubit_matrix_to_phxz), chains of more than two (thorough: three) two-qubit Clifford gates, more than 3 qubits, two-qubit Cliffords other than CNOT / CZ, context.deep, classically controlled operations',
            'drop_diagonal_before_measurement: measurement confusion maps, qudits, Pauli-observable measurements on more than two qubits; CPhaseGaugeTransformerMM: blocks with more than three active qubits / more than two (thorough: three) target moments, a custom supported_gates set, deep=True (documented ValueError)',
            'XY gauges of ISWAP / SQRT_ISWAP with a symbolic angle (PhasedXZGate.from_matrix -> np.angle); CZ-gauge targets with symbolic exponent (GateFamily uses approximate equality); GaugeTransformer.as_sweep for gauges with symbolic post gates (single_qubit_matrix_to_phxz)',
            'eject_z / eject_phased_paulis with atol > 0, eject_parameterized=True (sympy), PhasedXZ with symbolic z in eject_phased_paulis (np.isclose window)',
            'insertion_sort_transformer on overlapping operations with SYMBOLIC parameters whose commutation is decided numerically (np.allclose on matrices); such pairs are concrete gates in the menu',
            'measurement confusion maps (_ConfusionChannel), qudit measurements (_ModAdd), SympyCondition other than the one menu entry, classically controlled CircuitOperations',
            'order of operations inside ONE moment for merge_operations* (they sort the operations of a moment by qubits)',
            'moment structure of the outputs beyond the documented post-conditions checked (ignored ops of align_left stay in their moment, no empty moments, terminal measurements in the final moment, one category per moment, everything matching unrolled / merged)',
            'float rounding, complex64, parameters outside the box, more than 3 system qubits',
        ],
    }
    rc = run_check(PID, tier, 'checks.C06', SHIMS, LEVEL, ASSUMPTIONS, bounds, seed=seed, replay=replay, only=only, procs=procs)
    if rc == 0 and not replay:
        # guard: every C06 VC is expected to be discharged by the identical-terms / linear-abstraction
        # stages, which do not use the path condition.  The exact stage conjoins the pin-substituted
        # path condition; float residue of such substitutions can make that conjunction unsatisfiable
        # (observed while building this check), so an "exact unsat" is not accepted as a proof here.
        import json
        import os

        try:
            ev = json.load(open(os.path.join(os.path.dirname(os.path.dirname(os.path.abspath(__file__))), 'evidence', f"{PID}{os.environ.get('VERIF_EVIDENCE_SUFFIX', '') or ('.partial' if only else '')}.json")))
            n_exact = ev['coverage']['vcs_by_stage']['exact_unsat']
        except Exception:
            n_exact = 0
        if n_exact:
            print(f'INCONCLUSIVE: {n_exact} VC(s) were only discharged by the exact stage (not accepted for C06, see checks/C06.py main)')
            return 2
    return rc


def gate_table_names():
    return list(gate_table())

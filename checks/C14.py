"""C14: Pauli-string algebra and expectation values match their matrices."""
from __future__ import annotations

import itertools
import math

import numpy as np

from checks.common import BASE_ASSUMPTIONS, CORE_SHIM_MODULES
from oracles import embed as EM
from oracles import gates_doc as D
from oracles import pauli_algebra as PA
from symx.explore import Obligation
from symx.run import run_check

PID = 'C14'

PAULI_MODULES = [
    'cirq.ops.pauli_string',
    'cirq.ops.dense_pauli_string',
    'cirq.ops.linear_combinations',
    'cirq.value.linear_dict',
    'cirq.ops.pauli_string_phasor',
    'cirq.ops.pauli_sum_exponential',
    'cirq.ops.pauli_gates',
]
SHIMS = CORE_SHIM_MODULES + PAULI_MODULES + [
    'cirq.ops.clifford_gate',
    'cirq.protocols.decompose_protocol',
    'cirq.protocols.has_unitary_protocol',
    'cirq.protocols.mul_protocol',
    'cirq.protocols.pow_protocol',
    'cirq.protocols.inverse_protocol',
    'cirq.protocols.act_on_protocol',
    'cirq.protocols.commutes_protocol',
    'cirq.linalg.predicates',
    'cirq.qis.states',
    'cirq.circuits.circuit',
    'cirq.circuits.moment',
    'cirq.circuits.frozen_circuit',
    'cirq.ops.control_values',
    'cirq.sim.sparse_simulator',
    'cirq.sim.simulator_base',
    'cirq.sim.simulator',
    'cirq.sim.state_vector_simulation_state',
    'cirq.sim.simulation_state',
    'cirq.sim.simulation_state_base',
    'cirq.sim.simulation_product_state',
    'cirq.sim.state_vector',
    'cirq.sim.simulation_utils',
    'cirq.sim.state_vector_simulator',
    'cirq.study.resolver',
    'cirq.sim.density_matrix_simulator',
    'cirq.sim.density_matrix_simulation_state',
    'cirq.sim.density_matrix_utils',
]

CBOX = 2.0  # box of real / imaginary parts of symbolic coefficients
TBOX = 4.0  # box of symbolic exponents (half turns) and rotation angles
DECOMP_TOL = 2.5e-5  # Cirq drops global phases that np.isclose(., 1) (rtol 1e-5) when decomposing


def worker_setup():
    from symx.complex_shim import install_complex
    from symx.np_intsym import install_intsym

    from symx.eigvalsh_model import install as install_eigvalsh
    from symx.sparse_model import install_sparse

    return (
        install_eigvalsh()
        + install_complex(PAULI_MODULES)
        + install_intsym(['cirq.ops.dense_pauli_string', 'cirq.ops.pauli_string'])
        + install_sparse(['cirq.ops.pauli_string', 'cirq.ops.linear_combinations'])
    )


# ------------------------------------------------------------------------------------------------
# helpers
# ------------------------------------------------------------------------------------------------
def _gates():
    import cirq

    return [cirq.I, cirq.X, cirq.Y, cirq.Z]


def sym_c(cx, name, box=CBOX):
    """arbitrary complex coefficient re + i*im, both parts symbolic reals in [-box, box]"""
    return cx.real(name + 'r', -box, box) + 1j * cx.real(name + 'i', -box, box)


SUM_DIRS = {'a': 0.6 + 0.8j, 'b': -0.6 - 0.8j, 'c': 1j, 'd': 0.8 - 0.6j}
SUM_DIRS2 = {'a': 1.0, 'b': 1j, 'c': -0.28 + 0.96j, 'd': -1j}


def ray_c(cx, name, dirs=SUM_DIRS, lo=-CBOX):
    """complex coefficient rho * w: SYMBOLIC real rho in [-CBOX, CBOX] times a fixed unit complex direction w.
    Used where the code under test takes abs()/== 0 of coefficients (LinearDict.clean / __setitem__): a fully
    symbolic re + i*im there yields sqrt(re^2 + im^2) atoms in every path condition, which z3 does not decide in
    reasonable time; on a fixed complex line the same tests are linear."""
    return cx.real(name + 'r', lo, CBOX) * dirs[name]


def choose_letters(cx, name, n, nonidentity=False):
    """finite selector over the 4**n (or 3**n) Pauli letter tuples"""
    if nonidentity:
        v = cx.choose(name, 3**n)
        return tuple((v // 3**k) % 3 + 1 for k in reversed(range(n)))
    v = cx.choose(name, 4**n)
    return tuple((v // 4**k) % 4 for k in reversed(range(n)))


def mk_ps(qs, letters, coeff=1):
    """PauliString through qubit_pauli_map (no multiplication code involved)"""
    import cirq

    G = _gates()
    return cirq.PauliString(qubit_pauli_map={q: G[l] for q, l in zip(qs, letters) if l}, coefficient=coeff)


def mk_dps(letters, coeff=1, mutable=False):
    import cirq

    cls = cirq.MutableDensePauliString if mutable else cirq.DensePauliString
    return cls(list(letters), coefficient=coeff)


def letters_of(ps, qs):
    G = _gates()
    return tuple(G.index(ps.get(q)) if ps.get(q) is not None else 0 for q in qs)


def ps_matrix(ps, qs):
    """matrix of a cirq (Mutable)PauliString read off its public fields (letters + coefficient) by
    the harness: coefficient * kron of the 2x2 Paulis"""
    assert set(ps.keys()) <= set(qs), (list(ps.keys()), qs)
    return PA.string_matrix(letters_of(ps, qs), ps.coefficient)


def dps_matrix(d, n=None):
    """matrix of a cirq dense Pauli string read off pauli_mask + coefficient, padded with I to n"""
    letters = [int(v) for v in d.pauli_mask]
    if n is not None:
        letters = letters + [0] * (n - len(letters))
    return PA.string_matrix(letters, d.coefficient)


def sum_matrix(psum, qs):
    """matrix of a cirq.PauliSum: sum of the matrices of the terms it iterates over"""
    tot = np.zeros((2 ** len(qs),) * 2, dtype=complex)
    for term in psum:
        tot = PA.add(tot, ps_matrix(term, qs))
    return tot


def wrong(M):
    from checks.common import perturb

    return perturb(M)


def unitary_via_decompose(op, qs):
    """ordered product of the documented-by-C03 matrices of the operations op decomposes into"""
    import cirq

    ops = cirq.decompose_once(op)
    steps = []
    for o in cirq.flatten_to_ops(ops):
        steps.append((cirq.unitary(o), [qs.index(q) for q in o.qubits]))
    return PA.ordered_product(steps, len(qs))


def sym_hermitian(cx, N, prefix='R'):
    """arbitrary Hermitian matrix: real symbolic diagonal, symbolic complex upper triangle"""
    out = np.empty((N, N), dtype=complex if cx.mode == 'concrete' else object)
    for i in range(N):
        out[i, i] = cx.real(f'{prefix}{i}_{i}', -1, 1) + 0j
        for j in range(i + 1, N):
            z = cx.real(f'{prefix}{i}_{j}r', -1, 1) + 1j * cx.real(f'{prefix}{i}_{j}i', -1, 1)
            out[i, j] = z
            out[j, i] = z.conjugate()
    if cx.mode != 'concrete':
        from symx.proxy import SymArray

        return out.view(SymArray)
    return out


def pts(n, **kw):
    base = {'ar': 0.5, 'ai': -1.25, 'br': -0.75, 'bi': 0.5, 'cr': 1.5, 'ci': 0.25, 'dr': -0.5, 'di': 1.0, 't': 0.3, 'u': -0.7}
    out = []
    for i in range(n):
        e = dict(base)
        e.update({k: (v[i % len(v)] if isinstance(v, (list, tuple)) else v) for k, v in kw.items()})
        out.append(e)
    return out


# ---- Clifford menu with documented matrices -------------------------------------------------------
def single_qubit_clifford_group():
    """the 24 single-qubit Clifford unitaries (up to phase) as words in the documented H and S"""
    H, S = D.H(1.0), D.Z(0.5)
    found = []

    def key(U):
        # conjugation action on X and Z identifies the element up to phase
        out = []
        for P in (PA.P2[1], PA.P2[3]):
            M = U @ P @ U.conj().T
            for l in (1, 2, 3):
                c = np.trace(PA.P2[l] @ M) / 2
                if abs(abs(c) - 1) < 1e-9:
                    out.append((l, c.real < 0))
        return tuple(out)

    frontier = [np.eye(2, dtype=complex)]
    seen = {}
    while frontier:
        U = frontier.pop()
        k = key(U)
        if k in seen:
            continue
        seen[k] = U
        frontier.append(H @ U)
        frontier.append(S @ U)
    assert len(seen) == 24
    return seen  # ((x_letter, x_neg), (z_letter, z_neg)) -> U with U X U^dag = +-x_to, U Z U^dag = +-z_to


def clifford_menu(tier):
    """(name, gate, documented matrix, k).  Matrices come from oracles/gates_doc.py (docstring
    formulas) or, for the 24 from_xz_map gates, from the H/S-generated group element with the
    requested action U P U^dagger on X and Z."""
    import cirq

    G = _gates()
    m = []
    grp = single_qubit_clifford_group()
    for (xk, zk), U in sorted(grp.items()):
        g = cirq.SingleQubitCliffordGate.from_xz_map((G[xk[0]], bool(xk[1])), (G[zk[0]], bool(zk[1])))
        sx = '-' if xk[1] else '+'
        sz = '-' if zk[1] else '+'
        m.append((f'C1[X->{sx}{PA.LETTER[xk[0]]},Z->{sz}{PA.LETTER[zk[0]]}]', g, U, 1))
    m += [
        ('H', cirq.H, D.H(1.0), 1),
        ('S', cirq.S, D.Z(0.5), 1),
        ('S**-1', cirq.S**-1, D.Z(-0.5), 1),
        ('X**0.5', cirq.X**0.5, D.X(0.5), 1),
        ('X**-0.5', cirq.X**-0.5, D.X(-0.5), 1),
        ('Y**0.5', cirq.Y**0.5, D.Y(0.5), 1),
        ('Y**-0.5', cirq.Y**-0.5, D.Y(-0.5), 1),
        ('X', cirq.X, D.X(1.0), 1),
        ('Y', cirq.Y, D.Y(1.0), 1),
        ('Z', cirq.Z, D.Z(1.0), 1),
        ('CZ', cirq.CZ, D.CZ(1.0), 2),
        ('CNOT', cirq.CNOT, D.CX(1.0), 2),
        ('CY', cirq.CY, D.CY(1.0), 2),
        ('SWAP', cirq.SWAP, D.SWAP(1.0), 2),
        ('ISWAP', cirq.ISWAP, D.ISWAP(1.0), 2),
        ('ISWAP**-1', cirq.ISWAP**-1, D.ISWAP(-1.0), 2),
        ('XX**0.5', cirq.XX**0.5, D.XX(0.5), 2),
        ('YY**0.5', cirq.YY**0.5, D.YY(0.5), 2),
        ('ZZ**-0.5', cirq.ZZ**-0.5, D.ZZ(-0.5), 2),
    ]
    return m


def conj_expected(U, pos, letters, coeff, n, direction):
    """direction 'before': C^dag P C ; 'after': C P C^dag  (C = U embedded on `pos`)"""
    C = PA.embed(U, list(pos), n)
    P = PA.string_matrix(letters, coeff)
    if direction == 'before':
        return PA.matmul(PA.matmul(PA.dagger(C), P), C)
    return PA.matmul(PA.matmul(C, P), PA.dagger(C))


# ------------------------------------------------------------------------------------------------
def obligations(tier):
    import cirq

    quick = tier == 'quick'
    obs = []
    G = _gates()
    N2 = 2 if quick else 3  # qubits for binary laws
    N1 = 3 if quick else 4  # qubits for unary laws
    CLIFF = clifford_menu(tier)

    def add(name, body, desc, points=None, weight=1, expected=(), opts=None, twin=True):
        o = dict(opts or {})
        o['weight'] = weight
        o.setdefault('max_paths', 400000)
        obs.append(
            Obligation(
                name,
                body,
                expected=expected,
                twin=(lambda cx, b=body: b(cx, bad=True)) if twin else None,
                points=points or [],
                opts=o,
                desc=desc,
            )
        )

    # ================================================================================================
    # A: matrix(), identity padding and qubit order
    # ================================================================================================
    def matrix_body(cx, bad=False):
        n = N1
        qs = cirq.LineQubit.range(n)
        letters = choose_letters(cx, 'P', n)
        c = sym_c(cx, 'a')
        perms = list(itertools.permutations(range(n)))
        order = perms[cx.choose('order', len(perms))]
        ps = mk_ps(qs, letters, c)
        got = ps.matrix([qs[i] for i in order])
        exp = PA.string_matrix([letters[i] for i in order], c)
        cx.close(got, wrong(exp) if bad else exp, label='PauliString.matrix(order)')
        # default order = insertion order of the non-identity qubits
        cx.close(ps.matrix(), PA.string_matrix([l for l in letters if l], c), label='PauliString.matrix()')
        # harness read-out of letters + coefficient agrees with the real matrix()
        cx.close(ps_matrix(ps, qs), ps.matrix(qs), label='fields vs matrix()')

    add(
        'matrix.pauli_string',
        matrix_body,
        f'PauliString.matrix(qubits) for every letter tuple on {N1} qubits (identity factors = qubits absent from the string) and every qubit order, SYMBOLIC complex coefficient, vs coefficient * kron of 2x2 Paulis',
        points=pts(2, **{'choose:P': [27, 6], 'choose:order': [1, 4]}),
        weight=3,
    )

    def unitary_body(cx, bad=False):
        n = 2
        qs = cirq.LineQubit.range(n)
        letters = choose_letters(cx, 'P', n)
        t = cx.real('t', -TBOX, TBOX)
        c = D.ph(t)  # unit-modulus symbolic coefficient exp(i pi t)
        ps = mk_ps(qs, letters, c)
        act = [l for l in letters if l]
        exp = PA.string_matrix(act, c)
        cx.check(cirq.has_unitary(ps) is True, label='has_unitary(unit coefficient)')
        cx.close(cirq.unitary(ps), wrong(exp) if bad else exp, label='unitary(PauliString)')
        dq = [q for q, l in zip(qs, letters) if l]
        if dq:
            cx.close(unitary_via_decompose(ps, dq), exp, tol=DECOMP_TOL, label='decompose(PauliString) product')
        d = mk_dps(letters, c)
        expd = PA.string_matrix(letters, c)
        cx.close(cirq.unitary(d), expd, label='unitary(DensePauliString)')
        cx.close(unitary_via_decompose(d.on(*qs), dq) if dq else expd, exp if dq else expd, tol=DECOMP_TOL, label='decompose(dense.on) product')
        # apply_unitary on a symbolic tensor
        T = EM.sym_tensor(cx, (2,) * n, 'T')
        B = EM.sym_tensor(cx, (2,) * n, 'B')
        if dq:
            axes = tuple(qs.index(q) for q in dq)
            args = cirq.ApplyUnitaryArgs(target_tensor=T.copy(), available_buffer=B, axes=axes)
            res = cirq.apply_unitary(ps, args)
            cx.close(res, EM.apply_matrix_to_axes(exp, T, list(axes)), label='apply_unitary(PauliString)')

    add(
        'matrix.unitary_protocols',
        unitary_body,
        'cirq.unitary / decompose / apply_unitary of PauliString and DensePauliString with SYMBOLIC unit coefficient exp(i pi t), all letter pairs on 2 qubits, symbolic target tensor',
        points=pts(2, **{'choose:P': [7, 12]}),
    )

    # ================================================================================================
    # B: products, scalars, powers, commutation, relabeling of PauliString
    # ================================================================================================
    def mul_body(cx, bad=False):
        n = N2
        qs = cirq.LineQubit.range(n)
        la, lb = choose_letters(cx, 'P', n), choose_letters(cx, 'Q', n)
        a, b = sym_c(cx, 'a'), sym_c(cx, 'b')
        p, q = mk_ps(qs, la, a), mk_ps(qs, lb, b)
        exp = PA.matmul(PA.string_matrix(la, a), PA.string_matrix(lb, b))
        r = p * q
        cx.close(ps_matrix(r, qs), wrong(exp) if bad else exp, label='P*Q')
        # the constructor form the product is implemented with, and the mutable operands
        cx.close(ps_matrix(cirq.PauliString(p, q), qs), exp, label='PauliString(P, Q)')
        cx.close(ps_matrix(p.mutable_copy() * q, qs), exp, label='mutable(P)*Q')
        cx.close(ps_matrix(p * q.mutable_copy().frozen(), qs), exp, label='P*frozen(mutable(Q))')

    add(
        'mul.string_string',
        mul_body,
        f'(aP)*(bQ) for ALL pairs of Pauli strings on {N2} qubits with SYMBOLIC complex coefficients a, b: letters and coefficient (sign, i-factors) of the product equal the matrix product',
        points=pts(3, **{'choose:P': [6, 11, 1], 'choose:Q': [9, 14, 2]}),
        weight=4,
    )

    def mul_ops_body(cx, bad=False):
        # single-qubit Pauli gate operations (SingleQubitPauliStringGateOperation) as operands
        qs = cirq.LineQubit.range(2)
        l1 = cx.choose('l1', 3) + 1
        l2 = cx.choose('l2', 3) + 1
        l3 = cx.choose('l3', 4)
        same = cx.choose('same', 2)
        a = sym_c(cx, 'a')
        q2 = qs[0] if same else qs[1]
        o1, o2 = G[l1].on(qs[0]), G[l2].on(q2)
        r = a * o1 * o2 * G[l3].on(qs[1])
        L1 = PA.string_matrix((l1, 0), a)
        L2 = PA.string_matrix((l2, 0) if same else (0, l2))
        L3 = PA.string_matrix((0, l3))
        exp = PA.matmul(PA.matmul(L1, L2), L3)
        cx.close(ps_matrix(r, qs), wrong(exp) if bad else exp, label='a*G1(q)*G2(q\')*G3(q1)')
        r2 = o1 * (o2 * a)
        cx.close(ps_matrix(r2, qs), PA.matmul(L1, L2), label='G1(q)*(G2(q\')*a)')

    add(
        'mul.gate_operations',
        mul_ops_body,
        'products of cirq.X/Y/Z/I(q) operations (SingleQubitPauliStringGateOperation.__mul__/__rmul__) on equal and different qubits with a SYMBOLIC scalar',
        points=pts(2, **{'choose:l1': [0, 2], 'choose:l2': [1, 1], 'choose:l3': [3, 0], 'choose:same': [1, 0]}),
    )

    def contents_body(cx, bad=False):
        # PAULI_STRING_LIKE contents: numbers, strings, dicts (gate / str / int values), operations, nested lists;
        # documented: multiplied left to right, qubit_pauli_map / coefficient come logically first
        n = 2
        qs = cirq.LineQubit.range(n)
        l0 = [(0, 0), (1, 2), (3, 0), (2, 1)][cx.choose('P0', 4)] if quick else choose_letters(cx, 'P0', n)
        l1 = choose_letters(cx, 'P1', n)
        l2 = choose_letters(cx, 'P2', n)
        a, b, c = sym_c(cx, 'a'), sym_c(cx, 'b'), sym_c(cx, 'c')
        form = cx.choose('form', 3)
        d1 = {q: (G[l], PA.LETTER[l], PA.LETTER[l].lower(), l)[(form + i) % 4] for i, (q, l) in enumerate(zip(qs, l1))}
        p2 = mk_ps(qs, l2, c)
        if form == 0:
            r = cirq.PauliString(b, d1, p2, qubit_pauli_map={q: G[l] for q, l in zip(qs, l0) if l}, coefficient=a)
        elif form == 1:
            r = cirq.PauliString([b, [d1, [p2]]], qubit_pauli_map={q: G[l] for q, l in zip(qs, l0) if l}, coefficient=a)
        else:
            r = cirq.PauliString(mk_ps(qs, l0, a), [b, d1], [p2.mutable_copy()])
        exp = PA.matmul(PA.matmul(PA.string_matrix(l0, a), PA.string_matrix(l1, b)), PA.string_matrix(l2, c))
        cx.close(ps_matrix(r, qs), wrong(exp) if bad else exp, label='PauliString(*contents)')

    add(
        'mul.constructor_contents',
        contents_body,
        'cirq.PauliString(*contents, qubit_pauli_map=, coefficient=) with numbers, dicts (gate / "X" / "x" / int values), strings, mutable strings and nested lists: ordered matrix product (3 factors, all letters on 2 qubits, symbolic coefficients)',
        points=pts(3, **{'choose:P0': [1, 2, 3], 'choose:P1': [9, 14, 2], 'choose:P2': [5, 10, 15], 'choose:form': [0, 1, 2]}),
        weight=6,
        opts={'max_paths': 40000},
    )

    def scalar_body(cx, bad=False):
        n = 2
        qs = cirq.LineQubit.range(n)
        la = choose_letters(cx, 'P', n)
        a, c = sym_c(cx, 'a'), sym_c(cx, 'c')
        p = mk_ps(qs, la, a)
        M = PA.string_matrix(la, a)
        cx.close(ps_matrix(c * p, qs), wrong(PA.scale(c, M)) if bad else PA.scale(c, M), label='c*P')
        cx.close(ps_matrix(p * c, qs), PA.scale(c, M), label='P*c')
        cx.close(ps_matrix(-p, qs), PA.scale(-1, M), label='-P')
        cx.close(ps_matrix(+p, qs), M, label='+P')
        cx.close(ps_matrix(p.with_coefficient(c), qs), PA.string_matrix(la, c), label='with_coefficient')
        cx.close(ps_matrix(-p.mutable_copy(), qs), PA.scale(-1, M), label='-mutable')
        cx.close(ps_matrix(p.mutable_copy().frozen(), qs), M, label='mutable_copy().frozen()')
        # division: (P / c) * c == P
        d = p / c
        cx.close(PA.scale(c, ps_matrix(d, qs)), M, label='(P/c)*c == P')

    add(
        'mul.scalars',
        scalar_body,
        'c*P, P*c, -P, +P, P/c, with_coefficient, mutable_copy/frozen round trip with SYMBOLIC complex c and coefficient',
        points=pts(2, **{'choose:P': [6, 11]}),
        expected=(ZeroDivisionError,),
    )

    UNIT = [1, -1, 1j, -1j]
    UNIT_TURNS = [0.0, 1.0, 0.5, -0.5]  # principal argument / pi

    def pow_oracle(letters, ci, t):
        """(c P)**t := c**t * P**t with c**t = exp(i t Arg c), P**t = P+ + exp(i pi t) P-  (the documented
        convention of Pauli powers X**t); equals the matrix power for every integer t"""
        act = [l for l in letters if l]
        return PA.scale(D.ph(UNIT_TURNS[ci] * t), PA.phasor(act, 1.0, D.ph(t)))

    def pow_body(cx, bad=False, single=False):
        n = 1 if single else N2
        qs = cirq.LineQubit.range(n)
        la = choose_letters(cx, 'P', n, nonidentity=True)
        ci = cx.choose('coef', 4)
        t = cx.real('t', -TBOX, TBOX)
        p = mk_ps(qs, la, UNIT[ci])
        r = p**t
        exp = pow_oracle(la, ci, t)
        if isinstance(r, cirq.PauliString):
            got = r.matrix(qs)
        else:
            got = cirq.unitary(r)
        cx.close(got, wrong(exp) if bad else exp, tol=DECOMP_TOL, label='P**t')

    add(
        'pow.multi_qubit',
        pow_body,
        f'(cP)**t for c in (1,-1,i,-i), all non-identity strings on {N2} qubits, SYMBOLIC real t (forks on t == 1, t == -1): unitary of the returned PauliStringPhasor vs c**t (P+ + e^(i pi t) P-)',
        points=pts(3, **{'choose:P': [1, 5, 8], 'choose:coef': [0, 1, 2], 't': [0.3, 3.0, -1.0]}),
        weight=3,
    )
    add(
        'finding.pow_single_qubit_coefficient',
        lambda cx, bad=False: pow_body(cx, bad, single=True),
        '(c G(q))**t on ONE qubit for c in (1,-1,i,-i): coefficient must not be ignored (fixed defect 65be9fb: (-X(q))**3 had the unitary of X)',
        points=pts(3, **{'choose:P': [0, 1, 2], 'choose:coef': [1, 2, 3], 't': [3.0, 2.0, 0.5]}),
    )

    def pow_inverse_body(cx, bad=False):
        n = 2
        qs = cirq.LineQubit.range(n)
        la = choose_letters(cx, 'P', n)
        a = sym_c(cx, 'a')
        p = mk_ps(qs, la, a)
        r = p**-1
        # (aP)^-1 * (aP) == I
        prod = PA.matmul(ps_matrix(r, qs), PA.string_matrix(la, a))
        I = np.eye(2**n, dtype=complex)
        cx.close(prod, wrong(I) if bad else I, label='P**-1 * P == I')
        cx.check((p**1) is p, label='P**1 is P')

    add(
        'pow.inverse',
        pow_inverse_body,
        'P**-1 with SYMBOLIC complex coefficient a != 0: (P**-1) P == I; P**1 is P',
        points=pts(2, **{'choose:P': [6, 11]}),
        expected=(ZeroDivisionError,),
    )

    def rpow_body(cx, bad=False):
        n = cx.choose('n', 2) + 1
        qs = cirq.LineQubit.range(n)
        la = choose_letters(cx, 'P', n, nonidentity=True)
        bi = cx.choose('base', 3)
        base = [math.e, 2.0, 0.5][bi]
        s = cx.real('t', -TBOX, TBOX)
        p = mk_ps(qs, la, 1j * s)
        # (np.exp(P) is the same code path, `math.e ** P`, selected by `ufunc == np.exp`; the np proxy of the
        # shimmed module is not that ufunc object, so only the ** spelling is executed symbolically)
        r = base**p
        th = math.log(base) * s
        exp = PA.rotation(la, _cos(th), _sin(th))
        cx.close(cirq.unitary(r), wrong(exp) if bad else exp, tol=DECOMP_TOL, label='base**(i s P)')

    add(
        'pow.exponential',
        rpow_body,
        'base**(i s P) for base in (e, 2, 0.5), SYMBOLIC real s, non-identity strings on 1-2 qubits: cos(s ln b) I + i sin(s ln b) P',
        points=pts(3, **{'choose:n': [0, 1, 1], 'choose:P': [1, 5, 8], 'choose:base': [0, 1, 2], 't': [0.3, 1.0, -2.0]}),
        weight=2,
    )

    def commutes_body(cx, bad=False):
        n = N2
        qs = cirq.LineQubit.range(n)
        la, lb = choose_letters(cx, 'P', n), choose_letters(cx, 'Q', n)
        a, b = sym_c(cx, 'a'), sym_c(cx, 'b')
        p, q = mk_ps(qs, la, a), mk_ps(qs, lb, b)
        exp = PA.commute(la, lb)
        if bad:
            exp = not exp
        cx.check(cirq.commutes(p, q) == exp, label='commutes(P, Q)')
        cx.check(cirq.commutes(mk_dps(la, a), mk_dps(lb, b)) == exp, label='commutes(dense P, dense Q)')
        cx.check(cirq.commutes(mk_dps(la, a), q) == exp, label='commutes(dense P, Q)')

    add(
        'commutes.strings',
        commutes_body,
        f'cirq.commutes on ALL pairs of (dense) Pauli strings on {N2} qubits (symbolic coefficients carried along) vs commutation of the kron matrices',
        points=pts(2, **{'choose:P': [6, 11], 'choose:Q': [9, 14]}),
        weight=2,
    )

    def relabel_body(cx, bad=False):
        n = 3
        qs = cirq.LineQubit.range(n)
        new = [cirq.NamedQubit('c'), cirq.NamedQubit('a'), cirq.NamedQubit('b')]
        la = choose_letters(cx, 'P', n)
        a = sym_c(cx, 'a')
        p = mk_ps(qs, la, a)
        M = PA.string_matrix(la, a)
        perms = list(itertools.permutations(range(n)))
        pm = perms[cx.choose('perm', len(perms))]
        # map_qubits: qubit k -> new[pm[k]]
        r = p.map_qubits({qs[k]: new[pm[k]] for k in range(n)})
        cx.close(ps_matrix(r, [new[pm[k]] for k in range(n)]), wrong(M) if bad else M, label='map_qubits')
        act = [k for k in range(n) if la[k]]
        r2 = p.with_qubits(*[new[pm[k]] for k in act])
        cx.close(ps_matrix(r2, [new[pm[k]] for k in range(n)]), M, label='with_qubits')
        d = p.dense(qs)
        cx.close(dps_matrix(d), M, label='dense(qubits)')
        cx.close(ps_matrix(d.on(*qs), qs), M, label='dense(qubits).on(*qubits)')
        order = [qs[pm[k]] for k in range(n)]
        cx.close(dps_matrix(p.dense(order)), PA.string_matrix([la[pm[k]] for k in range(n)], a), label='dense(permuted)')
        g = p.gate
        cx.close(dps_matrix(g), PA.string_matrix([l for l in la if l], a), label='.gate')
        m = p.mutable_copy().transform_qubits(lambda q: new[pm[qs.index(q)]])
        cx.close(ps_matrix(m, [new[pm[k]] for k in range(n)]), M, label='mutable.transform_qubits')
        cx.check(p.equal_up_to_coefficient(mk_ps(qs, la, 1)) is True, label='equal_up_to_coefficient')

    add(
        'relabel.strings',
        relabel_body,
        'map_qubits / with_qubits / dense / .gate / dense().on() / MutablePauliString.transform_qubits for all strings on 3 qubits and all qubit permutations, symbolic coefficient',
        points=pts(2, **{'choose:P': [27, 6], 'choose:perm': [1, 4]}),
        weight=3,
    )

    # ================================================================================================
    # C: MutablePauliString in-place products (specified through the immutable product they implement)
    # ================================================================================================
    def mutable_body(cx, bad=False):
        n = N2
        qs = cirq.LineQubit.range(n)
        la, lb = choose_letters(cx, 'P', n), choose_letters(cx, 'Q', n)
        a, b = sym_c(cx, 'a'), sym_c(cx, 'b')
        A, B = PA.string_matrix(la, a), PA.string_matrix(lb, b)
        kind = cx.choose('kind', 6)

        def other():
            if kind == 0:
                return mk_ps(qs, lb, b)
            if kind == 1:
                return mk_ps(qs, lb, b).mutable_copy()
            if kind == 2:
                return [b, {q: PA.LETTER[l] for q, l in zip(qs, lb)}]
            if kind == 3:
                return [[G[l].on(q) for q, l in zip(qs, lb)], b]
            if kind == 4:
                return [mk_ps(qs[:1], lb[:1], b), mk_ps(qs[1:], lb[1:], 1)]
            # a list whose items do NOT commute: documented as their product in list order, Q * X(q0) * Y(q0)
            return [mk_ps(qs, lb, b), [G[1].on(qs[0]), {qs[0]: 'Y'}]]

        if kind == 5:
            pad = (0,) * (n - 1)
            B = PA.matmul(PA.matmul(B, PA.string_matrix((1,) + pad)), PA.string_matrix((2,) + pad))
        AB, BA = PA.matmul(A, B), PA.matmul(B, A)
        m = mk_ps(qs, la, a).mutable_copy()
        r = m.inplace_left_multiply_by(other())
        cx.check(r is m, label='inplace_left_multiply_by returns self')
        # == the immutable product PauliString.__mul__ (self * other) that it implements
        cx.close(ps_matrix(m, qs), wrong(AB) if bad else AB, label='inplace_left_multiply_by == self*other')
        m = mk_ps(qs, la, a).mutable_copy()
        r = m.inplace_right_multiply_by(other())
        cx.check(r is m, label='inplace_right_multiply_by returns self')
        cx.close(ps_matrix(m, qs), BA, label='inplace_right_multiply_by == other*self')
        m = mk_ps(qs, la, a).mutable_copy()
        m0 = m
        m *= other()
        cx.check(m is m0, label='__imul__ in place')
        cx.close(ps_matrix(m, qs), BA, label='m *= other == other*self')
        m = cirq.MutablePauliString(other(), coefficient=a, pauli_int_dict={q: l for q, l in zip(qs, la) if l})
        cx.close(ps_matrix(m, qs), AB, label='MutablePauliString(contents, pauli_int_dict) == dict*contents')
        m = mk_ps(qs, la, a).mutable_copy()
        lk = lb[0]
        m[qs[0]] = (G[lk], PA.LETTER[lk], lk)[kind % 3]
        cx.close(ps_matrix(m, qs), PA.string_matrix((lk,) + tuple(la[1:]), a), label='__setitem__')

    add(
        'mutable.inplace_products',
        mutable_body,
        f'MutablePauliString.inplace_left_multiply_by / inplace_right_multiply_by / *= / constructor / __setitem__ for ALL letter pairs on {N2} qubits, 6 PAULI_STRING_LIKE operand forms (incl. nested lists of non-commuting items), symbolic coefficients; specified through the immutable product: left_multiply_by == self*other (what PauliString.__mul__ is built on), right_multiply_by and *= == other*self',
        points=pts(3, **{'choose:P': [6, 11, 1], 'choose:Q': [9, 14, 2], 'choose:kind': [0, 2, 3]}),
        weight=8,
    )

    # ================================================================================================
    # D: dense Pauli strings
    # ================================================================================================
    def dense_mul_body(cx, bad=False):
        shapes = [(1, 1), (1, 2), (2, 1), (2, 2)] if quick else [(1, 1), (1, 2), (2, 1), (2, 2), (1, 3), (3, 2), (3, 3)]
        n1, n2 = shapes[cx.choose('lens', len(shapes))]
        n = max(n1, n2)
        la, lb = choose_letters(cx, 'P', n1), choose_letters(cx, 'Q', n2)
        a, b = sym_c(cx, 'a'), sym_c(cx, 'b')
        A = PA.string_matrix(la + (0,) * (n - n1), a)
        B = PA.string_matrix(lb + (0,) * (n - n2), b)
        AB = PA.matmul(A, B)
        mut = cx.choose('mut', 4)
        d1, d2 = mk_dps(la, a, mutable=bool(mut & 1)), mk_dps(lb, b, mutable=bool(mut & 2))
        r = d1 * d2
        cx.close(dps_matrix(r, n), wrong(AB) if bad else AB, label='dense*dense')
        cx.check(isinstance(r, cirq.MutableDensePauliString) == bool(mut), label='result mutability')
        cx.close(dps_matrix(d1, n), A, label='lhs unchanged')
        cx.close(dps_matrix(d2, n), B, label='rhs unchanged')
        if n2 <= n1:
            m = mk_dps(la, a, mutable=True)
            m0 = m
            m *= d2
            cx.check(m is m0, label='dense __imul__ in place')
            cx.close(dps_matrix(m, n), AB, label='mutable dense *= dense')
        t = d1.tensor_product(d2)
        cx.close(dps_matrix(t), PA.string_matrix(la + lb, a * b), label='tensor_product')

    add(
        'dense.products',
        dense_mul_body,
        'DensePauliString / MutableDensePauliString __mul__, __imul__, tensor_product for all letters, unequal lengths (shorter operand padded with I), all mutability combinations, symbolic coefficients: pauli_mask arithmetic and _vectorized_pauli_mul_phase vs matrix product',
        points=pts(3, **{'choose:lens': [3, 1, 2], 'choose:P': [6, 3, 1], 'choose:Q': [9, 14, 2], 'choose:mut': [0, 1, 2]}),
        weight=6,
    )

    def dense_scalar_body(cx, bad=False):
        n = 2
        la = choose_letters(cx, 'P', n)
        a, c = sym_c(cx, 'a'), sym_c(cx, 'c')
        mut = bool(cx.choose('mut', 2))
        d = mk_dps(la, a, mutable=mut)
        M = PA.string_matrix(la, a)
        cM = PA.scale(c, M)
        cx.close(dps_matrix(d * c), wrong(cM) if bad else cM, label='D*c')
        cx.close(dps_matrix(c * d), cM, label='c*D')
        cx.close(dps_matrix(-d), PA.scale(-1, M), label='-D')
        cx.close(dps_matrix(+d), M, label='+D')
        cx.close(PA.scale(c, dps_matrix(d / c)), M, label='(D/c)*c == D')
        cx.close(dps_matrix(d.copy(coefficient=c)), PA.string_matrix(la, c), label='copy(coefficient)')
        cx.close(dps_matrix(d.frozen()), M, label='frozen')
        cx.close(dps_matrix(d.mutable_copy()), M, label='mutable_copy')
        cx.close(dps_matrix(d[0:1]), PA.string_matrix(la[0:1], 1), label='slice has coefficient 1')
        cx.check(d[1] is G[la[1]], label='__getitem__(int)')
        if mut:
            m = mk_dps(la, a, mutable=True)
            m *= c
            cx.close(dps_matrix(m), cM, label='mutable D *= c')
            m = mk_dps(la, a, mutable=True)
            m /= c
            cx.close(PA.scale(c, dps_matrix(m)), M, label='mutable (D /= c)*c == D')
            m = mk_dps(la, a, mutable=True)
            lk = la[1]
            m[0] = (G[lk], PA.LETTER[lk], lk)[lk % 3]
            cx.close(dps_matrix(m), PA.string_matrix((lk, la[1]), a), label='mutable __setitem__')
        cx.close(ps_matrix(d.on(*cirq.LineQubit.range(n)), cirq.LineQubit.range(n)), M, label='dense.on')
        cx.close(ps_matrix(d.sparse(), cirq.LineQubit.range(n)), M, label='dense.sparse()')

    add(
        'dense.scalars_and_views',
        dense_scalar_body,
        'DensePauliString scalar multiples, negation, division, copy, slices, on/sparse, mutable *=, /=, __setitem__ with symbolic coefficients',
        points=pts(2, **{'choose:P': [6, 11], 'choose:mut': [0, 1]}),
        expected=(ZeroDivisionError,),
        weight=2,
    )

    def dense_pow_body(cx, bad=False):
        n = 2
        la = choose_letters(cx, 'P', n)
        k = cx.choose('k', 6) - 2  # -2..3
        sym = cx.choose('symcoef', 2)
        if sym:
            a = sym_c(cx, 'a')
        else:
            a = UNIT[cx.choose('coef', 4)]
        d = mk_dps(la, a)
        r = d**k
        M = PA.string_matrix(la, a)
        if k >= 0:
            exp = np.eye(2**n, dtype=complex)
            for _ in range(k):
                exp = PA.matmul(exp, M)
            cx.close(dps_matrix(r), wrong(exp) if bad else exp, label='D**k')
        else:
            prod = dps_matrix(r)
            for _ in range(-k):
                prod = PA.matmul(prod, M)
            I = np.eye(2**n, dtype=complex)
            cx.close(prod, wrong(I) if bad else I, label='D**-k * D**k == I')

    add(
        'dense.integer_powers',
        dense_pow_body,
        'DensePauliString**k for k in -2..3 with coefficient in (1,-1,i,-i) (i_group table) or SYMBOLIC complex (forks on coefficient in i_group): repeated matrix product',
        points=pts(3, **{'choose:P': [6, 11, 3], 'choose:k': [5, 0, 4], 'choose:symcoef': [0, 1, 1], 'choose:coef': [2, 0, 0]}),
        expected=(ZeroDivisionError,),
        weight=3,
    )

    def dense_ps_body(cx, bad=False, sym=True):
        # DensePauliString (x) PauliString on LineQubits: the PauliString is read at positions q.x
        n = 2
        qs = cirq.LineQubit.range(n)
        n1 = cx.choose('len', 2) + 1
        la, lb = choose_letters(cx, 'P', n1), choose_letters(cx, 'Q', n)
        a = sym_c(cx, 'a')
        b = sym_c(cx, 'b') if sym else 1
        A = PA.string_matrix(la + (0,) * (n - n1), a)
        B = PA.string_matrix(lb, b)
        d, p = mk_dps(la, a), mk_ps(qs, lb, b)
        nr = max(n1, max([k + 1 for k in range(n) if lb[k]], default=0))
        side = cx.choose('side', 3)
        if side == 0:
            r, exp = d * p, PA.matmul(A, B)
        elif side == 1:
            # includes the identity PauliString (empty dense string): fixed defect 1511468 (`if other := ...`
            # treated it as "not a Pauli string" and PauliString(coefficient=c) * DensePauliString raised TypeError)
            r, exp = p * d, PA.matmul(B, A)
        else:
            r = mk_dps(la + (0,) * (n - n1), a, mutable=True)
            r *= p
            exp = PA.matmul(A, B)
        cx.check(isinstance(r, cirq.BaseDensePauliString), label='dense result type')
        cx.close(dps_matrix(r, n), wrong(exp) if bad else exp, label='dense (x) PauliString')

    add(
        'finding.dense_times_pauli_string_coefficient',
        dense_ps_body,
        'DensePauliString * PauliString, PauliString-side __rmul__ and MutableDensePauliString *= PauliString with SYMBOLIC coefficients on both operands (fixed defects 34ece35: _try_interpret_as_dps dropped the PauliString coefficient; 1511468: identity PauliString on the left raised TypeError)',
        points=pts(3, **{'choose:len': [0, 1, 1], 'choose:P': [1, 6, 11], 'choose:Q': [9, 14, 2], 'choose:side': [0, 1, 2]}),
        weight=3,
    )

    def vec_phase_body(cx, bad=False):
        # genuinely symbolic Pauli masks: every mask entry is a solver integer in 0..3
        from cirq.ops.dense_pauli_string import _vectorized_pauli_mul_phase

        n = 2 if quick else 3
        if cx.mode == 'concrete':
            lhs = np.array([cx.int(f'l{k}', 0, 3) for k in range(n)], dtype=np.uint8)
            rhs = np.array([cx.int(f'r{k}', 0, 3) for k in range(n)], dtype=np.uint8)
        else:
            lhs = np.empty(n, dtype=object)
            rhs = np.empty(n, dtype=object)
            for k in range(n):
                lhs[k] = cx.int(f'l{k}', 0, 3)
                rhs[k] = cx.int(f'r{k}', 0, 3)
        got = _vectorized_pauli_mul_phase(lhs, rhs)
        # oracle: table of i-exponents from the 2x2 matrices: P_a P_b = i^e(a,b) P_(a xor b)
        tab = {}
        for x in range(4):
            for y in range(4):
                M = PA.P2[x] @ PA.P2[y]
                R = PA.P2[x ^ y]
                for e in range(4):
                    if np.allclose(M, (1j**e) * R):
                        tab[(x, y)] = e
        tot = 0
        for k in range(n):
            for (x, y), e in tab.items():
                if e:
                    ind = (lhs[k] == x) & (rhs[k] == y)
                    tot = tot + (e * ind.to_sint() if hasattr(ind, 'to_sint') else e * int(bool(ind)))
        exp = 1j ** (tot % 4) if not bad else 1j ** ((tot + 1) % 4)
        cx.close(got, exp, label='_vectorized_pauli_mul_phase(symbolic masks)')

    add(
        'dense.vectorized_phase_symbolic_masks',
        vec_phase_body,
        '_vectorized_pauli_mul_phase with the mask entries themselves as SOLVER INTEGERS in 0..3 (no enumeration): i-power of the product equals the sum of the per-qubit exponents from the 2x2 multiplication table',
        points=[{'l0': 1, 'r0': 2, 'l1': 3, 'r1': 1, 'l2': 2, 'r2': 2}, {'l0': 0, 'r0': 2, 'l1': 3, 'r1': 3, 'l2': 2, 'r2': 1}],
    )

    # ================================================================================================
    # E: conjugation by Clifford operations
    # ================================================================================================
    NC = 2 if quick else 3

    def conj_body(cx, bad=False, api=0, menu=None):
        n = NC
        qs = cirq.LineQubit.range(n)
        gi = cx.choose('gate', len(menu))
        name, g, U, k = menu[gi]
        places = list(itertools.permutations(range(n), k))
        pl = places[cx.choose('place', len(places))]
        la = choose_letters(cx, 'P', n)
        if api == 0:
            a = sym_c(cx, 'a')
        else:
            # coefficient kept off the real axis, which removes the coefficient == +-1 forks (covered by conjugated_by)
            a = cx.real('ar', -CBOX, CBOX) + 1j * cx.real('ai', 0.25, CBOX)
        op = g.on(*[qs[i] for i in pl])
        p = mk_ps(qs, la, a)
        if api == 0:
            r, direction = p.conjugated_by(op), 'before'
        elif api == 1:
            r, direction = p.before(op), 'before'
        elif api == 2:
            r, direction = p.after(op), 'after'
        elif api == 3:
            m = p.mutable_copy()
            r = m.inplace_before(op)
            cx.check(r is m, label='inplace_before returns self')
            direction = 'before'
        else:
            m = p.mutable_copy()
            r = m.inplace_after(op)
            cx.check(r is m, label='inplace_after returns self')
            direction = 'after'
        exp = conj_expected(U, pl, la, a, n, direction)
        cx.close(ps_matrix(r, qs), wrong(exp) if bad else exp, label=f'{("conjugated_by","before","after","inplace_before","inplace_after")[api]}[{name}]')

    API = ['conjugated_by', 'before', 'after', 'inplace_before', 'inplace_after']
    for api in range(5):
        if quick and api == 1:
            continue  # before() is a one-line alias of conjugated_by(); kept in thorough
        add(
            f'conjugate.{API[api]}',
            lambda cx, bad=False, api=api: conj_body(cx, bad, api, CLIFF),
            f'PauliString.{API[api]}(C) for {len(CLIFF)} Clifford gates (all 24 single-qubit Cliffords via from_xz_map, H, S, sqrt X/Y, X, Y, Z, CZ, CNOT, CY, SWAP, ISWAP(+-1), XX/YY/ZZ**+-0.5), every placement on {NC} qubits, every Pauli string, symbolic coefficient, vs ' + ('C^dagger P C' if api in (0, 1, 3) else 'C P C^dagger') + ' from documented matrices',
            points=pts(3, **{'choose:gate': [3, 25, 34], 'choose:place': [0, 1, 1], 'choose:P': [6, 11, 13]}),
            weight=10,
            opts={'max_paths': 60000},
        )

    # op trees of several non-commuting Clifford operations
    def tree_menu(qs):
        a, b = qs[0], qs[1]
        return [
            (cirq.H(a), D.H(1.0), (0,)),
            (cirq.S(b), D.Z(0.5), (1,)),
            (cirq.CNOT(a, b), D.CX(1.0), (0, 1)),
            (cirq.CNOT(b, a), D.CX(1.0), (1, 0)),
            ((cirq.X**0.5)(a), D.X(0.5), (0,)),
            (cirq.CZ(a, b), D.CZ(1.0), (0, 1)),
            ((cirq.Y**-0.5)(b), D.Y(-0.5), (1,)),
            (cirq.ISWAP(a, b), D.ISWAP(1.0), (0, 1)),
        ]

    def tree_body(cx, bad=False):
        n = 2
        qs = cirq.LineQubit.range(n)
        TM = tree_menu(qs)
        if quick:
            TM = TM[:5] + TM[7:]
        depth = 3
        idx = [cx.choose(f'op{i}', 3 if (quick and i == 2) else len(TM)) for i in range(depth)]
        shape = sum(idx) % 3  # list nesting rotated with the sequence (every nesting occurs with every op in every position)
        api = cx.choose('api', 4)
        la = [(1, 0), (2, 3), (3, 2)][cx.choose('P', 3)] if quick else choose_letters(cx, 'P', n)
        a = cx.real('ar', -CBOX, CBOX) + 1j * cx.real('ai', 0.25, CBOX)  # off the real axis: no coefficient == +-1 forks
        ops = [TM[i][0] for i in idx]
        tree = [ops, [ops[0], [ops[1], [ops[2]]]], [[ops[0], ops[1]], ops[2]]][shape]
        # circuit unitary: first op applied first
        C = PA.ordered_product([(TM[i][1], list(TM[i][2])) for i in idx], n)
        P = PA.string_matrix(la, a)
        p = mk_ps(qs, la, a)
        if api == 0:
            r, exp = p.conjugated_by(tree), PA.matmul(PA.matmul(PA.dagger(C), P), C)
        elif api == 1:
            r, exp = p.after(tree), PA.matmul(PA.matmul(C, P), PA.dagger(C))
        elif api == 2:
            r, exp = p.mutable_copy().inplace_before(tree), PA.matmul(PA.matmul(PA.dagger(C), P), C)
        else:
            r, exp = p.mutable_copy().inplace_after(tree), PA.matmul(PA.matmul(C, P), PA.dagger(C))
        cx.close(ps_matrix(r, qs), wrong(exp) if bad else exp, label='conjugation by op tree')

    add(
        'conjugate.op_trees',
        tree_body,
        'conjugated_by / after / inplace_before / inplace_after with OP TREES (flat and nested lists) of 3 operations drawn from ' + ('6' if quick else '8') + ' mutually non-commuting placed Cliffords (H, S, CNOT both ways, sqrt X, ISWAP, ...; every sequence' + ('; third op from the first 3' if quick else '') + '): C = circuit unitary in list order, result C^dagger P C resp. C P C^dagger',
        points=pts(3, **{'choose:op0': [0, 2, 4], 'choose:op1': [2, 1, 7], 'choose:op2': [1, 0, 2], 'choose:api': [0, 1, 3], 'choose:P': [1, 2, 3]}),
        weight=10,
        opts={'max_paths': 200000},
    )

    # ================================================================================================
    # F: PauliSum arithmetic
    # ================================================================================================
    NS = 2

    KA, KB, KC, KD = 0.5 - 1.5j, -1.25 + 0.75j, 0.8 + 0.6j, -0.5 + 2.0j  # concrete partners

    SMENU = [(0, 0), (1, 0), (2, 3), (3, 1), (0, 2)]

    def sum_letters(cx):
        """P from all 16 strings (thorough) / 5 strings (quick); Q from 5 strings or equal to P"""
        la = SMENU[cx.choose('P', len(SMENU))] if quick else choose_letters(cx, 'P', 2)
        qi = cx.choose('Q', len(SMENU) + 1)
        lb = la if qi == len(SMENU) else SMENU[qi]
        return tuple(la), tuple(lb)

    def sum_body(cx, bad=False, part=0):
        n = NS
        qs = cirq.LineQubit.range(n)
        la, lb = sum_letters(cx)
        lc = (3, 1)
        dirs = SUM_DIRS if quick or part == 0 or not cx.choose('dirs', 2) else SUM_DIRS2
        lo = -CBOX if part == 0 else 0.25  # zero coefficients (dropped terms) are forks of part 0 only
        I = np.eye(2**n, dtype=complex)
        if part in (0, 1):
            a, b, c, s = ray_c(cx, 'a', dirs, lo), ray_c(cx, 'b', dirs, lo), ray_c(cx, 'c', dirs, lo), ray_c(cx, 'd', dirs, lo)
            p, q, r = mk_ps(qs, la, a), mk_ps(qs, lb, b), mk_ps(qs, lc, c)
            A, B, C = PA.string_matrix(la, a), PA.string_matrix(lb, b), PA.string_matrix(lc, c)
            S = p + q
            SM = PA.add(A, B)
            cx.check(isinstance(S, cirq.PauliSum), label='P+Q is a PauliSum')
        if part == 0:
            cx.close(sum_matrix(S, qs), wrong(SM) if bad else SM, label='P+Q (terms)')
            cx.close(S.matrix(qs), SM, label='(P+Q).matrix(qubits)')
            cx.close(S.matrix([qs[1], qs[0]]), PA.add(PA.string_matrix(la[::-1], a), PA.string_matrix(lb[::-1], b)), label='(P+Q).matrix(reversed)')
            cx.close(sum_matrix(p - q, qs), PA.add(A, PA.scale(-1, B)), label='P-Q')
            cx.close(sum_matrix(S + r, qs), PA.add(SM, C), label='S+R')
            cx.close(sum_matrix(r + S, qs), PA.add(SM, C), label='R+S')
            cx.close(sum_matrix(S - r, qs), PA.add(SM, PA.scale(-1, C)), label='S-R')
            cx.close(sum_matrix(r - S, qs), PA.add(C, PA.scale(-1, SM)), label='R-S')
            cx.close(sum_matrix(-S, qs), PA.scale(-1, SM), label='-S')
        elif part == 1:
            cx.close(sum_matrix(S + s, qs), wrong(PA.add(SM, PA.scale(s, I))) if bad else PA.add(SM, PA.scale(s, I)), label='S+scalar')
            cx.close(sum_matrix(s + S, qs), PA.add(SM, PA.scale(s, I)), label='scalar+S')
            cx.close(sum_matrix(s - S, qs), PA.add(PA.scale(s, I), PA.scale(-1, SM)), label='scalar-S')
            cx.close(sum_matrix(p + s, qs), PA.add(A, PA.scale(s, I)), label='P+scalar')
            cx.close(sum_matrix(s - p, qs), PA.add(PA.scale(s, I), PA.scale(-1, A)), label='scalar-P')
            cx.close(sum_matrix(cirq.PauliSum.from_pauli_strings([p, q, r]), qs), PA.add(SM, C), label='from_pauli_strings')
            cx.close(sum_matrix(cirq.PauliSum.wrap(p), qs), A, label='wrap(P)')
            T = S.copy()
            T += r
            T -= q
            cx.close(sum_matrix(T, qs), PA.add(A, C), label='+= / -=')
            cx.close(sum_matrix(S, qs), SM, label='copy() is independent')
            new = [cirq.NamedQubit('b'), cirq.NamedQubit('a')]
            if len(S.qubits) == n:
                W = S.with_qubits(*new)
                cx.close(sum_matrix(W, new), SM, label='with_qubits')
        else:
            # products: exactly one operand of every product carries the symbolic coefficients, its partner has
            # fixed complex coefficients (coefficient tests of LinearDict stay linear); both roles are exercised
            symleft = cx.choose('symbolic_side', 2) == 0
            if symleft:
                a, b = ray_c(cx, 'a', dirs, lo), ray_c(cx, 'b', dirs, lo)
                c, s = KC, KD
            else:
                a, b = KA, KB
                c, s = ray_c(cx, 'c', dirs, lo), ray_c(cx, 'd', dirs, lo)
            p, q, r = mk_ps(qs, la, a), mk_ps(qs, lb, b), mk_ps(qs, lc, c)
            A, B, C = PA.string_matrix(la, a), PA.string_matrix(lb, b), PA.string_matrix(lc, c)
            S = p + q
            SM = PA.add(A, B)
            if part == 2:
                cx.close(sum_matrix(S * s, qs), wrong(PA.scale(s, SM)) if bad else PA.scale(s, SM), label='S*scalar')
                cx.close(sum_matrix(s * S, qs), PA.scale(s, SM), label='scalar*S')
                cx.close(PA.scale(s, sum_matrix(S / s, qs)), SM, label='(S/scalar)*scalar == S')
                cx.close(sum_matrix(S * r, qs), PA.matmul(SM, C), label='S*R')
                cx.close(sum_matrix(r * S, qs), PA.matmul(C, SM), label='R*S')
                T = S.copy()
                T *= r
                cx.close(sum_matrix(T, qs), PA.matmul(SM, C), label='S *= R')
            else:
                S2 = r + s
                S2M = PA.add(C, PA.scale(s, I))
                cx.close(sum_matrix(S * S2, qs), wrong(PA.matmul(SM, S2M)) if bad else PA.matmul(SM, S2M), label='S*S2')
                cx.close(sum_matrix(S2 * S, qs), PA.matmul(S2M, SM), label='S2*S')
                cx.close(sum_matrix(S**0, qs), I, label='S**0')
                cx.close(sum_matrix(S**1, qs), SM, label='S**1')

    def sum_pow_body(cx, bad=False):
        n = NS
        qs = cirq.LineQubit.range(n)
        la, lb = sum_letters(cx)
        a = ray_c(cx, 'a')
        S = mk_ps(qs, la, a) + mk_ps(qs, lb, KB)
        SM = PA.add(PA.string_matrix(la, a), PA.string_matrix(lb, KB))
        S2 = PA.matmul(SM, SM)
        cx.close(sum_matrix(S**2, qs), wrong(S2) if bad else S2, label='S**2')
        if not quick:
            cx.close(sum_matrix(S**3, qs), PA.matmul(S2, SM), label='S**3')

    SUMD = 'P over ' + ('5' if quick else 'all 16') + ' strings on 2 qubits, Q over 5 strings or equal to P (equal letters merge, cancellation rho_a == rho_b is a fork); coefficients rho*w with SYMBOLIC real rho and fixed unit complex directions w'
    add('sum.add_sub', lambda cx, bad=False: sum_body(cx, bad, 0), 'PauliSum P+Q, P-Q, S+-R, R+-S, -S, .matrix(qubits) in both qubit orders. ' + SUMD, points=pts(3, **{'choose:P': [1, 2, 3], 'choose:Q': [2, 5, 0]}), weight=8, opts={'depth_limit': 4000})
    add('sum.scalars_views', lambda cx, bad=False: sum_body(cx, bad, 1), 'PauliSum +- scalar, from_pauli_strings, wrap, copy, += / -=, with_qubits. ' + SUMD, points=pts(3, **{'choose:P': [1, 2, 3], 'choose:Q': [2, 5, 0]}), weight=8, opts={'depth_limit': 4000})
    add('sum.products_string', lambda cx, bad=False: sum_body(cx, bad, 2), 'PauliSum * and / scalar, PauliSum * PauliString (both sides), *=; one operand symbolic, partner with fixed complex coefficients, both roles. ' + SUMD, points=pts(3, **{'choose:P': [1, 2, 3], 'choose:Q': [2, 5, 0], 'choose:symbolic_side': [0, 1, 0]}), weight=10, opts={'depth_limit': 4000}, expected=(ZeroDivisionError,))
    add('sum.products_sum', lambda cx, bad=False: sum_body(cx, bad, 3), 'PauliSum * PauliSum (both orders), **0, **1; one operand symbolic, partner fixed, both roles. ' + SUMD, points=pts(3, **{'choose:P': [1, 2, 3], 'choose:Q': [2, 5, 0], 'choose:symbolic_side': [0, 1, 0]}), weight=10, opts={'depth_limit': 4000})
    add('sum.powers', sum_pow_body, '(rho w P + k Q)**2 (**3 in thorough) with one SYMBOLIC coefficient: repeated matrix product', points=pts(2, **{'choose:P': [1, 2], 'choose:Q': [2, 5]}), weight=10, opts={'depth_limit': 4000})

    # ================================================================================================
    # G: expectation values on symbolic states
    # ================================================================================================
    NE = 2 if quick else 3

    def expect_body(cx, bad=False, kind='sv'):
        n = NE
        qs = cirq.LineQubit.range(n)
        la = choose_letters(cx, 'P', n)
        a = cx.real('ar', -CBOX, CBOX)  # Hermitian observable: real coefficient
        perms = list(itertools.permutations(range(n)))
        pm = perms[cx.choose('map', len(perms))]
        qubit_map = {qs[k]: pm[k] for k in range(n)}
        reg = [0] * n
        for k in range(n):
            reg[pm[k]] = la[k]
        M = PA.string_matrix(reg, a)
        p = mk_ps(qs, la, a)
        flat = cx.choose('flat', 2)
        if kind == 'sv':
            psi = EM.sym_tensor(cx, (2,) * n, 'S')
            st = psi.reshape(-1) if flat else psi
            got = p.expectation_from_state_vector(st, qubit_map, check_preconditions=False)
            exp = PA.expectation_sv(psi.reshape(-1), M)
            cx.close(got, exp + 0.01 if bad else exp, label='<psi|P|psi>')
        else:
            rho = sym_hermitian(cx, 2**n)
            st = rho if flat else rho.reshape((2,) * (2 * n))
            got = p.expectation_from_density_matrix(st, qubit_map, check_preconditions=False)
            exp = PA.expectation_dm(rho, M)
            cx.close(got, exp + 0.01 if bad else exp, label='tr(rho P)')

    add(
        'expect.state_vector',
        lambda cx, bad=False: expect_body(cx, bad, 'sv'),
        f'PauliString.expectation_from_state_vector on a fully SYMBOLIC {NE}-qubit state (arbitrary complex amplitudes, flat and tensor shape), every letter tuple, every qubit_map permutation, symbolic real coefficient vs explicit double sum <psi|P|psi>',
        points=pts(2, **{'choose:P': [6, 11], 'choose:map': [1, 0], 'choose:flat': [0, 1]}),
        weight=5,
    )
    add(
        'expect.density_matrix',
        lambda cx, bad=False: expect_body(cx, bad, 'dm'),
        f'PauliString.expectation_from_density_matrix on a SYMBOLIC Hermitian {NE}-qubit matrix (matrix and tensor shape), every letter tuple and qubit_map permutation vs explicit tr(rho P)',
        points=pts(2, **{'choose:P': [6, 11], 'choose:map': [1, 0], 'choose:flat': [0, 1]}),
        weight=6,
    )

    def expect_sum_body(cx, bad=False):
        n = 2
        qs = cirq.LineQubit.range(n)
        la, lb = choose_letters(cx, 'P', n), choose_letters(cx, 'Q', n)
        a, b = cx.real('ar', -CBOX, CBOX), cx.real('br', -CBOX, CBOX)
        pm = [(0, 1), (1, 0)][cx.choose('map', 2)]
        qubit_map = {qs[k]: pm[k] for k in range(n)}

        def regm(l, c):
            reg = [0] * n
            for k in range(n):
                reg[pm[k]] = l[k]
            return PA.string_matrix(reg, c)

        M = PA.add(regm(la, a), regm(lb, b))
        S = mk_ps(qs, la, a) + mk_ps(qs, lb, b)
        psi = EM.sym_tensor(cx, (2,) * n, 'S')
        got = S.expectation_from_state_vector(psi.reshape(-1), qubit_map, check_preconditions=False)
        exp = PA.expectation_sv(psi.reshape(-1), M)
        cx.close(got, exp + 0.01 if bad else exp, label='PauliSum <psi|S|psi>')
        rho = sym_hermitian(cx, 2**n)
        got = S.expectation_from_density_matrix(rho, qubit_map, check_preconditions=False)
        cx.close(got, PA.expectation_dm(rho, M), label='PauliSum tr(rho S)')

    add(
        'expect.pauli_sum',
        expect_sum_body,
        'PauliSum.expectation_from_state_vector / _density_matrix for two-term sums over ALL letter pairs on 2 qubits, both qubit maps, symbolic real coefficients, symbolic state / Hermitian matrix',
        points=pts(2, **{'choose:P': [6, 11], 'choose:Q': [9, 14], 'choose:map': [1, 0]}),
        weight=8,
    )

    def expect_sim_body(cx, bad=False):
        n = 2
        qs = cirq.LineQubit.range(n)
        la = choose_letters(cx, 'P', n)
        lb = [(3, 3), (1, 2), (0, 2)][cx.choose('Q', 3)]
        # coefficients bounded away from 0 (zero-coefficient forks of PauliSum are covered by sum.add_sub)
        a, b = cx.real('ar', 0.25, CBOX), cx.real('br', -CBOX, -0.25)
        t, u = cx.real('t', -TBOX, TBOX), cx.real('u', -TBOX, TBOX)
        order = [(0, 1), (1, 0)][cx.choose('order', 2)]
        circuit = cirq.Circuit((cirq.X**t)(qs[0]), cirq.CNOT(qs[0], qs[1]), (cirq.Y**u)(qs[1]))
        psi = np.zeros((2, 2), dtype=complex)
        psi[0, 0] = 1
        for Mx, pos in ((D.X(t), [0]), (D.CX(1.0), [0, 1]), (D.Y(u), [1])):
            psi = EM.apply_matrix_to_axes(Mx, psi, pos)
        obs_ = [mk_ps(qs, la, a) + mk_ps(qs, lb, b), mk_ps(qs, la, b)]
        sim = cirq.Simulator(dtype=np.complex128)
        got = sim.simulate_expectation_values(circuit, obs_, qubit_order=[qs[order[0]], qs[order[1]]])
        M0 = PA.add(PA.string_matrix(la, a), PA.string_matrix(lb, b))
        e0 = PA.expectation_sv(psi.reshape(-1), M0)
        e1 = PA.expectation_sv(psi.reshape(-1), PA.string_matrix(la, b))
        cx.close(got[0], e0 + 0.01 if bad else e0, label='simulate_expectation_values[0]')
        cx.close(got[1], e1, label='simulate_expectation_values[1]')

    add(
        'expect.simulator',
        expect_sim_body,
        'Simulator.simulate_expectation_values of X**t, CNOT, Y**u (SYMBOLIC t, u) for PauliSum and PauliString observables with symbolic real coefficients, both qubit orders, vs documented matrices applied to |00> and explicit sums',
        points=pts(2, **{'choose:P': [6, 11], 'choose:Q': [0, 1], 'choose:order': [1, 0], 'br': [-0.75, -1.5]}),
        weight=12,
    )

    # ================================================================================================
    # H: PauliStringPhasor
    # ================================================================================================
    NP_ = 2 if quick else 3

    def phasor_body(cx, bad=False, padded=False):
        n = NP_
        qs = cirq.LineQubit.range(n)
        la = choose_letters(cx, 'P', n, nonidentity=not padded)
        if padded and not any(la):
            cx.assume(False)
        sign = [1, -1][cx.choose('sign', 2)]
        t, u = cx.real('t', -TBOX, TBOX), cx.real('u', -TBOX, TBOX)
        p = mk_ps(qs, la, sign)
        ph = cirq.PauliStringPhasor(p, qubits=qs if padded else None, exponent_neg=t, exponent_pos=u)
        # -1 eigenstates of (sign*P) get e^{i pi t}, +1 eigenstates e^{i pi u}
        pos, neg = (D.ph(u), D.ph(t)) if sign == 1 else (D.ph(t), D.ph(u))
        exp = PA.phasor(la, pos, neg)
        cx.close(cirq.unitary(ph), wrong(exp) if bad else exp, tol=DECOMP_TOL, label='unitary(PauliStringPhasor)')
        cx.close(unitary_via_decompose(ph, list(qs)), exp, tol=DECOMP_TOL, label='decompose(PauliStringPhasor) product')

    add(
        'phasor.unitary',
        phasor_body,
        f'PauliStringPhasor(+-P, exponent_neg=t, exponent_pos=u), SYMBOLIC t, u, all non-identity strings on {NP_} qubits: unitary and decomposition product (basis change + parity + Z rotation) vs e^(i pi u) P+ + e^(i pi t) P-',
        points=pts(3, **{'choose:P': [1, 5, 8], 'choose:sign': [0, 1, 1], 't': [0.3, 1.0, 0.0], 'u': [0.0, -0.7, 0.5]}),
        weight=12,
    )
    add(
        'finding.phasor_identity_padded',
        lambda cx, bad=False: phasor_body(cx, bad, padded=True),
        f'PauliStringPhasor(P, qubits=superset) with identity-padded qubits in every position (fixed defect ff92133: parity was computed over the identity qubits too)',
        points=pts(3, **{'choose:P': [4, 1, 12], 'choose:sign': [0, 1, 0], 't': [0.25, 1.0, 0.5], 'u': [0.0, -0.7, 0.5]}),
        weight=12,
    )

    def phasor_identity_body(cx, bad=False):
        n = cx.choose('n', 2) + 1
        qs = cirq.LineQubit.range(n)
        sign = [1, -1][cx.choose('sign', 2)]
        t, u = cx.real('t', -TBOX, TBOX), cx.real('u', -TBOX, TBOX)
        ph = cirq.PauliStringPhasor(cirq.PauliString(coefficient=sign), qubits=qs, exponent_neg=t, exponent_pos=u)
        # +I has only the +1 eigenspace (phase e^{i pi u}), -I only the -1 eigenspace (phase e^{i pi t})
        phase = D.ph(u) if sign == 1 else D.ph(t)
        exp = PA.scale(phase, np.eye(2**n, dtype=complex))
        cx.close(cirq.unitary(ph), wrong(exp) if bad else exp, tol=DECOMP_TOL, label='unitary(phasor of +-identity string)')
        cx.close(unitary_via_decompose(ph, list(qs)), exp, tol=DECOMP_TOL, label='decompose(phasor of +-identity string) product')

    add(
        'finding.phasor_identity_string',
        phasor_identity_body,
        'PauliStringPhasor(+-identity string, qubits=1..2 explicit qubits, exponent_neg=t, exponent_pos=u), SYMBOLIC t, u: a pure global phase e^(i pi u) resp. e^(i pi t) (fixed defect cf7e109: the parity construction ran on qubit 0)',
        points=pts(3, **{'choose:n': [0, 1, 1], 'choose:sign': [0, 1, 0], 't': [0.25, 1.0, 0.5], 'u': [0.5, -0.7, 0.0]}),
    )

    def phasor_ops_body(cx, bad=False):
        n = 2
        qs = cirq.LineQubit.range(n)
        la = choose_letters(cx, 'P', n, nonidentity=True)
        t, u = cx.real('t', -TBOX, TBOX), cx.real('u', -TBOX, TBOX)
        p = mk_ps(qs, la, 1)
        ph = cirq.PauliStringPhasor(p, exponent_neg=t, exponent_pos=u)
        which = cx.choose('which', 3)
        if which == 0:
            v = [2, -1, 0.5, -1.5][cx.choose('v', 4)]
            r = ph**v
            exp = PA.phasor(la, D.ph(_canon(cx, u) * v), D.ph(_canon(cx, t) * v))
            cx.close(cirq.unitary(r), wrong(exp) if bad else exp, tol=DECOMP_TOL, label='phasor**v')
        elif which == 1:
            v = cx.real('v', -2, 2)
            ph2 = cirq.PauliStringPhasor(p, exponent_neg=v, exponent_pos=0.25)
            r = ph.merged_with(ph2)
            exp = PA.phasor(la, D.ph(u + 0.25), D.ph(t + v))
            cx.close(cirq.unitary(r), wrong(exp) if bad else exp, tol=DECOMP_TOL, label='merged_with')
        else:
            gi = cx.choose('gate', 4)
            name, g, U, pos = [('H0', cirq.H(qs[0]), D.H(1.0), (0,)), ('S1', cirq.S(qs[1]), D.Z(0.5), (1,)), ('CNOT01', cirq.CNOT(qs[0], qs[1]), D.CX(1.0), (0, 1)), ('CZ', cirq.CZ(qs[1], qs[0]), D.CZ(1.0), (1, 0))][gi]
            r = ph.conjugated_by(g)
            C = PA.embed(U, list(pos), n)
            exp = PA.matmul(PA.matmul(PA.dagger(C), PA.phasor(la, D.ph(u), D.ph(t))), C)
            got = PA.embed(cirq.unitary(r), [qs.index(q) for q in r.qubits], n)
            cx.close(got, wrong(exp) if bad else exp, tol=DECOMP_TOL, label='phasor.conjugated_by')

    add(
        'phasor.pow_merge_conjugate',
        phasor_ops_body,
        'PauliStringPhasor ** v for v in (2, -1, 0.5, -1.5) (powers act on the canonicalised exponents), merged_with, conjugated_by(Clifford) with SYMBOLIC exponents',
        points=pts(3, **{'choose:P': [1, 5, 8], 'choose:which': [0, 1, 2], 'choose:gate': [0, 2, 3], 'choose:v': [2, 0, 1], 'v': [0.5, -1.0, 1.0]}),
        weight=12,
    )

    # ================================================================================================
    # I: PauliSumExponential
    # ================================================================================================
    PSE_K = (0.75, -1.25)

    def pse_body(cx, bad=False):
        n = 2
        qs = cirq.LineQubit.range(n)
        la = choose_letters(cx, 'P', n)
        lb = [(1, 1), (3, 0), (2, 3), (0, 1), (3, 3), (2, 0)][cx.choose('Q', 6)] if quick else choose_letters(cx, 'Q', n)
        if la == lb or not any(la) or not any(lb):
            cx.assume(False)
        anti = cx.choose('anti', 2)
        # the rotation angle exponent*coefficient is kept linear in ONE symbolic quantity: either the
        # coefficients are symbolic (exponent = default 1 / fixed -0.5) or the exponent is (fixed coefficients)
        mode = cx.choose('symbolic', 3)
        if mode == 0:
            a, b = cx.real('ar', 0.25, CBOX), cx.real('br', -CBOX, -0.25)  # away from the atol=1e-8 classification
            e = 1
        elif mode == 1:
            a, b = cx.real('ar', -CBOX, -0.25), cx.real('br', 0.25, CBOX)
            e = -0.5
        else:
            a, b = PSE_K
            e = cx.real('t', -TBOX, TBOX)
        unit = 1j if anti else 1
        S = mk_ps(qs, la, unit * a) + mk_ps(qs, lb, unit * b)
        commuting = PA.commute(la, lb)
        try:
            E = cirq.PauliSumExponential(S, exponent=e) if mode else cirq.PauliSumExponential(S)
        except ValueError:
            cx.check(not commuting, label='ValueError only for non-commuting terms')
            return
        cx.check(commuting, label='non-commuting sum must be rejected')
        # Hermitian: exp(i e S); anti-Hermitian: exp(e S) with S = i(aP + bQ): both = prod exp(i e c_k P_k)
        tot = np.eye(2**n, dtype=complex)
        for f in E:
            cx.check(isinstance(f, cirq.PauliStringPhasor), label='factor type')
            U = PA.embed(cirq.unitary(f), [qs.index(q) for q in f.qubits], n)
            tot = PA.matmul(U, tot)
        exp = PA.matmul(PA.rotation(la, _cos(e * a), _sin(e * a)), PA.rotation(lb, _cos(e * b), _sin(e * b)))
        cx.close(tot, wrong(exp) if bad else exp, tol=DECOMP_TOL, label='product of rotation factors')

    add(
        'sum_exponential.factors',
        pse_body,
        'PauliSumExponential(aP + bQ resp. i(aP + bQ), exponent=e) with SYMBOLIC real a, b of both signs (|.| >= 0.25; e = default 1 or -0.5) or SYMBOLIC e (a, b = 0.75, -1.25): ValueError exactly for non-commuting terms; product of the PauliStringPhasor factors it iterates == prod_k (cos(e c_k) I + i sin(e c_k) P_k), exactly (not only up to phase); P over all strings on 2 qubits, Q over ' + ('6 strings' if quick else 'all strings') + ', Hermitian and anti-Hermitian',
        points=pts(3, **{'choose:P': [5, 15, 1], 'choose:Q': [0, 4, 3], 'choose:anti': [0, 1, 1], 'choose:symbolic': [0, 1, 2], 'ar': [0.5, -1.25, 1.0], 'br': [-0.75, 0.5, -0.5]}),
        weight=14,
    )

    def pse_matrix_body(cx, bad=False):
        n = 2
        qs = cirq.LineQubit.range(n)
        case = cx.choose('case', 3)
        a, b = PSE_K
        e = cx.real('t', -TBOX, TBOX)
        la, lb = [((0, 1), (3, 0)), ((3, 3), (1, 1)), ((3, 0), (3, 3))][case]
        # first term listed first: X(q1) + Z(q0) ; Z0 Z1 + X0 X1 ; Z0 + Z0 Z1
        S = mk_ps(qs, la, a) + mk_ps(qs, lb, b)
        E = cirq.PauliSumExponential(S, exponent=e)
        exp = PA.matmul(PA.rotation(la, _cos(e * a), _sin(e * a)), PA.rotation(lb, _cos(e * b), _sin(e * b)))
        cx.check(tuple(E.qubits) == tuple(qs), label='qubits')
        got = E.matrix()
        cx.close(got, wrong(exp) if bad else exp, tol=DECOMP_TOL, label='PauliSumExponential.matrix() over .qubits')

    add(
        'finding.sum_exponential_matrix',
        pse_matrix_body,
        'PauliSumExponential.matrix() / cirq.unitary must be exp(i e S) in the order of .qubits: OPEN defect - the term unitaries are kron-ed in term order (wrong qubit order for X(q1)+Z(q0), wrong shape 16x16 / 8x8 when terms share qubits)',
        points=pts(0),
        twin=False,
    )

    # ================================================================================================
    # J: sparse matrices (scipy.sparse containers modelled for symbolic entries: symx/sparse_model.py)
    # ================================================================================================
    # qubit-order menu per register size: all permutations up to 3 qubits, 5 orders on 4 qubits
    ORD4 = [(0, 1, 2, 3), (3, 2, 1, 0), (1, 2, 3, 0), (2, 0, 3, 1), (0, 2, 1, 3)]
    NSP = (1, 2, 3, 4)

    def sp_orders(n):
        return list(itertools.permutations(range(n))) if n < 4 else ORD4

    def sp_dense(cx, m, dim, label):
        """dense array of a returned sparse matrix + container contract (csr format, shape)"""
        cx.check(getattr(m, 'format', None) == 'csr', label=label + ': csr format')
        cx.check(tuple(m.shape) == (dim, dim), label=label + ': shape')
        return m.toarray()

    def sparse_string_body(cx, bad=False):
        n = NSP[cx.choose('n', len(NSP))]
        qs = cirq.LineQubit.range(n)
        letters = choose_letters(cx, 'P', n)  # 0 = qubit absent from the string (identity factor of the register)
        c = sym_c(cx, 'a')
        orders = sp_orders(n)
        order = orders[cx.choose('order', len(orders))]
        ps = mk_ps(qs, letters, c)
        oq = [qs[i] for i in order]
        exp = PA.string_matrix([letters[i] for i in order], c)
        got = sp_dense(cx, ps.sparse_matrix(oq), 2**n, 'sparse_matrix(order)')
        cx.close(got, wrong(exp) if bad else exp, label='PauliString.sparse_matrix(order)')
        # generator argument (documented Iterable), and the default = the string's own qubits in insertion order
        cx.close(ps.sparse_matrix(q for q in oq).toarray(), exp, label='PauliString.sparse_matrix(iterable)')
        act = [l for l in letters if l]
        cx.close(sp_dense(cx, ps.sparse_matrix(), 2 ** len(act), 'sparse_matrix()'), PA.string_matrix(act, c), label='PauliString.sparse_matrix()')
        # agreement with the dense matrix() on a register that OMITS the first qubit of the string (both ignore it)
        if n >= 2 and sum(1 for l in letters if l) >= 1:
            sub = [q for q in oq if q != qs[[k for k in range(n) if letters[k]][0]]]
            cx.close(ps.sparse_matrix(sub).toarray(), ps.matrix(sub), label='sparse_matrix(sub-register) == matrix(sub-register)')

    add(
        'sparse.pauli_string',
        sparse_string_body,
        'PauliString.sparse_matrix(qubits) for EVERY letter tuple on registers of 1-4 qubits (0-4 Y factors; identity letters = register qubits absent from the string), all qubit orders up to 3 qubits / 5 orders on 4, list / generator / default qubits, SYMBOLIC complex coefficient, vs coefficient * kron of the 2x2 Paulis; csr format and shape; agreement with matrix() on a sub-register',
        points=pts(4, **{'choose:n': [3, 2, 3, 1], 'choose:P': [170, 27, 166, 10], 'choose:order': [1, 4, 3, 1]}),
        weight=6,
    )

    # sums: P over every string (2-3 qubits) / a 4-qubit menu with up to four Y factors; Q, R from menus
    SP4 = [(2, 2, 2, 2), (2, 2, 2, 1), (1, 2, 3, 2), (3, 0, 3, 2), (0, 0, 0, 0), (2, 0, 2, 0), (0, 2, 2, 0), (3, 3, 0, 0), (2, 1, 2, 3), (0, 0, 0, 2)]
    SPQ = {2: [(2, 2), (3, 0), None], 3: [(2, 2, 2), (3, 0, 3)], 4: [(2, 2, 2, 2), (3, 0, 0, 3), (0, 3, 0, 0)]}  # None: equal to P
    SPR = {2: (3, 3), 3: (0, 2, 2), 4: (2, 3, 2, 0)}
    NSS = (2, 3, 4)
    # (qubit order kind, extra idle qubit inside the order, number of terms)
    SPCFG = [('id', 0, 2), ('rev', 1, 3), ('rot', 0, 3), ('rev', 0, 2)]

    def sparse_sum_body(cx, bad=False):
        n = NSS[cx.choose('n', len(NSS))]
        qs = cirq.LineQubit.range(n)
        la = SP4[cx.choose('P4', len(SP4))] if (n == 4 and quick) else choose_letters(cx, 'P', n)
        cfg = cx.choose('config', len(SPCFG))
        okind, extra, nterms = SPCFG[cfg]
        qmenu = [q for q in SPQ[n] if q is not None or cfg < 2]  # the merge / cancellation case runs in two of the four configurations
        lb = qmenu[cx.choose('Q', len(qmenu))]
        lb = tuple(la) if lb is None else lb
        lc = SPR[n]
        a, b, c = ray_c(cx, 'a', lo=0.25), ray_c(cx, 'b', lo=0.25), ray_c(cx, 'c', lo=0.25)
        order = {'id': tuple(range(n)), 'rev': tuple(reversed(range(n))), 'rot': tuple(range(1, n)) + (0,)}[okind]
        S = mk_ps(qs, la, a) + mk_ps(qs, lb, b)
        terms = [(la, a), (lb, b)]
        if nterms == 3:
            S = S + mk_ps(qs, lc, c)
            terms.append((lc, c))
        oq = [qs[i] for i in order]
        pos = list(order)
        if extra:
            oq.insert(1, cirq.NamedQubit('idle'))
            pos.insert(1, None)
        exp = np.zeros((2 ** len(oq),) * 2, dtype=complex)
        for l, co in terms:
            exp = PA.add(exp, PA.string_matrix([0 if i is None else l[i] for i in pos], co))
        got = sp_dense(cx, S.sparse_matrix(oq), 2 ** len(oq), 'PauliSum.sparse_matrix(order)')
        cx.close(got, wrong(exp) if bad else exp, label='PauliSum.sparse_matrix(order)')
        cx.close(S.matrix(oq), exp, label='PauliSum.matrix(order)')
        # default: the sorted qubits the remaining terms act on
        dq = sorted(S.qubits)
        cx.check(tuple(S.qubits) == tuple(dq), label='PauliSum.qubits sorted')
        cx.close(sp_dense(cx, S.sparse_matrix(), 2 ** len(dq), 'PauliSum.sparse_matrix()'), sum_matrix(S, dq), label='PauliSum.sparse_matrix() == sum of term matrices over .qubits')

    add(
        'sparse.pauli_sum',
        sparse_sum_body,
        'PauliSum.sparse_matrix(qubits) and .matrix(qubits) of 2-3 term sums: P over every string on 2-3 qubits / ' + ('10 four-qubit strings' if quick else 'every four-qubit string') + ' (up to four Y factors), Q over 2-3 strings per size (multi-Y, diagonal) or, on 2 qubits, equal to P (merge; cancellation rho_a == rho_b is a fork and leaves fewer terms / the empty sum), third term in half of the configurations; 4 configurations of (qubit order identity / reversed / rotated, extra idle qubit inside the order, 2 or 3 terms), default qubits; coefficients rho*w with SYMBOLIC rho in [0.25, 2] on fixed complex directions; vs the sum of coefficient * kron matrices (overlapping entries of different terms are summed: COO duplicates)',
        points=pts(4, **{'choose:n': [0, 1, 2, 0], 'choose:P': [6, 42, 0, 9], 'choose:P4': [0, 0, 3, 0], 'choose:Q': [0, 1, 1, 2], 'choose:config': [0, 1, 2, 1], 'ar': [0.5, 0.5, 1.25, 0.75], 'br': [0.75, 0.5, 0.5, 0.75], 'cr': [1.5, 0.25, 1.0, 0.5]}),
        weight=9,
        opts={'depth_limit': 4000},
    )

    # ================================================================================================
    # K: simulate_expectation_values / _sweep / _sweep_iter with non-default arguments
    # ================================================================================================
    import sympy

    SX, SY = sympy.Symbol('x'), sympy.Symbol('y')
    IDLE = cirq.NamedQubit('idle')

    def sev_shapes(qs, u, mix):
        """(operations with sympy symbols x, y and a directly given exponent u, documented steps as a function of the
        resolved values) on 2 and 3 qubits.  x sits on an XPowGate (whose _apply_unitary_ has an exponent == 1 fast path:
        a fork per resolver), y and u on phase-type gates (no forks).  mix: Hadamards that turn the phases into populations
        (left out with a symbolic initial vector: the final amplitudes stay single products there, which keeps the |amplitude|**2
        of the normalisation check inside expectation_from_state_vector decidable in reasonable time)."""
        H = [(cirq.H, D.H(1.0))] if mix else []
        if len(qs) == 2:
            seq = [((cirq.X**SX), lambda vx, vy: D.X(vx), [0]), (cirq.CNOT, D.CX(1.0), [0, 1]), (cirq.ZPowGate(exponent=SY), lambda vx, vy: D.Z(vy), [1]), (cirq.CZPowGate(exponent=u), D.CZ(u), [1, 0])] + [(g, M, [1]) for g, M in H]
        else:
            seq = [((cirq.X**SX), lambda vx, vy: D.X(vx), [2])] + [(g, M, [1]) for g, M in H] + [(cirq.CNOT, D.CX(1.0), [2, 0]), (cirq.ZPowGate(exponent=SY), lambda vx, vy: D.Z(vy), [0]), (cirq.CZPowGate(exponent=u), D.CZ(u), [1, 0])] + [(g, M, [0]) for g, M in H]
        ops_ = [g.on(*[qs[i] for i in on]) for g, _, on in seq]
        return ops_, lambda vx, vy: [(M(vx, vy) if callable(M) else M, on) for _, M, on in seq]

    # qubit orders: None = argument not passed (sorted qubits); 'e' = an extra idle qubit that the circuit does not touch
    SEV_ORDERS = {2: [None, (1, 0), (1, 'e', 0)], 3: [(2, 0, 1), (1, 2, 0), (0, 'e', 2, 1)]}
    # observables: qubit-asymmetric strings (a wrong qubit map / qubit order changes the value)
    SEV_P = {2: [(1, 3), (2, 0), (3, 2)], 3: [(1, 3, 0), (2, 0, 3), (0, 1, 2)]}
    SEV_Q = {2: (0, 2), 3: (3, 0, 1)}
    SEV_BASIS = {2: [1, 2], 3: [5, 3], 4: [6, 9]}
    # symbolic initial vector g cos(a)|b1> + e^{i pi b} sin(a)|b2>: (b1, b2) as qubit values (q0, q1[, q2]) that differ on a qubit other
    # than the target of X**x, and the value of the idle wire
    SEV_PAIRS = {2: [((0, 1), (1, 0), 1), ((1, 1), (1, 0), 0)], 3: [((0, 0, 1), (1, 1, 0), 1), ((1, 0, 1), (1, 1, 1), 0)]}

    def sev_initial(cx, n, wires, kind, pick=None):
        """initial state over the register `wires` (axes in qubit_order): (argument handed to the simulator, tensor)"""
        m = len(wires)
        if kind == 0:
            b = SEV_BASIS[m][cx.choose('basis', 2) if pick is None else pick]
            t = np.zeros((2,) * m, dtype=complex)
            t.reshape(-1)[b] = 1
            return b, t
        b1, b2, idle = SEV_PAIRS[n][cx.choose('pair', 2) if pick is None else pick]

        def index(bits):
            return int(''.join(str(idle if w == 'e' else bits[w]) for w in wires), 2)

        t = normalised_state(cx, m, (index(b1), index(b2)))
        return t.copy(), t

    def sev_setup(cx, n, symbolic_u=True):
        qs = cirq.LineQubit.range(n)
        u = cx.real('u', -TBOX, TBOX) if symbolic_u else 0.25
        ops_, steps_of = sev_shapes(qs, u, mix=symbolic_u)
        order = SEV_ORDERS[n][cx.choose('order', len(SEV_ORDERS[n]))]
        wires = list(range(n)) if order is None else list(order)  # wire k of the register holds qubit wires[k]
        oq = None if order is None else [IDLE if i == 'e' else qs[i] for i in order]
        pos = {i: wires.index(i) for i in range(n)}
        return qs, ops_, steps_of, wires, oq, pos

    def sev_state(steps, psi0, pos):
        psi = psi0
        for Mx, on in steps:
            psi = EM.apply_matrix_to_axes(Mx, psi, [pos[i] for i in on])
        return psi

    def sev_observables(cx, qs, wires, form, bad=False, nletters=3):
        """(observables argument, [matrix over the register per returned value])"""
        n = len(qs)
        la = SEV_P[n][0 if bad else cx.choose('P', nletters)]
        lb = SEV_Q[n]
        a, b = cx.real('ar', 0.25, CBOX), cx.real('br', -CBOX, -0.25)

        def reg(l, c):
            return PA.string_matrix([0 if i == 'e' else l[i] for i in wires], c)

        zl = tuple(3 if k == n - 1 else 0 for k in range(n))
        if form == 0:
            return [mk_ps(qs, la, a) + mk_ps(qs, lb, b), mk_ps(qs, la, b)], [PA.add(reg(la, a), reg(lb, b)), reg(la, b)]
        if form == 1:
            return mk_ps(qs, la, a), [reg(la, a)]
        if form == 2:
            return mk_ps(qs, la, a) + mk_ps(qs, lb, b), [PA.add(reg(la, a), reg(lb, b))]
        return [cirq.Z(qs[n - 1]), mk_ps(qs, la, a) - mk_ps(qs, lb, b)], [reg(zl, 1), PA.add(reg(la, a), reg(lb, -b))]

    def sev_call(cx, sim, form, circuit, observables, kw, vals):
        """entry point per observable form: 0 simulate_expectation_values(dict), 1 _sweep(list of 2 resolvers), 2 _sweep_iter
        (list of 2 resolvers), 3 simulate_expectation_values(ParamResolver).  Returns [(values, (vx, vy))]"""
        (vx, vy), (wx, wy) = vals
        if form == 0:
            return [(sim.simulate_expectation_values(circuit, observables, {'x': vx, 'y': vy}, **kw), (vx, vy))]
        if form == 3:
            return [(sim.simulate_expectation_values(circuit, observables, param_resolver=cirq.ParamResolver({SX: vx, 'y': vy}), **kw), (vx, vy))]
        params = [cirq.ParamResolver({'x': vx, 'y': vy}), cirq.ParamResolver({'x': wx, 'y': wy})]
        if form == 1:
            res = sim.simulate_expectation_values_sweep(circuit, observables, params, **kw)
            cx.check(isinstance(res, list), label='_sweep returns a list')
        else:
            it = sim.simulate_expectation_values_sweep_iter(circuit, observables, params, **kw)
            cx.check(not isinstance(it, list), label='_sweep_iter returns an iterator')
            res = list(it)
        cx.check(len(res) == 2, label='one value list per resolver')
        return [(res[0], (vx, vy)), (res[1], (wx, wy))]

    def sev_values(cx, symbolic_y=True):
        """values of (x, y) in the two resolvers; with a symbolic initial vector only x is symbolic (the number of monomials of
        one expectation value is 3**(number of angle variables))"""
        if symbolic_y:
            return (cx.real('t', -TBOX, TBOX), cx.real('v', -TBOX, TBOX)), (cx.real('w', -TBOX, TBOX), cx.real('z', -TBOX, TBOX))
        return (cx.real('t', -TBOX, TBOX), 0.5), (cx.real('w', -TBOX, TBOX), -0.75)

    # (initial-state kind, observable/entry form, which basis state / pair): kind 0 basis index, 1 symbolic vector (ndarray),
    # 2 the symbolic vector inside a StateVectorSimulationState
    SEV_CFG = [(k, f, p) for k in (0, 1) for f in range(4) for p in (0, 1)] + [(2, 0, 0), (2, 1, 1)]

    def sev_sv_body(cx, bad=False, n=2):
        kind, form, pick = SEV_CFG[cx.choose('config', len(SEV_CFG))]
        if bad and not (form == 2 and pick == 0):
            cx.assume(False)  # the twin needs one refutation, not the whole family
        qs, ops_, steps_of, wires, oq, pos = sev_setup(cx, n, symbolic_u=(kind == 0))
        init, psi0 = sev_initial(cx, n, wires, min(kind, 1), pick)
        arr = init if kind == 1 else None
        if kind == 2:
            # the same symbolic vector handed over as a simulation-state object over the ordered qubits
            init = cirq.StateVectorSimulationState(initial_state=init, qubits=oq if oq is not None else qs, dtype=np.complex128)
        observables, mats = sev_observables(cx, qs, wires, form, bad)
        vals = sev_values(cx, symbolic_y=(kind == 0))
        kw = {'initial_state': init}
        if oq is not None:
            kw['qubit_order'] = oq
        sim = cirq.Simulator(dtype=np.complex128)
        out = sev_call(cx, sim, form, cirq.Circuit(ops_), observables, kw, vals)
        if arr is not None:
            cx.close(arr, psi0, label='the caller\'s initial_state array is not modified')
        for ri, (got, (vx, vy)) in enumerate(out):
            cx.check(len(got) == len(mats), label='one value per observable')
            psi = sev_state(steps_of(vx, vy), psi0, pos).reshape(-1)
            for k, M in enumerate(mats):
                e = PA.expectation_sv(psi, M)
                cx.close(got[k], e + 0.01 if (bad and k == len(mats) - 1 and ri == len(out) - 1) else e, label=f'Simulator expectation value [resolver {ri}][observable {k}]')

    def SEV_PTS(k, **kw):
        extra = {'t': [0.3, 1.0, -2.6, 0.5, 3.25, -1.0], 'v': [1.7, -0.4], 'w': [-0.9, 2.0, 0.125], 'z': [0.6, -3.5], 'u': [-0.7, 1.0, 2.3], 'sa': [0.4, -1.3, 2.9], 'sb': [0.35, -1.6], 'ar': [0.5, 1.75], 'br': [-0.75, -1.5, -0.3]}
        extra.update(kw)
        return pts(k, **extra)

    SEVD = (
        'sympy-parameterised gates X**x, ZPow(y) resolved to SYMBOLIC values (dict / ParamResolver / two resolvers per sweep) plus a directly symbolic CZPow(u), CNOT, H; '
        'NON-DEFAULT initial_state: basis index (2 per register size), a SYMBOLIC normalised superposition g cos(a)|b1> + e^(i pi b) sin(a)|b2> of two basis states (2 pairs, entangled; ndarray, '
        'caller\'s array must stay unmodified) and the same vector inside a StateVectorSimulationState; qubit_order: default / permuted / with an extra idle qubit; observables: list [PauliSum, PauliString], '
        'bare PauliString, bare PauliSum, [Z(q) operation, P - Q] with SYMBOLIC real coefficients, P from 3 qubit-asymmetric strings; entry points simulate_expectation_values, _sweep, _sweep_iter; '
        'vs explicit <psi|O|psi> of the documented matrices applied to the initial state in register order'
    )
    for n_ in (2, 3):
        add(
            f'expect.simulator_arguments.q{n_}',
            lambda cx, bad=False, n_=n_: sev_sv_body(cx, bad, n_),
            f'cirq.Simulator expectation-value entry points on a {n_}-qubit circuit: ' + SEVD,
            points=SEV_PTS(6, **{'choose:config': [1, 10, 13, 16, 6, 15], 'choose:order': [1, 2, 0, 2, 2, 1], 'choose:P': [0, 1, 2, 1, 0, 2]}),
            weight=12,
            opts={'max_paths': 40000},
        )

    DM_FLIP = 0.25

    def sev_dm_body(cx, bad=False):
        n = 2
        form = cx.choose('form', 4)
        if bad and form != 2:
            cx.assume(False)
        qs, ops_, steps_of, wires, oq, pos = sev_setup(cx, n, symbolic_u=True)
        init, psi0 = sev_initial(cx, n, wires, 0, pick=(form + len(wires)) % 2)  # both basis states of a register size occur with every order
        observables, mats = sev_observables(cx, qs, wires, form, bad, nletters=2)
        vals = sev_values(cx, symbolic_y=False)
        # a bit-flip channel with fixed probability in the middle of the circuit: the final state is MIXED,
        # rho = (1-p) |psi_0><psi_0| + p |psi_1><psi_1| with psi_1 = the circuit with X inserted (documented mixture)
        ops_ = ops_[:2] + [cirq.bit_flip(DM_FLIP)(qs[1])] + ops_[2:]
        kw = {'initial_state': init}
        if oq is not None:
            kw['qubit_order'] = oq
        sim = cirq.DensityMatrixSimulator(dtype=np.complex128)
        try:
            out = sev_call(cx, sim, form, cirq.Circuit(ops_), observables, kw, vals)
        except ValueError as e:
            # the PSD test of validate_density_matrix runs on the over-approximated eigenvalues (symx/eigvalsh_model.py): its
            # rejecting branch is a model artefact in symbolic mode (declared expected); every other rejection of this
            # valid state, and any rejection on real numpy, is a failure
            if cx.mode != 'concrete' and 'positive semidefinite' in str(e):
                raise
            cx.check(False, label=f'valid final density matrix rejected: {str(e)[:80]}')
            return
        for ri, (got, (vx, vy)) in enumerate(out):
            cx.check(len(got) == len(mats), label='one value per observable')
            steps = steps_of(vx, vy)
            psi_a = sev_state(steps, psi0, pos).reshape(-1)
            psi_b = sev_state(steps[:2] + [(D.X(1.0), [1])] + steps[2:], psi0, pos).reshape(-1)
            for k, M in enumerate(mats):
                e = (1 - DM_FLIP) * PA.expectation_sv(psi_a, M) + DM_FLIP * PA.expectation_sv(psi_b, M)
                cx.close(got[k], e + 0.01 if (bad and k == len(mats) - 1 and ri == len(out) - 1) else e, label=f'DensityMatrixSimulator expectation value [resolver {ri}][observable {k}]')

    add(
        'expect.density_matrix_simulator_arguments',
        sev_dm_body,
        'cirq.DensityMatrixSimulator.simulate_expectation_values / _sweep / _sweep_iter on the 2-qubit circuit X**x, CNOT, bit_flip(0.25), ZPow(y), CZPow(u), H (MIXED final state), SYMBOLIC resolver values of x (two resolvers per sweep; y fixed per resolver) and symbolic u, initial_state = basis index (2 per register size), qubit_order default / permuted / with an idle qubit, four observable forms with symbolic real coefficients (P from 2 qubit-asymmetric strings): tr(rho O) by explicit sums over the documented mixture. The PSD validation inside expectation_from_density_matrix runs on over-approximated eigenvalues (both outcomes explored; its rejection is the declared expected ValueError in symbolic mode, a failure on real numpy)',
        points=SEV_PTS(4, **{'choose:form': [0, 1, 2, 3], 'choose:order': [0, 1, 2, 1], 'choose:P': [0, 1, 0, 1]}),
        weight=12,
        expected=(ValueError,),
        opts={'max_paths': 40000},
    )

    def sev_measure_body(cx, bad=False):
        # terminal / non-terminal measurements and permit_terminal_measurements.  The measured qubit q2 is in the basis
        # state |1> and not entangled, so the outcome is certain: no random choice is involved and the post-measurement
        # state is the pre-measurement state.
        qs = cirq.LineQubit.range(3)
        simk = cx.choose('simulator', 2)
        where = cx.choose('measurement', 3)  # 0 terminal, 1 followed by another operation on q2 (not terminal), 2 followed by a later moment on ANOTHER qubit (still terminal)
        permit = cx.choose('permit', 3)  # 0 argument not passed, 1 False, 2 True
        entry = cx.choose('entry', 3)
        if bad and not (permit == 2 and entry == 0):
            cx.assume(False)
        t = cx.real('t', -TBOX, TBOX)
        a, b = cx.real('ar', 0.25, CBOX), cx.real('br', -CBOX, -0.25)
        ops_ = [(cirq.X**SX)(qs[0]), cirq.X(qs[2]), cirq.CNOT(qs[0], qs[1]), cirq.measure(qs[2], key='m')]
        steps = [(D.X(t), [0]), (D.X(1.0), [2]), (D.CX(1.0), [0, 1])]
        if where == 1:
            ops_.append(cirq.Z(qs[2]))  # the measurement is not terminal any more
            steps.append((D.Z(1.0), [2]))
        elif where == 2:
            ops_.append(cirq.H(qs[1]))  # later moment on ANOTHER qubit: the measurement of q2 is still terminal
            steps.append((D.H(1.0), [1]))
        terminal = where != 1
        order = (2, 0, 1)
        oq = [qs[i] for i in order]
        pos = {i: order.index(i) for i in range(3)}
        la, lb = (3, 1, 3), (2, 2, 0)
        observables = [mk_ps(qs, la, a) + mk_ps(qs, lb, b), cirq.Z(qs[2])]
        mats = [PA.add(PA.string_matrix([la[i] for i in order], a), PA.string_matrix([lb[i] for i in order], b)), PA.string_matrix([(0, 0, 3)[i] for i in order], 1)]
        sim = (cirq.Simulator if simk == 0 else cirq.DensityMatrixSimulator)(dtype=np.complex128, seed=CertainOutcomePrng())
        kw = {'qubit_order': oq}
        if permit:
            kw['permit_terminal_measurements'] = permit == 2
        rs = cirq.ParamResolver({'x': t})
        try:
            if entry == 0:
                got = sim.simulate_expectation_values(cirq.Circuit(ops_), observables, rs, **kw)
            elif entry == 1:
                got = sim.simulate_expectation_values_sweep(cirq.Circuit(ops_), observables, [rs], **kw)[0]
            else:
                got = list(sim.simulate_expectation_values_sweep_iter(cirq.Circuit(ops_), observables, [rs], **kw))[0]
        except ValueError as e:
            if 'positive semidefinite' in str(e) and cx.mode != 'concrete':
                raise
            cx.check('terminal measurement' in str(e), label=f'unexpected ValueError: {str(e)[:80]}')
            cx.check(terminal and permit != 2, label='ValueError although the measurement is not terminal or terminal measurements are permitted')
            if bad:
                cx.check(False, label='twin')
            return
        cx.check(not (terminal and permit != 2), label='terminal measurement without permit_terminal_measurements=True must raise ValueError')
        psi0 = np.zeros((2, 2, 2), dtype=complex)
        psi0[0, 0, 0] = 1
        psi = sev_state(steps, psi0, pos).reshape(-1)
        for k, M in enumerate(mats):
            e = PA.expectation_sv(psi, M)
            cx.close(got[k], e + 0.01 if (bad and k == 0) else e, label=f'expectation value with a measurement in the circuit [observable {k}]')

    add(
        'expect.simulator_terminal_measurements',
        sev_measure_body,
        'permit_terminal_measurements of Simulator and DensityMatrixSimulator simulate_expectation_values / _sweep / _sweep_iter: a circuit X**x (SYMBOLIC resolver value), X, CNOT with a measurement of a qubit in a certain basis state that is terminal / followed by an operation on the same qubit / followed by a later moment on another qubit; argument absent / False / True: ValueError exactly for terminal measurements that are not permitted, otherwise the expectation values of [PauliSum, Z(q2)] (symbolic coefficients, permuted qubit_order) on the (unchanged) post-measurement state',
        points=SEV_PTS(6, **{'choose:simulator': [0, 1, 0, 1, 0, 1], 'choose:measurement': [0, 1, 2, 0, 2, 1], 'choose:permit': [2, 0, 1, 0, 2, 2], 'choose:entry': [0, 1, 2, 1, 2, 0]}),
        weight=6,
        expected=(ValueError,),
        opts={'max_paths': 40000},
    )
    return obs


class CertainOutcomePrng(np.random.RandomState):
    """generator handed to the simulators as `seed` where a measured qubit is in a basis state: `choice(n, p=probs)` returns the
    outcome whose probability is 1 and fails loudly for any other probability vector (no random choice is ever made)"""

    def __init__(self):
        super().__init__(0)

    def choice(self, a, size=None, replace=True, p=None):
        vals = []
        for e in np.asarray(p, dtype=object).reshape(-1):
            if hasattr(e, 'is_const'):
                if not e.is_const():
                    raise AssertionError('C14 harness: measurement with a symbolic outcome probability')
                e = e.const_value()
            vals.append(complex(e).real)
        hits = [i for i, v in enumerate(vals) if abs(v - 1) < 1e-9]
        if len(hits) != 1 or size is not None:
            raise AssertionError(f'C14 harness: measurement outcome is not certain (probabilities {vals})')
        return hits[0]


def normalised_state(cx, m, pair):
    """symbolic state on m wires, normalised BY CONSTRUCTION: (0.6+0.8i) cos(a) |b1> + e^{i pi b} sin(a) |b2> for two distinct
    basis states (b1, b2) = pair: a two-parameter family (a in radians, b in half turns) that is entangled for
    pairs differing in more than one bit."""
    a = cx.real('sa', -TBOX, TBOX)
    b = cx.real('sb', -2.0, 2.0)
    t = np.empty((2,) * m, dtype=object)
    t.reshape(-1)[:] = 0j
    t.reshape(-1)[pair[0]] = (0.6 + 0.8j) * _cos(a)  # fixed unit phase: no amplitude is syntactically real (abs() of a real symbolic
    # value is a sign-fork atom whose square the engine does not reduce; abs() of a complex one is sqrt(z z*))
    t.reshape(-1)[pair[1]] = D.ph(b) * _sin(a)
    if cx.mode == 'concrete':
        return t.astype(complex)
    from symx.proxy import wrap

    return wrap(t)


def _cos(x):
    from symx.snum import cos

    return cos(x)


def _sin(x):
    from symx.snum import sin

    return sin(x)


def _canon(cx, h):
    """documented canonicalisation of half turns into (-1, 1]"""
    if cx.mode == 'concrete':
        h = h % 2
        return h - 2 if h > 1 else h
    # symbolic: written from the documented definition (not a call of cirq.value.canonicalize_half_turns)
    r = h % 2
    return r - 2 if bool(r > 1) else r


LEVEL = (
    'Bounded symbolic execution of the real Pauli-string code, SMT-decided. Symbolic: complex coefficients (real and imaginary part), '
    'exponents of powers / phasors / exponentials, state-vector amplitudes and density-matrix entries, and (for _vectorized_pauli_mul_phase) '
    'the Pauli masks as solver integers. The Pauli letter on each qubit of a PauliString, the qubit order / qubit map and the Clifford '
    'conjugator are finite selectors that are exhausted (PauliString keeps gate objects in dicts, so letters cannot be solver variables): with '
    'respect to letters this is solver-driven bounded exhaustive exploration. z3 decides entry-wise agreement with matrices built in the '
    'harness by kron of the 2x2 Paulis, explicit products, C^dagger P C from documented gate matrices and explicit expectation sums. '
    'sparse_matrix() of strings and sums runs with symbolic coefficients on a documented-behaviour model of the scipy.sparse coo/csr containers; '
    'simulate_expectation_values / _sweep / _sweep_iter of Simulator and DensityMatrixSimulator run with symbolic resolver values, symbolic observable '
    'coefficients, non-default initial states (basis index, a symbolic two-parameter state vector), qubit orders and permit_terminal_measurements.'
)


def main(tier, seed=0, replay=None, only=None, procs=None):
    q = tier == 'quick'
    bounds = {
        'symbolic': 'complex coefficients (re, im in [-2, 2]); exponents / rotation angles in [-4, 4]; all state-vector amplitudes (re, im in [-1, 1]) and all entries of a Hermitian matrix handed in as density matrix; gate exponents t, u of the simulated circuit; Pauli masks of _vectorized_pauli_mul_phase as solver integers in 0..3',
        'enumerated_selectors': 'Pauli letter per qubit of every PauliString / DensePauliString (bounded exhaustive), qubit orders and qubit maps (all permutations), Clifford conjugator and placement, op-tree sequence and nesting, operand form (PauliString / mutable / dict / op list / nested list), mutability, integer powers',
        'sparse_matrices': 'PauliString.sparse_matrix: every letter tuple on registers of 1-4 qubits (0-4 Y factors), all qubit orders up to 3 qubits / 5 orders on 4, list / generator / default qubits, sub-register agreement with matrix(); symbolic complex coefficient. PauliSum.sparse_matrix / matrix: 2-3 terms on 2-4 qubits (P: all strings on 2-3 qubits, ' + ('10 strings' if q else 'all strings') + ' on 4; Q from 2-3 strings per size or equal to P on 2 qubits), 4 (order, idle qubit, number of terms) configurations, coefficients rho*w with symbolic rho in [0.25, 2]. scipy.sparse coo/csr containers are MODELLED for symbolic entries from the scipy documentation (symx/sparse_model.py: duplicates summed, row-major canonical order, scalar multiples, toarray); compared: csr format, shape and every entry of toarray()',
        'simulate_expectation_values': 'Simulator: 2- and 3-qubit circuits X**x, CNOT, ZPow(y), CZPow(u)[, H] with x, y resolved from one dict / ParamResolver or two resolvers (symbolic values in [-4,4]) and u directly symbolic; initial_state = basis index (2 per register size; x, y, u symbolic) or the symbolic normalised two-parameter family (0.6+0.8i) cos(a)|b1> + e^{i pi b} sin(a)|b2> for 2 pairs of basis states (as ndarray and inside a StateVectorSimulationState; x symbolic, y, u fixed, no H); qubit_order default / permuted / with an idle qubit; observables [PauliSum, PauliString], bare PauliString, bare PauliSum, [Z(q), P - Q] with symbolic real coefficients (|c| in [0.25, 2]), P from 3 qubit-asymmetric strings; entries simulate_expectation_values, _sweep, _sweep_iter. DensityMatrixSimulator: the 2-qubit circuit with bit_flip(0.25) (mixed state), basis-index initial states, x (two resolvers) and u symbolic, P from 2 strings. permit_terminal_measurements: 3-qubit circuit with a measurement of a qubit in a certain basis state (terminal / not terminal / terminal with a later moment elsewhere) x argument absent / False / True x 3 entry points x 2 simulators. Expected values: explicit <psi|O|psi> / mixture sums over documented matrices applied to the initial state in register order',
        'qubits': {'matrix/relabel': 3 if q else 4, 'binary laws (products, commutes, mutable)': 2 if q else 3, 'conjugation': 2 if q else 3, 'dense lengths': '1..2' if q else '1..3', 'expectation states': 2 if q else 3, 'phasors': 2 if q else 3, 'sums / exponentials': 2},
        'clifford_menu': 'all 24 single-qubit Cliffords (from_xz_map), H, S, S**-1, X**+-0.5, Y**+-0.5, X, Y, Z, CZ, CNOT, CY, SWAP, ISWAP, ISWAP**-1, XX**0.5, YY**0.5, ZZ**-0.5; every placement; op trees: all sequences of 3 from ' + ('6 (third from 3)' if q else '8') + ' placed non-commuting Cliffords, flat and nested lists',
        'pauli_sum_coefficients': 'rho*w with symbolic real rho in [-2,2] (>= 0.25 outside sum.add_sub) and fixed unit complex directions w (0.6+0.8i, -0.6-0.8i, i, 0.8-0.6i' + ('' if q else '; second set 1, i, -0.28+0.96i, -i outside sum.add_sub') + '); in products exactly one operand is symbolic, its partner has fixed complex coefficients (both roles run); sums of <= 3 terms; P over ' + ('5' if q else '16') + ' strings, Q over 5 strings or equal to P',
        'unit_coefficients': 'PauliString.__pow__ with real exponent needs cmath.polar of the coefficient: coefficient from (1,-1,i,-i), exponent symbolic; unitary/decompose/apply_unitary with symbolic unit coefficient exp(i pi t)',
        'sum_exponential': 'two commuting/non-commuting terms; rotation angle linear in one symbolic quantity: symbolic coefficients (|c| >= 0.25, both signs; exponent default 1 or -0.5) or symbolic exponent (coefficients 0.75, -1.25); Hermitian and anti-Hermitian',
        'power_convention': '(cP)**t := c**t P**t with c**t = exp(i t Arg c) and P**t = P+ + e^{i pi t} P- (Cirq\'s documented Pauli power); equals the matrix power for every integer t',
        'mutable_spec': 'inplace_left_multiply_by == self*other (the immutable product PauliString.__mul__ is built on), inplace_right_multiply_by and *= == other*self; the method names / docstrings say the opposite (reported, naming only)',
        'tolerance': 1e-7,
        'decomposition_tolerance': DECOMP_TOL,
        'outside': [
            'letters as solver variables (PauliString stores gate objects in dicts)',
            'fully symbolic complex coefficients inside PauliSum / LinearDict (abs() and == 0 tests yield sqrt(re^2+im^2) atoms in every path condition; z3 does not decide them in time): replaced by symbolic magnitude on fixed complex directions',
            'PauliString.__pow__ / __rpow__ with symbolic coefficient modulus or symbolic base (cmath.polar, math.log of symbolic values)',
            'np.exp(PauliString) spelling (selected by `ufunc == np.exp`, the shimmed np is not that ufunc object); `math.e ** P` is the same code and is run',
            'validation of states (check_preconditions=True: norm / eigenvalue tests via sqrt and LAPACK) - kernels are reached through the public methods with check_preconditions=False; simulate_expectation_values uses the default validation on states normalised by construction',
            'the positive-semidefiniteness test inside expectation_from_density_matrix (numpy.linalg.eigvalsh): over-approximated by unconstrained ordered eigenvalue variables with sum = trace (symx/eigvalsh_model.py); both outcomes are explored, its ValueError is a declared expected outcome in symbolic mode and a failure on the concrete validation points (real LAPACK), so "a valid density matrix is never rejected by the PSD test" is not decided symbolically',
            'DensityMatrixSimulator.simulate_expectation_values with a symbolic initial state vector / density matrix (the Hermiticity / trace / norm validation conditions over sqrt atoms are not decided by z3 in reasonable time): basis-index initial states only; fully general symbolic initial vectors for cirq.Simulator (two-parameter superpositions of two basis states instead; with them only one resolver value is symbolic)',
            'stored structure (nnz, explicit zeros, eliminate_zeros) of sparse results with symbolic coefficients: only format, shape and the dense values are compared; aliasing of caller arrays is decided on the concrete validation points only (the object-array proxies copy)',
            'measurements with uncertain outcome inside simulate_expectation_values (the measured qubit is in a basis state; a generator that only accepts probability-1 outcomes is handed in as seed)',
            'PauliSumExponential.matrix() beyond finding.sum_exponential_matrix (open defect); exponentials are compared as the product of the factors they iterate',
            'zero-qubit PauliStringPhasor(cirq.PauliString(), exponent_pos=u) without explicit qubits: decomposes to [] (its global phase e^{i pi u} is lost; reported, left open)',
            'from_boolean_expression (sympy), ProjectorString/ProjectorSum, PauliMeasurementGate, PauliInteractionGate (C03), work/observable_* grouping and measurement, pauli_string_decomposition.unitary_to_pauli_string, LinearCombinationOfGates/Operations, qubit counts beyond those listed, complex64',
        ],
    }
    return run_check(PID, tier, 'checks.C14', SHIMS, LEVEL, BASE_ASSUMPTIONS, bounds, seed=seed, replay=replay, only=only, procs=procs)

"""C16: Quantum Engine wire formats.

Bit part (this file): cirq_google.api.v2.results pack_bits / unpack_bits / results_to_proto / results_from_proto,
cirq_google.api.v1.programs pack_results / unpack_results and api.v2.ndarrays to_bitarray / from_bitarray, executed on SYMBOLIC bits and bytes.
Message part (checks/C16_msgs.py): program / sweep / run-context / device round trips on the pure-Python protobuf
backend, whose type checkers are interposed so that symbolic scalars are stored in the real message classes.
"""
from __future__ import annotations

import sys

from checks import C16_msgs as MSG  # first: selects the pure-Python protobuf backend before protobuf is imported

import numpy as np

from symx.bitmodel import BitArray, SByte, SymBytes, byte_bit, byte_items, truth
from symx.explore import Obligation
from symx.run import run_check
from symx.sint import SBool, SInt

PID = 'C16'

SHIMS: list = list(MSG.SHIMS)  # generic shims for the message part; the bit part only installs the bit model below
BIT_MODULES = ['cirq_google.api.v2.results', 'cirq_google.api.v1.programs', 'cirq_google.api.v2.ndarrays']


def worker_setup():
    from symx import bitmodel

    return list(bitmodel.install(BIT_MODULES)) + list(MSG.worker_setup())


# --------------------------------------------------------------------------------------------------
# mode-agnostic helpers (symbolic: SBool / SInt;  concrete: bool / int)
# --------------------------------------------------------------------------------------------------
_CONC = (bool, np.bool_, int, np.integer)


def EQ(a, b):
    ca, cb = isinstance(a, _CONC), isinstance(b, _CONC)
    if ca and cb:
        return bool(a == b)
    if isinstance(a, SBool) or isinstance(b, SBool):  # truth values; 0/1 integers count as bits
        return truth(a) == truth(b)
    if ca:
        a, b = b, a
    return a == b


def NOT(b):
    if isinstance(b, _CONC):
        return not b
    return ~b


def AND(conds):
    acc = True
    for c in conds:
        if isinstance(c, _CONC):
            if not c:
                return False
            continue
        acc = c if acc is True else (acc & c)
    return acc


def sym_bits(cx, shape, prefix):
    """array of fresh symbolic bits (concrete mode: a real bool array)"""
    shape = tuple(shape)
    arr = np.zeros(shape, dtype=bool) if cx.mode == 'concrete' else np.empty(shape, dtype=object)
    for idx in np.ndindex(*shape):
        arr[idx] = cx.bool(prefix + '_'.join(str(i) for i in idx))
    return arr


def sym_bytes(cx, n, prefix):
    """byte string of n ARBITRARY bytes: each byte is 8 fresh symbolic binary digits (digit k has value 2**k),
    i.e. every value in [0, 255] is covered by exactly one assignment"""
    digits = [[cx.bool(f'{prefix}{j}_{k}') for k in range(8)] for j in range(n)]
    if cx.mode == 'concrete':
        return bytes(sum(int(b) << k for k, b in enumerate(d)) for d in digits)
    return SymBytes(SByte(d) for d in digits)


def bit_of(byte, i):
    """truth value of bit i (the binary digit of value 2**i) of a byte"""
    return byte_bit(byte, i)


def BYTE_EQ(a, b, flip_low_bit=False):
    conds = []
    for k in range(8):
        e = bit_of(b, k)
        if flip_low_bit and k == 0:
            e = NOT(e)
        conds.append(EQ(bit_of(a, k), e))
    return AND(conds)


def byte_env(prefix, j, value):
    return {f'{prefix}{j}_{k}': bool((value >> k) & 1) for k in range(8)}


# ---- documented layouts (oracles) ------------------------------------------------------------------
# result.proto, QubitMeasurementResult.results: "2. This list is broken up into blocks of 8 bits, with the
# final block potentially not being a full 8 bits. 3. Each of the blocks of 8 bits is encoded into a byte,
# using little endian notation. That is, the least significant bit of the byte is the first bit of the bit
# string, the second-least significant bit of the byte is the second bit of the bit string, etc."
def doc_packed_conds(data, bits, big_endian=False):
    """conditions saying `data` is the documented packing of the bit list `bits` (unused bits zero)"""
    items = byte_items(data)
    n = len(bits)
    conds = [len(items) == (n + 7) // 8]
    if not conds[0]:
        return conds
    for j, byte in enumerate(items):
        for i in range(8):
            k = 8 * j + i
            pos = 7 - i if big_endian else i
            conds.append(EQ(bit_of(byte, pos), bits[k] if k < n else False))
    return conds


def doc_unpacked_bit(items, k, big_endian=False):
    """bit k of the bit string that the byte list encodes"""
    return bit_of(items[k // 8], (7 - k % 8) if big_endian else (k % 8))


def lcg_bits(seed, n):
    out, x = [], (seed * 2654435761 + 12345) & 0xFFFFFFFF
    for _ in range(n):
        x = (x * 1103515245 + 12345) & 0x7FFFFFFF
        out.append(bool((x >> 16) & 1))
    return out


def chunks(lo, hi, k):
    """split range(lo, hi+1) into <= k contiguous chunks balanced by sum of sizes (cost ~ n)"""
    vals = list(range(lo, hi + 1))
    if not vals:
        return []
    total = sum(v + 1 for v in vals)
    out, cur, acc = [], [], 0
    for v in vals:
        cur.append(v)
        acc += v + 1
        if acc >= total / k and len(out) < k - 1:
            out.append(cur)
            cur, acc = [], 0
    if cur:
        out.append(cur)
    return out


# --------------------------------------------------------------------------------------------------
# plain-Python stand-ins for the protobuf result messages (symbolic mode only)
# --------------------------------------------------------------------------------------------------
class _Repeated(list):
    def __init__(self, factory):
        super().__init__()
        self._factory = factory

    def add(self):
        m = self._factory()
        self.append(m)
        return m


class _Qubit:
    def __init__(self):
        self.id = ''


class _QMR:
    def __init__(self):
        self.qubit = _Qubit()
        self.results = b''


class _MR:
    def __init__(self):
        self.key = ''
        self.instances = 0
        self.qubit_measurement_results = _Repeated(_QMR)


class _ParamDict:
    def __init__(self):
        self.assignments = {}


class _PR:
    def __init__(self):
        self.params = _ParamDict()
        self.measurement_results = _Repeated(_MR)


class _SR:
    def __init__(self):
        self.repetitions = 0
        self.parameterized_results = _Repeated(_PR)


class _ResultMsg:
    """field-for-field stand-in of cirq_google.api.v2.result_pb2.Result (proto3 defaults)"""

    def __init__(self):
        self.sweep_results = _Repeated(_SR)


class _BitArrayMsg:
    """stand-in of cirq_google.api.v2.ndarrays_pb2.BitArray: repeated uint32 shape, bytes flat_bytes"""

    def __init__(self):
        self.shape = []
        self.flat_bytes = b''


def new_bitarray_msg(cx):
    if cx.mode == 'concrete':
        from cirq_google.api.v2 import ndarrays_pb2

        return ndarrays_pb2.BitArray()
    return _BitArrayMsg()


def bitarray_through_wire(cx, msg):
    if cx.mode == 'concrete':
        from cirq_google.api.v2 import ndarrays_pb2

        return ndarrays_pb2.BitArray.FromString(msg.SerializeToString())
    return msg


def new_result_msg(cx):
    if cx.mode == 'concrete':
        from cirq_google.api.v2 import result_pb2

        return result_pb2.Result()
    return _ResultMsg()


def through_wire(cx, msg):
    """concrete mode (validation points, replays): additionally pass through the real wire encoding"""
    if cx.mode == 'concrete':
        from cirq_google.api.v2 import result_pb2

        return result_pb2.Result.FromString(msg.SerializeToString())
    return msg


# measurement layouts: (key, [(row, col) in measurement order], instances)
LAYOUTS = {
    'one': [('m', [(0, 0)], 1)],
    'two_keys': [('a', [(0, 0), (0, 1)], 1), ('b', [(1, 1)], 2)],
    'unsorted3x3': [('z', [(2, 3), (0, 1), (1, 1)], 3)],
    'shared': [('k', [(0, 0), (1, 0)], 2), ('j', [(5, 5)], 1), ('i', [(0, 1), (0, 0)], 1)],
    'wide': [('w', [(0, 4), (0, 3), (0, 2), (0, 1), (0, 0)], 1)],
}
# (number of sweeps, trial results per sweep)
STRUCTS = [(1, 1), (2, 1), (1, 2)]


def layout_measure_infos(layout):
    """MeasureInfo list obtained the public way: find_measurements on a circuit with these measurements"""
    import cirq
    from cirq_google.api.v2 import results as R

    c = cirq.Circuit()
    for key, qs, inst in layout:
        for _ in range(inst):
            c.append(cirq.Moment([cirq.measure(*[cirq.GridQubit(r, q) for r, q in qs], key=key)]))
    infos = R.find_measurements(c)
    assert [(m.key, [(q.row, q.col) for q in m.qubits], m.instances) for m in infos] == [(k, list(q), i) for k, q, i in layout]
    return infos


def obligations(tier):
    import cirq
    from cirq_google.api.v1 import programs as P1
    from cirq_google.api.v2 import results as R

    from cirq_google.api.v2 import ndarrays as ND

    quick = tier == 'quick'
    NMAX = 72 if quick else 264
    LMAX = 9 if quick else 33  # bytes
    NCH = 4 if quick else 12
    obs = []

    def pts_bits(ns, prefix='b'):
        pts = []
        for n in ns:
            if n <= NMAX:
                env = {f'{prefix}{i}': v for i, v in enumerate(lcg_bits(n, n))}
                env['choose:n'] = n
                pts.append(env)
        return pts

    # ---- (1) pack_bits: documented byte layout ------------------------------------------------------
    def mk_pack_layout(ns):
        def body(cx, wrong=False):
            n = ns[cx.choose('n', len(ns))]
            bits = sym_bits(cx, (n,), 'b')
            data = R.pack_bits(bits)
            cx.check(AND(doc_packed_conds(data, list(bits), big_endian=wrong)), label=f'pack_bits layout n={n}')

        pts = [dict(e, **{'choose:n': ns.index(e['choose:n'])}) for e in pts_bits([n for n in (0, 1, 7, 8, 9, 13, 16, 33, 64, 127) if n in ns])]
        return Obligation(
            f'v2.pack_bits.layout[n={ns[0]}..{ns[-1]}]',
            body,
            twin=lambda cx: body(cx, wrong=True),
            points=pts,
            desc='pack_bits(b) for n symbolic bits: ceil(n/8) bytes, bit i of byte j is b[8j+i] (result.proto: little endian), unused bits are zero',
        )

    # ---- (2) unpack_bits: arbitrary bytes, symbolic repetition count -----------------------------------
    def mk_unpack_layout(Ls):
        def body(cx, wrong=False):
            L = Ls[cx.choose('L', len(Ls))]
            data = sym_bytes(cx, L, 'd')
            reps = cx.int('reps', 0, 8 * L)
            out = R.unpack_bits(data, reps)
            items = byte_items(data)
            m = len(out)
            conds = [EQ(m, reps)]
            for k in range(m):
                conds.append(EQ(out[k], doc_unpacked_bit(items, k, big_endian=wrong)))
            cx.check(AND(conds), label=f'unpack_bits layout L={L}')

        pts = []
        for i, L in enumerate(Ls):
            for r in sorted({0, min(3, 8 * L), 8 * L}):
                env = {'choose:L': i, 'reps': r}
                for j in range(L):
                    env.update(byte_env('d', j, (37 * j + 11 * r + 5) % 256))
                pts.append(env)
        return Obligation(
            f'v2.unpack_bits.layout[bytes={Ls[0]}..{Ls[-1]}]',
            body,
            twin=lambda cx: body(cx, wrong=True),
            points=pts,
            opts={'int_fork_limit': 4096, 'weight': Ls[-1] + 1},
            desc=f'unpack_bits(data, reps) for L in {Ls} ARBITRARY symbolic bytes and symbolic reps in [0, 8L]: exactly reps bits, bit k is bit (k mod 8) of byte k//8',
        )

    # ---- (3) unpack_bits(pack_bits(b), n) == b ----------------------------------------------------------
    def mk_roundtrip_bits(ns):
        def body(cx, wrong=False):
            n = ns[cx.choose('n', len(ns))]
            bits = sym_bits(cx, (n,), 'b')
            out = R.unpack_bits(R.pack_bits(bits), n)
            conds = [len(out) == n]
            if conds[0]:
                for k in range(n):
                    exp = bits[k]
                    if wrong and k == n - 1:
                        exp = NOT(exp)
                    conds.append(EQ(out[k], exp))
            cx.check(AND(conds), label=f'unpack_bits(pack_bits(b), n) == b  n={n}')

        pts = [dict(e, **{'choose:n': ns.index(e['choose:n'])}) for e in pts_bits([n for n in (0, 1, 7, 8, 9, 15, 17, 40, 65, 130) if n in ns])]
        return Obligation(
            f'v2.roundtrip.unpack_pack[n={ns[0]}..{ns[-1]}]',
            body,
            twin=lambda cx: body(cx, wrong=True),
            points=pts,
            desc='unpack_bits(pack_bits(b), n) == b for n symbolic bits',
        )

    # ---- (4) pack_bits(unpack_bits(d, 8L)) == d ------------------------------------------------------------
    def mk_roundtrip_bytes(Ls):
        def body(cx, wrong=False):
            L = Ls[cx.choose('L', len(Ls))]
            data = sym_bytes(cx, L, 'd')
            back = byte_items(R.pack_bits(R.unpack_bits(data, 8 * L)))
            items = byte_items(data)
            conds = [len(back) == L]
            if conds[0]:
                for j in range(L):
                    conds.append(BYTE_EQ(back[j], items[j], flip_low_bit=wrong and j == L - 1))
            cx.check(AND(conds), label=f'pack_bits(unpack_bits(d, 8L)) == d  L={L}')

        pts = []
        for i, L in enumerate(Ls):
            if i % 3 == 0:
                env = {'choose:L': i}
                for j in range(L):
                    env.update(byte_env('d', j, (91 * j + 7) % 256))
                pts.append(env)
        return Obligation(
            f'v2.roundtrip.pack_unpack[bytes={Ls[0]}..{Ls[-1]}]',
            body,
            twin=lambda cx: body(cx, wrong=True),
            points=pts,
            desc='pack_bits(unpack_bits(d, 8L)) == d for L arbitrary symbolic bytes',
        )

    for ns in chunks(0, NMAX, NCH):
        obs.append(mk_pack_layout(ns))
        obs.append(mk_roundtrip_bits(ns))
    obs.append(mk_unpack_layout([0, 1]))
    for L in range(2, LMAX + 1):
        obs.append(mk_unpack_layout([L]))
    for Ls in chunks(0, LMAX, 2 if quick else 4):
        obs.append(mk_roundtrip_bytes(Ls))

    # ---- (5..7) result messages -------------------------------------------------------------------------
    REPS = [1, 2, 3, 7, 8, 9] if quick else [1, 2, 3, 5, 7, 8, 9, 12, 15, 16, 17, 20, 31, 33, 64]
    LAYOUT_NAMES = ['one', 'two_keys', 'unsorted3x3', 'shared'] if quick else list(LAYOUTS)

    def build_results(cx, layout, S, T, reps0):
        """trial_sweeps[s][t] = ResultDict with symbolic records and one symbolic real parameter"""
        sweeps, meta = [], []
        for s in range(S):
            reps = reps0 + s  # different sweeps have different repetition counts
            row, mrow = [], []
            for t in range(T):
                recs = {key: sym_bits(cx, (reps, inst, len(qs)), f'r{s}{t}{key}_') for key, qs, inst in layout}
                p = cx.real(f'p{s}{t}', -4.0, 4.0)
                row.append(cirq.ResultDict(params=cirq.ParamResolver({'theta': p}), records=recs))
                mrow.append((reps, recs, p))
            sweeps.append(row)
            meta.append(mrow)
        return sweeps, meta

    def mk_to_proto(lname):
        layout = LAYOUTS[lname]

        def body(cx, wrong=False):
            S, T = STRUCTS[cx.choose('struct', len(STRUCTS))]
            reps0 = REPS[cx.choose('reps', len(REPS))]
            infos = layout_measure_infos(layout)
            sweeps, meta = build_results(cx, layout, S, T, reps0)
            msg = R.results_to_proto(sweeps, infos, out=new_result_msg(cx))
            msg = through_wire(cx, msg)
            conds = [len(msg.sweep_results) == S]
            got_p, exp_p = [], []
            for s in range(S if conds[0] else 0):
                sr = msg.sweep_results[s]
                conds.append(len(sr.parameterized_results) == T)
                if not conds[-1]:
                    break
                for t in range(T):
                    reps, recs, p = meta[s][t]
                    conds.append(sr.repetitions == reps)
                    pr = sr.parameterized_results[t]
                    conds.append(sorted(pr.params.assignments) == ['theta'])
                    got_p.append(pr.params.assignments.get('theta', 0.0))
                    exp_p.append(p)
                    conds.append(len(pr.measurement_results) == len(layout))
                    if not conds[-1]:
                        break
                    for mi, (key, qs, inst) in enumerate(layout):
                        mr = pr.measurement_results[mi]
                        conds.append(mr.key == key)
                        conds.append(mr.instances == inst)
                        conds.append(len(mr.qubit_measurement_results) == len(qs))
                        if not conds[-1]:
                            break
                        for qi, (r_, c_) in enumerate(qs):
                            qmr = mr.qubit_measurement_results[qi]
                            conds.append(qmr.qubit.id == f'{r_}_{c_}')
                            # "a list of bits ordered by the round of repetition and instance within a round"
                            stream = [recs[key][rep, j, qi] for rep in range(reps) for j in range(inst)]
                            conds.extend(doc_packed_conds(qmr.results, stream, big_endian=wrong))
            cx.check(AND(conds), label=f'results_to_proto[{lname}] structure and packed bits')
            cx.close(got_p, exp_p, tol=1e-6, label=f'results_to_proto[{lname}] params')

        return Obligation(
            f'v2.results_to_proto[{lname}]',
            body,
            twin=lambda cx: body(cx, wrong=True),
            points=_msg_points(layout, 'to'),
            opts={'weight': 8},
            desc=f'results_to_proto on ResultDicts whose record bits are symbolic (layout {layout}, sweeps x trials in {STRUCTS}, reps in {REPS}): message fields and per-qubit byte strings follow result.proto',
        )

    PERMS = ['identity', 'reversed', 'rotated']

    def perm_of(kind, n):
        idx = list(range(n))
        if kind == 'reversed':
            return idx[::-1]
        if kind == 'rotated':
            return idx[1:] + idx[:1]
        return idx

    def mk_from_proto(lname):
        layout = LAYOUTS[lname]

        def body(cx, wrong=False):
            S, T = STRUCTS[cx.choose('struct', len(STRUCTS))]
            reps0 = REPS[cx.choose('reps', len(REPS))]
            perm_kind = PERMS[cx.choose('msg_qubit_order', len(PERMS))]
            with_infos = cx.choose('measurements_given', 2) == 1
            legacy_instances = cx.choose('instances_field_unset', 2) == 1  # old messages: instances = 0 means 1
            infos = layout_measure_infos(layout)
            msg = new_result_msg(cx)
            meta = []
            for s in range(S):
                reps = reps0 + s
                sr = msg.sweep_results.add()
                sr.repetitions = reps
                mrow = []
                for t in range(T):
                    pr = sr.parameterized_results.add()
                    p = cx.real(f'p{s}{t}', -4.0, 4.0)
                    pr.params.assignments['theta'] = p
                    datas = {}
                    for key, qs, inst in layout:
                        mr = pr.measurement_results.add()
                        mr.key = key
                        mr.instances = 0 if (legacy_instances and inst == 1) else inst
                        perm = perm_of(perm_kind, len(qs))
                        nbytes = (reps * inst + 7) // 8
                        for qi in perm:
                            qmr = mr.qubit_measurement_results.add()
                            qmr.qubit.id = f'{qs[qi][0]}_{qs[qi][1]}'
                            d = sym_bytes(cx, nbytes, f'd{s}{t}{key}{qi}_')
                            qmr.results = d
                            datas[(key, qi)] = d
                    mrow.append((reps, datas, p))
                meta.append(mrow)
            msg = through_wire(cx, msg)
            out = R.results_from_proto(msg, infos if with_infos else None)
            conds = [len(out) == S]
            got_p, exp_p = [], []
            for s in range(S if conds[0] else 0):
                conds.append(len(out[s]) == T)
                if not conds[-1]:
                    break
                for t in range(T):
                    reps, datas, p = meta[s][t]
                    res = out[s][t]
                    conds.append(sorted(res.params.param_dict) == ['theta'])
                    got_p.append(res.params.param_dict.get('theta', 0.0))
                    exp_p.append(p)
                    conds.append(list(res.records) == [k for k, _, _ in layout])
                    if not conds[-1]:
                        break
                    for key, qs, inst in layout:
                        rec = res.records[key]
                        conds.append(tuple(rec.shape) == (reps, inst, len(qs)))
                        if not conds[-1]:
                            break
                        perm = perm_of(perm_kind, len(qs))
                        for col in range(len(qs)):
                            # with measurements: column order = measurement's qubit order; without: message order
                            qi = col if with_infos else perm[col]
                            items = byte_items(datas[(key, qi)])
                            for rep in range(reps):
                                for j in range(inst):
                                    conds.append(EQ(rec[rep, j, col], doc_unpacked_bit(items, rep * inst + j, big_endian=wrong)))
            cx.check(AND(conds), label=f'results_from_proto[{lname}] records')
            cx.close(got_p, exp_p, tol=1e-6, label=f'results_from_proto[{lname}] params')

        return Obligation(
            f'v2.results_from_proto[{lname}]',
            body,
            twin=lambda cx: body(cx, wrong=True),
            points=_msg_points(layout, 'from'),
            opts={'weight': 10, 'max_paths': 50000},
            desc=f'results_from_proto on a message whose result bytes are ARBITRARY symbolic bytes (layout {layout}; message qubit order {PERMS}; with/without MeasureInfo; instances field unset): records[key][rep, inst, qubit] is bit rep*instances+inst of that qubit\'s bytes',
        )

    def mk_msg_roundtrip(lname):
        layout = LAYOUTS[lname]

        def body(cx, wrong=False):
            S, T = STRUCTS[cx.choose('struct', len(STRUCTS))]
            reps0 = REPS[cx.choose('reps', len(REPS))]
            with_infos = cx.choose('measurements_given', 2) == 1
            infos = layout_measure_infos(layout)
            sweeps, meta = build_results(cx, layout, S, T, reps0)
            msg = through_wire(cx, R.results_to_proto(sweeps, infos, out=new_result_msg(cx)))
            out = R.results_from_proto(msg, infos if with_infos else None)
            conds = [len(out) == S]
            got_p, exp_p = [], []
            first = True
            for s in range(S if conds[0] else 0):
                conds.append(len(out[s]) == T)
                if not conds[-1]:
                    break
                for t in range(T):
                    reps, recs, p = meta[s][t]
                    res = out[s][t]
                    got_p.append(res.params.param_dict.get('theta', 0.0))
                    exp_p.append(p)
                    conds.append(list(res.records) == [k for k, _, _ in layout])
                    if not conds[-1]:
                        break
                    for key, qs, inst in layout:
                        rec = res.records[key]
                        conds.append(tuple(rec.shape) == (reps, inst, len(qs)))
                        if not conds[-1]:
                            break
                        for idx in np.ndindex(reps, inst, len(qs)):
                            exp = recs[key][idx]
                            if wrong and first:
                                exp, first = NOT(exp), False
                            conds.append(EQ(rec[idx], exp))
            cx.check(AND(conds), label=f'results_from_proto(results_to_proto(r)) == r [{lname}]')
            cx.close(got_p, exp_p, tol=1e-6, label=f'results roundtrip[{lname}] params')

        return Obligation(
            f'v2.results.roundtrip[{lname}]',
            body,
            twin=lambda cx: body(cx, wrong=True),
            points=_msg_points(layout, 'rt'),
            opts={'weight': 9},
            desc='results_from_proto(results_to_proto(r, m), m or None) returns the same record bits and parameters (symbolic bits, repeated keys, several sweeps)',
        )

    def _msg_points(layout, kind):
        # concrete validation points through the REAL protobuf messages and wire encoding
        pts = []
        for st in range(len(STRUCTS)):
            for ri in (0, len(REPS) - 1, len(REPS) // 2):
                env = {'choose:struct': st, 'choose:reps': ri, 'choose:measurements_given': (st + ri) % 2, 'choose:msg_qubit_order': (st + ri) % 3}
                S, T = STRUCTS[st]
                for s in range(S):
                    reps = REPS[ri] + s
                    for t in range(T):
                        env[f'p{s}{t}'] = [0.25, -1.5, 3.0, 0.125][(s + 2 * t + ri) % 4]  # exactly representable in float32 (real message stores floats)
                        for key, qs, inst in layout:
                            if kind == 'from':
                                for qi in range(len(qs)):
                                    for j in range((reps * inst + 7) // 8):
                                        env.update(byte_env(f'd{s}{t}{key}{qi}_', j, (53 * j + 17 * qi + 29 * s + 7 * t + 3) % 256))
                            else:
                                vals = lcg_bits(7 * s + 3 * t + len(key) + ri, reps * inst * len(qs))
                                for n_, idx in enumerate(np.ndindex(reps, inst, len(qs))):
                                    env[f'r{s}{t}{key}_' + '_'.join(str(i) for i in idx)] = vals[n_]
                pts.append(env)
        return pts

    for lname in LAYOUT_NAMES:
        obs.append(mk_to_proto(lname))
        obs.append(mk_from_proto(lname))
        obs.append(mk_msg_roundtrip(lname))

    # ---- (8) v1 result packing ---------------------------------------------------------------------------
    KEYSETS = {
        'a1': [('a', 1)],
        'a2b3': [('a', 2), ('b', 3)],
        'x3y1z4': [('x', 3), ('y', 1), ('z', 4)],
        'q5': [('q', 5)],
    }
    V1REPS = [1, 2, 3, 4, 5, 8] if quick else [1, 2, 3, 4, 5, 7, 8, 9, 11, 13, 16, 24, 33]

    def mk_v1(kname):
        keys = KEYSETS[kname]
        per_rep = sum(sz for _, sz in keys)

        def stream_of(datas, reps):
            # unpack_results docstring: "<rep0><rep1>... where each repetition is <key0_0>..<key0_{size0-1}><key1_0>..."
            return [datas[k][rep, q] for rep in range(reps) for k, sz in keys for q in range(sz)]

        def body_pack(cx, wrong=False):
            reps = V1REPS[cx.choose('reps', len(V1REPS))]
            datas = {k: sym_bits(cx, (reps, sz), f'm{k}_') for k, sz in keys}
            data = P1.pack_results([(k, datas[k]) for k, _ in keys])
            cx.check(AND(doc_packed_conds(data, stream_of(datas, reps), big_endian=wrong)), label=f'v1 pack_results[{kname}] layout')
            back = P1.unpack_results(data, reps, keys)
            conds = [list(back) == [k for k, _ in keys]]
            for k, sz in keys if conds[0] else []:
                conds.append(tuple(back[k].shape) == (reps, sz))
                if not conds[-1]:
                    break
                for idx in np.ndindex(reps, sz):
                    conds.append(EQ(back[k][idx], datas[k][idx]))
            cx.check(AND(conds), label=f'v1 unpack_results(pack_results(m)) == m [{kname}]')

        def body_unpack(cx, wrong=False):
            reps = V1REPS[cx.choose('reps', len(V1REPS))]
            nbytes = (reps * per_rep + 7) // 8
            data = sym_bytes(cx, nbytes, 'd')
            items = byte_items(data)
            out = P1.unpack_results(data, reps, keys)
            conds = [list(out) == [k for k, _ in keys]]
            ofs = 0
            for k, sz in keys if conds[0] else []:
                conds.append(tuple(out[k].shape) == (reps, sz))
                if not conds[-1]:
                    break
                for rep in range(reps):
                    for q in range(sz):
                        conds.append(EQ(out[k][rep, q], doc_unpacked_bit(items, rep * per_rep + ofs + q, big_endian=wrong)))
                ofs += sz
            cx.check(AND(conds), label=f'v1 unpack_results[{kname}] layout')

        def pts_pack():
            pts = []
            for ri in (0, len(V1REPS) - 1):
                env = {'choose:reps': ri}
                for k, sz in keys:
                    vals = lcg_bits(ri + sz, V1REPS[ri] * sz)
                    for n_, idx in enumerate(np.ndindex(V1REPS[ri], sz)):
                        env[f'm{k}_' + '_'.join(str(i) for i in idx)] = vals[n_]
                pts.append(env)
            return pts

        def pts_unpack():
            pts = []
            for ri in (0, len(V1REPS) - 1):
                env = {'choose:reps': ri}
                for j in range((V1REPS[ri] * per_rep + 7) // 8):
                    env.update(byte_env('d', j, (101 * j + 13 * ri + 1) % 256))
                pts.append(env)
            return pts

        return [
            Obligation(
                f'v1.pack_results[{kname}]',
                body_pack,
                expected=(),
                twin=lambda cx: body_pack(cx, wrong=True),
                points=pts_pack(),
                opts={'weight': 3},
                desc=f'api.v1 pack_results on symbolic (reps, size) bit arrays for keys {keys}: documented <rep0><rep1>.. little-endian stream, and unpack_results inverts it',
            ),
            Obligation(
                f'v1.unpack_results[{kname}]',
                body_unpack,
                twin=lambda cx: body_unpack(cx, wrong=True),
                points=pts_unpack(),
                opts={'weight': 3},
                desc=f'api.v1 unpack_results on ARBITRARY symbolic bytes for keys {keys}: result[key][rep, q] is bit rep*bits_per_rep+offset(key)+q of the stream',
            ),
        ]

    for kname in KEYSETS:
        obs.extend(mk_v1(kname))

    # ---- (9) api.v2.ndarrays BitArray messages ---------------------------------------------------------------
    # ndarrays.proto: "They are packed into bytes, in big-endian bit order and therefore will consume
    # ceil(product(shape) / 8) bytes. [array[0] is bit index 7 of byte 0] unused bits will be zeroed out"
    SHAPES = [(n,) for n in ((1, 2, 7, 8, 9, 12, 16, 17, 31) if quick else (1, 2, 3, 5, 7, 8, 9, 12, 15, 16, 17, 24, 31, 33, 64, 65, 100))]
    SHAPES += [(2, 3), (3, 3), (1, 9), (4, 4), (2, 2, 3), (5, 4)] + ([] if quick else [(3, 5, 2), (8, 8), (7, 9), (2, 2, 2, 3), (9, 1), (13, 7)])

    def mk_bitarray():
        def body_to(cx, wrong=False):
            shape = SHAPES[cx.choose('shape', len(SHAPES))]
            arr = sym_bits(cx, shape, 'a')
            if cx.mode != 'concrete':
                arr = arr.view(BitArray)  # the validation `array == 0` must stay element-wise symbolic
            msg = bitarray_through_wire(cx, ND.to_bitarray(arr, out=new_bitarray_msg(cx)))
            flat = [arr[idx] for idx in np.ndindex(*shape)]  # C order
            conds = [list(msg.shape) == list(shape)]
            conds.extend(doc_packed_conds(msg.flat_bytes, flat, big_endian=not wrong))
            cx.check(AND(conds), label=f'to_bitarray shape={shape}')
            back = ND.from_bitarray(msg)
            conds = [tuple(back.shape) == tuple(shape)]
            if conds[0]:
                for idx in np.ndindex(*shape):
                    conds.append(EQ(back[idx], arr[idx]))
            cx.check(AND(conds), label=f'from_bitarray(to_bitarray(a)) == a shape={shape}')

        def body_from(cx, wrong=False):
            shape = SHAPES[cx.choose('shape', len(SHAPES))]
            total = int(np.prod(shape))
            data = sym_bytes(cx, (total + 7) // 8, 'd')
            msg = new_bitarray_msg(cx)
            msg.shape[:] = list(shape)
            msg.flat_bytes = data
            out = ND.from_bitarray(bitarray_through_wire(cx, msg))
            items = byte_items(data)
            conds = [tuple(out.shape) == tuple(shape)]
            if conds[0]:
                for k, idx in enumerate(np.ndindex(*shape)):
                    conds.append(EQ(out[idx], doc_unpacked_bit(items, k, big_endian=not wrong)))
            cx.check(AND(conds), label=f'from_bitarray shape={shape}')

        def pts(kind):
            out = []
            for si in range(0, len(SHAPES), 2):
                shape = SHAPES[si]
                env = {'choose:shape': si}
                total = int(np.prod(shape))
                if kind == 'to':
                    vals = lcg_bits(si + 1, total)
                    for n_, idx in enumerate(np.ndindex(*shape)):
                        env['a' + '_'.join(str(i) for i in idx)] = vals[n_]
                else:
                    for j in range((total + 7) // 8):
                        env.update(byte_env('d', j, (77 * j + 19 * si + 2) % 256))
                out.append(env)
            return out

        return [
            Obligation(
                'v2.ndarrays.to_bitarray',
                body_to,
                twin=lambda cx: body_to(cx, wrong=True),
                points=pts('to'),
                opts={'weight': 3},
                desc=f'to_bitarray on symbolic bool arrays of shapes {SHAPES}: shape field, ceil(prod/8) bytes, big-endian bit order, unused bits zero (ndarrays.proto), and from_bitarray inverts it',
            ),
            Obligation(
                'v2.ndarrays.from_bitarray',
                body_from,
                twin=lambda cx: body_from(cx, wrong=True),
                points=pts('from'),
                opts={'weight': 3},
                desc='from_bitarray on ARBITRARY symbolic bytes: element k (C order) is bit index 7-(k mod 8) of byte k//8, trailing bits ignored',
            ),
        ]

    obs.extend(mk_bitarray())
    obs.extend(MSG.obligations(tier))
    return obs


LEVEL = (
    'Bounded symbolic execution of the real result bit-packing code, SMT-decided: every measurement bit is a symbolic Boolean and every '
    'received byte a symbolic integer in [0,255] (z3 Bool/Int terms in numpy object arrays); the real pack_bits / unpack_bits / results_to_proto / '
    'results_from_proto, to_bitarray / from_bitarray (api.v2) and pack_results / unpack_results (api.v1) run on them, with numpy packbits / unpackbits / frombuffer / tobytes '
    'modelled by their documented definitions (validated against the real kernels on every run); z3 decides the byte layout documented in result.proto and the '
    'round-trip laws for ALL bit/byte values, for every bit count up to the bound (every padding remainder mod 8), symbolic repetition count in '
    'unpack_bits, several sweeps / repeated keys / qubit orders from finite menus. MESSAGE PART (checks/C16_msgs.py): ' + MSG.LEVEL
)

ASSUMPTIONS = [
    'measurement bits are symbolic Booleans; a byte is represented by its 8 binary digits (digit k has value 2**k), so an arbitrary received byte is 8 free Booleans covering exactly the values 0..255; no floating point is involved in the bit layer',
    'numpy.packbits, numpy.unpackbits, numpy.frombuffer(uint8), ndarray.tobytes and astype(bool)/asarray(dtype=bool) are MODELLED from the numpy documentation in symx/bitmodel.py (they are C kernels); each run validates the models against the real kernels on random valuations (bitmodel.self_test); all other numpy calls (pad, reshape, [:, ::-1], hstack, transpose, slicing) are the real numpy on object arrays',
    'the module-global np of cirq_google.api.v2.results, cirq_google.api.v2.ndarrays and cirq_google.api.v1.programs is replaced by symx.bitmodel.BitNpProxy inside the symbolic workers only; it defers to the real numpy for concrete data',
    'in symbolic runs the protobuf Result and BitArray messages are replaced by field-for-field plain-Python recorders (checks/C16.py _ResultMsg, _BitArrayMsg: repeated fields with add(), proto3 defaults 0/""/b""); protobuf field typing, float32 storage of parameters and the wire encoding are exercised only by the concrete validation points and by replays (which use the real result_pb2.Result and SerializeToString/FromString)',
    'array shapes (number of bits, bytes, repetitions, instances, qubits, sweeps) are enumerated from the stated menus; inside one shape every bit/byte/parameter value is universally quantified; the repetition count of unpack_bits is a symbolic integer that the solver partitions',
    'parameter values are symbolic reals in [-4,4] compared with tolerance 1e-6 (single-precision storage in the real message)',
    'find_measurements is executed concretely to build MeasureInfo (no symbolic input can reach it)',
    'z3 is trusted',
]


def main(tier, seed=0, replay=None, only=None, procs=None):
    quick = tier == 'quick'
    from symx import pbsym

    if pbsym.backend() != 'python':
        print(f'HARNESS-ERROR: protobuf backend is {pbsym.backend()!r}, not the pure-Python one: symbolic values cannot enter messages')
        return 2
    if not replay:
        from symx import bitmodel

        bad = bitmodel.self_test(seed, rounds=30 if quick else 120)
        if bad:
            for b in bad[:10]:
                print('HARNESS-ERROR: bit model disagrees with real numpy:', b)
            return 2
    bounds = {
        'pack/unpack bit count n': '0..72 (quick) / 0..264 (thorough), every n',
        'unpack_bits bytes L': '0..9 (quick) / 0..33 (thorough), repetitions symbolic integer in [0, 8L]',
        'message layouts': {k: v for k, v in LAYOUTS.items()},
        'message structures (sweeps, trials per sweep)': STRUCTS,
        'message repetitions': '1,2,3,7,8,9 (+1 for the second sweep) quick; 1,2,3,5,7,8,9,12,15,16,17,20,31,33,64 (+1) thorough',
        'message qubit orders (results_from_proto)': ['identity', 'reversed', 'rotated'],
        'v1 key sizes': '[a:1] [a:2,b:3] [x:3,y:1,z:4] [q:5]; reps up to 8 (quick) / 33 (thorough)',
        'BitArray shapes': '1-D up to 31 (quick) / 100 (thorough) elements, 2-D..4-D shapes from a menu (see obligation desc)',
        'param box': [-4, 4],
        'outside': [
            'api.v2.ndarrays typed float/int/complex ndarray messages (tobytes/frombuffer of numeric data); uint8-valued input of to_bitarray (its 0/1 validation error path)',
            'result messages: protobuf typed containers and wire encoding (only touched by concrete validation points / replays)',
            'find_measurements (concrete structure only), invert masks, EngineResult',
            'bit counts > 264, more than 33 result bytes per qubit',
        ],
        'messages': MSG.BOUNDS,
    }
    return run_check(PID, tier, 'checks.C16', SHIMS, LEVEL, ASSUMPTIONS + list(MSG.ASSUMPTIONS), bounds, seed=seed, replay=replay, only=only, procs=procs)

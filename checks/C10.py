"""C10: parameter resolution and sweeps commute with everything else.

Symbolic: the VALUES assigned by resolvers / sweeps (reals, one integer), Linspace endpoints, point
values, sweep indices and slice bounds (integers).  Enumerated (finite selectors): expression
templates, resolver shapes, gate families, container kinds, circuit shapes, sweep trees.

Section (10) `resolve.tagged_once.*`: one-step (non-recursive) resolution of operations with PARAMETERISED TAGS
(TaggedOperation, Moment, Circuit, FrozenCircuit, CircuitOperation.param_resolver) by resolvers whose values are
symbols / names / formulas over their own keys; oracle in oracles/param_step.py.
"""
from __future__ import annotations

import itertools
import math

import numpy as np
import sympy

from checks.common import BASE_ASSUMPTIONS, CORE_SHIM_MODULES, perturb
from oracles import embed as EM
from oracles import gates_doc as D
from oracles import param_algebra as PA
from oracles import param_step as PS
from symx.explore import Obligation
from symx.run import run_check

PID = 'C10'

SHIMS = CORE_SHIM_MODULES + [
    'cirq.protocols.decompose_protocol',
    'cirq.protocols.act_on_protocol',
    'cirq.protocols.has_unitary_protocol',
    'cirq.protocols.resolve_parameters',
    'cirq.ops.control_values',
    'cirq.ops.parallel_gate',
    'cirq.circuits.circuit',
    'cirq.circuits.moment',
    'cirq.circuits.frozen_circuit',
    'cirq.circuits.circuit_operation',
    'cirq.qis.states',
    'cirq.sim.sparse_simulator',
    'cirq.sim.simulator_base',
    'cirq.sim.simulator',
    'cirq.sim.state_vector_simulation_state',
    'cirq.sim.simulation_state',
    'cirq.sim.simulation_state_base',
    'cirq.sim.simulation_product_state',
    'cirq.sim.state_vector',
    'cirq.sim.simulation_utils',
    'cirq.sim.state_vector_simulator',
    'cirq.sim.density_matrix_simulator',
    'cirq.sim.density_matrix_simulation_state',
    'cirq.sim.density_matrix_utils',
    'cirq.study.resolver',
    'cirq.study.sweeps',
    'cirq.study.sweepable',
    'cirq.study.flatten_expressions',
]

B = 4.0  # box of resolver values in the pure value_of obligations
G = 2.0  # box of resolver values that end up in gate exponents / angles

a, b, c, d = sympy.symbols('a b c d')
SYM = {'a': a, 'b': b, 'c': c, 'd': d}


def worker_setup():
    from symx import sympy_bridge

    return sympy_bridge.install()


# ------------------------------------------------------------------------------------------------
# helpers usable in both modes
# ------------------------------------------------------------------------------------------------
def is_concrete(cx):
    return cx.mode == 'concrete'


def no_opaque(x, what=''):
    from symx import sympy_bridge

    return sympy_bridge.assert_no_opaque(x, what)


def name_set(keys):
    return {k.name if isinstance(k, sympy.Symbol) else k for k in keys}


def raises(exc, f):
    try:
        f()
    except exc:
        return True
    return False


class ParamTag:
    """a tag with a parameter (cirq lets tags take part in the resolve_parameters protocol)"""

    def __init__(self, value):
        self.value = value

    def _is_parameterized_(self):
        import cirq

        return cirq.is_parameterized(self.value)

    def _parameter_names_(self):
        import cirq

        return cirq.parameter_names(self.value)

    def _resolve_parameters_(self, resolver, recursive):
        return ParamTag(resolver.value_of(self.value, recursive))

    def __eq__(self, other):
        if not isinstance(other, ParamTag):
            return NotImplemented
        if isinstance(self.value, sympy.Basic) and isinstance(other.value, sympy.Basic):
            return self.value == other.value
        return self.value is other.value

    def __hash__(self):
        return hash('ParamTag')

    def __repr__(self):
        return f'ParamTag({self.value!r})'


class NamesTag:
    """a parameterised tag WITHOUT _is_parameterized_: the protocols fall back to its _parameter_names_"""

    def __init__(self, value):
        self.value = value

    def _parameter_names_(self):
        import cirq

        return cirq.parameter_names(self.value)

    def _resolve_parameters_(self, resolver, recursive):
        return NamesTag(resolver.value_of(self.value, recursive))

    def __eq__(self, other):
        if not isinstance(other, NamesTag):
            return NotImplemented
        if isinstance(self.value, sympy.Basic) and isinstance(other.value, sympy.Basic):
            return self.value == other.value
        return self.value is other.value

    def __hash__(self):
        return hash('NamesTag')

    def __repr__(self):
        return f'NamesTag({self.value!r})'


# ---- expression templates (depth <= 3 over Symbol / Add / Mul / integer Pow / numeric constants) ----
def templates():
    return [
        ('a', a),
        ('a+b', a + b),
        ('a*b', a * b),
        ('2*a', 2 * a),
        ('a/2', a / 2),
        ('a-b', a - b),
        ('a**2', a**2),
        ('2.5*a+1', 2.5 * a + 1),
        ('(a+b)*c', (a + b) * c),
        ('a*b+c', a * b + c),
        ('(a+b)**2', (a + b) ** 2),
        ('a*(b+c*a)', a * (b + c * a)),
        ('pi*a', sympy.pi * a),
        ('a/pi', a / sympy.pi),
        ('3*a*b-c/4+1', 3 * a * b - c / 4 + 1),
        ('-a', -a),
        ('a**3-2*a*b', a**3 - 2 * a * b),
        ('(a+b+c)/3', (a + b + c) / 3),
        ('a+b+c+1.5', a + b + c + 1.5),
        ('2*a*b*c', 2 * a * b * c),
        ('a+b+c+k+2', a + b + c + sympy.Symbol('k') + 2),
        ('a*b*c*k/8', a * b * c * sympy.Symbol('k') / 8),
        ('1/(a+6)', 1 / (a + 6)),
        ('k*a', sympy.Symbol('k') * a),
        ('k+b/4', sympy.Symbol('k') + b / 4),
        ('7', sympy.Integer(7)),
        ('0.5', sympy.Float(0.5)),
        ('1/3', sympy.Rational(1, 3)),
        ('-1/2', -sympy.Rational(1, 2)),
        ('pi', sympy.pi),
        ('pi/4', sympy.pi / 4),
    ]


# ---- gate families: name -> (builder from expressions, documented matrix from values, #qubits, #slots) ----
def families():
    import cirq

    return {
        'X': (lambda e: cirq.X**e, lambda v: D.X(v), 1, 1),
        'Yshift': (lambda e: cirq.YPowGate(exponent=e, global_shift=-0.5), lambda v: D.Y(v, -0.5), 1, 1),
        'Z': (lambda e: cirq.Z**e, lambda v: D.Z(v), 1, 1),
        'H': (lambda e: cirq.H**e, lambda v: D.H(v), 1, 1),
        'rx': (lambda e: cirq.rx(e), lambda v: D.rx(v), 1, 1),
        'ry': (lambda e: cirq.ry(e), lambda v: D.ry(v), 1, 1),
        'Rz': (lambda e: cirq.Rz(rads=e), lambda v: D.rz(v), 1, 1),
        'CZ': (lambda e: cirq.CZ**e, lambda v: D.CZ(v), 2, 1),
        'CX': (lambda e: cirq.CX**e, lambda v: D.CX(v), 2, 1),
        'SWAP': (lambda e: cirq.SWAP**e, lambda v: D.SWAP(v), 2, 1),
        'ISWAP': (lambda e: cirq.ISWAP**e, lambda v: D.ISWAP(v), 2, 1),
        'XX': (lambda e: cirq.XX**e, lambda v: D.XX(v), 2, 1),
        'ZZ': (lambda e: cirq.ZZPowGate(exponent=e, global_shift=0.25), lambda v: D.ZZ(v, 0.25), 2, 1),
        'cphase': (lambda e: cirq.cphase(e), lambda v: D.cphase(v), 2, 1),
        'givens': (lambda e: cirq.givens(e), lambda v: D.givens(v), 2, 1),
        'ms': (lambda e: cirq.ms(e), lambda v: D.ms(v), 2, 1),
        'CCZ': (lambda e: cirq.CCZ**e, lambda v: D.CCZ(v), 3, 1),
        'CCX': (lambda e: cirq.CCX**e, lambda v: D.CCX(v), 3, 1),
        'FSim': (lambda e, f: cirq.FSimGate(e, f), lambda v, w: D.fsim(v, w), 2, 2),
        'PhFSim': (lambda e, f: cirq.PhasedFSimGate(e, f, e, f, e), lambda v, w: D.phased_fsim(v, w, v, w, v), 2, 2),
        'PhX': (lambda e, f: cirq.PhasedXPowGate(exponent=e, phase_exponent=f), lambda v, w: D.phased_x(v, w), 1, 2),
        'PhXZ': (lambda e, f: cirq.PhasedXZGate(x_exponent=e, z_exponent=f, axis_phase_exponent=e), lambda v, w: D.phased_xz(v, w, v), 1, 2),
        'PhISwap': (lambda e, f: cirq.PhasedISwapPowGate(phase_exponent=e, exponent=f), lambda v, w: D.phased_iswap(v, w), 2, 2),
        'Diag1': (lambda e, f: cirq.DiagonalGate([e, f]), lambda v, w: D.diagonal([v, w]), 1, 2),
        'Diag2': (lambda e, f: cirq.TwoQubitDiagonalGate([e, f, f, e]), lambda v, w: D.diagonal([v, w, w, v]), 2, 2),
        'Diag3': (lambda e, f: cirq.ThreeQubitDiagonalGate([e, f, f, e, 0.5, e, f, 0.25]), lambda v, w: D.diagonal([v, w, w, v, 0.5, v, w, 0.25]), 3, 2),
        'Grad2': (lambda e: cirq.PhaseGradientGate(num_qubits=2, exponent=e), lambda v: D.phase_gradient(2, v), 2, 1),
        'CtrlY': (lambda e: cirq.ControlledGate(cirq.Y**e), lambda v: D.CY(v), 2, 1),
        'ParX': (lambda e: cirq.ParallelGate(cirq.X**e, 2), lambda v: kron(D.X(v), D.X(v)), 2, 1),
        'C0X': (lambda e: cirq.ControlledGate(cirq.X**e, control_values=[0]), lambda v: ctrl0_block(D.X(v)), 2, 1),
    }


def kron(A, Bm):
    A = np.asarray(A, dtype=object)
    Bm = np.asarray(Bm, dtype=object)
    out = np.empty((A.shape[0] * Bm.shape[0], A.shape[1] * Bm.shape[1]), dtype=object)
    for i in range(A.shape[0]):
        for j in range(A.shape[1]):
            for k in range(Bm.shape[0]):
                for l in range(Bm.shape[1]):
                    out[i * Bm.shape[0] + k, j * Bm.shape[1] + l] = A[i, j] * Bm[k, l]
    return out


def ctrl0_block(m):
    """controlled on the control being |0>: block diagonal (m, identity), control qubit first"""
    m = np.asarray(m, dtype=object)
    k = m.shape[0]
    out = np.zeros((2 * k, 2 * k), dtype=object)
    out[:k, :k] = m
    for i in range(k):
        out[k + i, k + i] = 1
    return out


def gate_exprs(gate):
    """the parameter expressions sitting in a gate (harness-side walk, independent of the parameter protocol)"""
    out = []
    for attr in ('_exponent', '_phase_exponent', '_x_exponent', '_z_exponent', '_axis_phase_exponent', 'theta', 'phi', '_diag_angles_radians'):
        v = getattr(gate, attr, None)
        if v is None or callable(v):
            continue
        out.extend(v if isinstance(v, (list, tuple)) else [v])
    sub = getattr(gate, 'sub_gate', None)
    if sub is not None:
        out.extend(gate_exprs(sub))
    return out


# ---- circuits described as data: moments of (family, exprs, qubit positions) --------------------------
def build_ops(spec_moment, qs):
    fams = families()
    return [fams[f][0](*ex).on(*[qs[p] for p in pos]) for f, ex, pos in spec_moment]


def steps_of(spec, envs):
    """oracle: ordered list of (documented matrix at the substituted values, positions)"""
    fams = families()
    out = []
    for m in spec:
        for f, ex, pos in m:
            out.append((fams[f][1](*[PA.ev(e, envs) for e in ex]), list(pos)))
    return out


def spec_names(spec):
    out = set()
    for m in spec:
        for _f, ex, _p in m:
            for e in ex:
                out |= PA.names(e)
    return out


def oracle_unitary(steps, n):
    N = 2**n
    out = np.eye(N, dtype=complex).reshape((2,) * (2 * n))
    for Mx, pos in steps:
        out = EM.apply_matrix_to_axes(Mx, out, pos)
    return out.reshape(N, N)


def oracle_state(steps, psi):
    out = psi
    for Mx, pos in steps:
        out = EM.apply_matrix_to_axes(Mx, out, pos)
    return out


def basis_tensor(n, idx):
    v = np.zeros(2**n, dtype=complex)
    v[idx] = 1
    return v.reshape((2,) * n)


def wrong_last(steps):
    Mx, pos = steps[-1]
    return steps[:-1] + [(perturb(Mx), pos)]


def sel_points(name, n, limit=6, extra=None):
    pts = []
    for i in range(min(n, limit)):
        env = {'choose:' + name: i}
        if extra:
            env.update(extra)
        pts.append(env)
    return pts


# ------------------------------------------------------------------------------------------------
def obligations(tier):
    import cirq

    quick = tier == 'quick'
    obs = []
    T = templates()
    FAM = families()

    # =============================================================================================
    # (0) resolution keeps every NON-parameter attribute of a gate: global shifts of the gate families
    # =============================================================================================
    SHIFTED = [
        ('XPowGate', lambda e, sh: cirq.XPowGate(exponent=e, global_shift=sh), lambda e, p, sh: D.X(e, sh)),
        ('ZPowGate', lambda e, sh: cirq.ZPowGate(exponent=e, global_shift=sh), lambda e, p, sh: D.Z(e, sh)),
        ('CZPowGate', lambda e, sh: cirq.CZPowGate(exponent=e, global_shift=sh), lambda e, p, sh: D.CZ(e, sh)),
        ('ISwapPowGate', lambda e, sh: cirq.ISwapPowGate(exponent=e, global_shift=sh), lambda e, p, sh: D.ISWAP(e, sh)),
        ('XXPowGate', lambda e, sh: cirq.XXPowGate(exponent=e, global_shift=sh), lambda e, p, sh: D.XX(e, sh)),
        ('PhasedXPowGate', lambda e, sh: cirq.PhasedXPowGate(exponent=e, phase_exponent=sympy.Symbol('p'), global_shift=sh), lambda e, p, sh: D.phased_x(e, p, sh)),
        ('PhasedISwapPowGate', lambda e, sh: cirq.PhasedISwapPowGate(exponent=e, phase_exponent=sympy.Symbol('p'), global_shift=sh), lambda e, p, sh: D.phased_iswap(p, e, sh)),
    ]

    def shifted_body(cx, wrong=False):
        name, mk, doc = SHIFTED[cx.choose('gate', len(SHIFTED))]
        ve, vp = cx.real('ve', -B, B), cx.real('vp', -B, B)
        # (the global shift enters the period computation of EigenGates through math.gcd / %: menu, not symbolic)
        sh = [0.25, -0.5, 0.1, 0.0][cx.choose('shift', 4)]
        g = mk(sympy.Symbol('e'), sh)
        how = cx.choose('how', 3)
        res = cirq.ParamResolver({'e': ve, 'p': vp})
        if how == 0:
            r = cirq.resolve_parameters(g, res)
        elif how == 1:
            r = cirq.resolve_parameters_once(g, res)
        else:
            r = cirq.resolve_parameters(cirq.Circuit(g.on(*cirq.LineQubit.range(cirq.num_qubits(g)))), res).moments[0].operations[0].gate
        cx.check(not cirq.is_parameterized(r), label=f'{name}: resolved gate is not parameterized')
        M = doc(ve, vp, sh)
        cx.close(cirq.unitary(r), perturb(M) if wrong else M, label=f'{name}: unitary of the resolved gate == documented matrix at the assigned values INCLUDING the global shift')

    obs.append(Obligation('resolve.shifted_gates', shifted_body, twin=lambda cx: shifted_body(cx, wrong=True), opts={'weight': 3}, desc='resolve_parameters / resolve_parameters_once / resolution through a Circuit of 7 gate families built with a global_shift from a menu of 4 and Symbol exponent / phase: the resolved gate has the documented matrix at the assigned SYMBOLIC values, including exp(i pi shift exponent)'))

    # =============================================================================================
    # (1) ParamResolver.value_of on expression templates, symbolic assigned values
    # =============================================================================================
    def value_of_body(cx, wrong=False):
        vals = {n: cx.real('v' + n, -B, B) for n in ('a', 'b', 'c')}
        vals['k'] = cx.int('vk', -3, 3)
        kind = cx.choose('keys', 3)
        if kind == 0:
            dct = dict(vals)
        elif kind == 1:
            dct = {sympy.Symbol(n): v for n, v in vals.items()}
        else:
            dct = {(sympy.Symbol(n) if i % 2 else n): v for i, (n, v) in enumerate(vals.items())}
        r = cirq.ParamResolver(dct)
        for rep in range(2):  # the second round runs on filled caches (_deep_eval_map)
            for idx, (nm, e) in enumerate(T):
                got = r.value_of(e)
                exp = PA.ev(e, vals)
                if wrong and idx == 3 and rep == 1:
                    exp = exp + 0.01
                cx.close(got, exp, label=f'value_of[{nm}]#{rep}')
        # names / strings / pass-through values / unrelated symbols
        cx.close(r.value_of('a'), vals['a'], label="value_of('a')")
        cx.close(r[b], vals['b'], label='resolver[b]')
        cx.close(r.value_of(a, recursive=False), vals['a'], label='value_of(a, recursive=False)')
        cx.close(r.value_of(a + b, recursive=False), vals['a'] + vals['b'], label='value_of(a+b, recursive=False)')
        cx.check(r.value_of(0.25) == 0.25 and r.value_of(3) == 3 and r.value_of(1j) == 1j, label='numbers pass through')
        cx.close(r.value_of(vals['c']), vals['c'], label='value passes through')
        cx.check(r.value_of(d) == d and r.value_of('zz') == sympy.Symbol('zz'), label='unassigned symbol stays a symbol')
        cx.check(r.value_of(d + 1, recursive=True) == d + 1, label='formula over unassigned symbols unchanged')
        cx.check(cirq.resolve_parameters(d * 2, r) == 2.0 * d, label='resolve_parameters(formula over unassigned symbols)')
        cx.close(cirq.resolve_parameters(a * b, r), vals['a'] * vals['b'], label='resolve_parameters(expr)')
        cx.close(cirq.resolve_parameters(a * b, dct), vals['a'] * vals['b'], label='resolve_parameters(expr, dict)')
        got = cirq.resolve_parameters((a, [b, 2 * c], 0.5), r)
        cx.check(isinstance(got, tuple) and isinstance(got[1], list), label='sequence types preserved')
        cx.close([got[0], got[1][0], got[1][1], got[2]], [vals['a'], vals['b'], 2 * vals['c'], 0.5], label='resolve_parameters(sequence)')

    obs.append(
        Obligation(
            'value_of.templates',
            value_of_body,
            twin=lambda cx: value_of_body(cx, wrong=True),
            points=sel_points('keys', 3),
            opts={'weight': 3},
            desc=f'ParamResolver.value_of on {len(T)} expression templates (Symbol/Add/Mul/integer Pow/Integer, Rational, Float, pi constants, depth<=3) with SYMBOLIC assigned values (3 reals, 1 integer), str / Symbol / mixed keys, twice on the same resolver (caches), vs ordinary algebra on the expression tree',
        )
    )

    # =============================================================================================
    # (2) recursive chains  a -> formula(b) -> ... -> number
    # =============================================================================================
    def chain_shapes(vb, vc, vd):
        return [
            {'a': b, 'b': c, 'c': vc},
            {'a': b + 1, 'b': 2 * c, 'c': vc},
            {'a': b * c, 'b': vb, 'c': d / 2, 'd': vd},
            {'a': 'b', 'b': vb, 'c': vc},
            {a: b, b: vb, c: 'a'},
            {'a': (b + c) ** 2, 'b': c - 1, 'c': vc},
            {'a': b, 'b': c, 'c': d, 'd': vd},
        ]

    CH_Q = [a, b, a + b, 2 * a * c, a**2 - b, c]
    N_CHAIN = 7

    def chain_body(cx, wrong=False):
        vb, vc, vd = cx.real('vb', -B, B), cx.real('vc', -B, B), cx.real('vd', -B, B)
        shape = cx.choose('shape', N_CHAIN)
        order = cx.choose('order', 2)
        dct = chain_shapes(vb, vc, vd)[shape]
        env = PA.env_of(dct)
        r = cirq.ParamResolver(dct)
        qs_ = CH_Q if order == 0 else CH_Q[::-1]
        for rep in range(2):
            for i, e in enumerate(qs_):
                got = r.value_of(e)
                exp = PA.ev(e, env)
                if wrong and i == 1 and rep == 0:
                    exp = exp + 0.01
                cx.close(got, exp, label=f'chain{shape}.value_of[{e}]#{rep}')
        # one step only
        one = r.value_of(a, recursive=False)
        first = env['a']
        if isinstance(first, sympy.Basic):
            cx.check(one == first, label='recursive=False makes one step')
        # a fresh resolver must give the same answers in the other query order (no order dependence)
        r2 = cirq.ParamResolver(dict(dct))
        cx.close(r2.value_of(a + b), PA.ev(a + b, env), label='fresh resolver')
        # loops are reported
        loop = cirq.ParamResolver({'a': b + vb, 'b': a})
        cx.check(raises(RecursionError, lambda: loop.value_of(a)), label='loop -> RecursionError')

    obs.append(
        Obligation(
            'value_of.chains',
            chain_body,
            twin=lambda cx: chain_body(cx, wrong=True),
            points=sel_points('shape', N_CHAIN, 7),
            opts={'weight': 2},
            desc='recursive resolution a -> formula -> ... -> SYMBOLIC number (chains <= 3 links, str / Symbol keys and values), 6 queries in both orders, twice on one resolver (_deep_eval_map cache) vs substitution to a fixed point by ordinary algebra; loop detection',
        )
    )

    # =============================================================================================
    # (3) composition of resolvers: resolve_parameters(r1, r2)
    # =============================================================================================
    def r1_shapes(v1a, v1b):
        return [
            ({'a': b}, True),
            ({'a': b + 1, 'c': 2 * a}, True),
            ({'a': v1a}, False),
            ({'a': v1a, 'b': c}, False),
            ({}, True),
            ({'a': b * 2, 'b': v1b}, False),
            ({a: 'b', 'c': a * 2}, True),
        ]

    CO_Q = [a, b, c, a + b, a * c + b, 2 * a - c]

    def compose_body(cx, wrong=False):
        v1a, v1b = cx.real('v1a', -B, B), cx.real('v1b', -B, B)
        v2 = {n: cx.real('v2' + n, -B, B) for n in ('a', 'b', 'c', 'd')}
        s1 = cx.choose('r1', 7)
        s2 = cx.choose('r2', 2)
        d1, sympy_only = r1_shapes(v1a, v1b)[s1]
        d2 = {'a': v2['a'], 'b': v2['b'], 'c': v2['c']} if s2 == 0 else {'a': v2['a'], b: v2['b'], 'c': d + 1, 'd': v2['d']}
        r1, r2 = cirq.ParamResolver(d1), cirq.ParamResolver(d2)
        comp = cirq.resolve_parameters(r1, r2)
        e1, e2 = PA.env_of(d1), PA.env_of(d2)
        cx.check(isinstance(comp, cirq.ParamResolver), label='composition is a resolver')
        cx.check(name_set(comp.param_dict) == set(e1) | set(e2), label='keys of the composition')
        for i, e in enumerate(CO_Q):
            exp = PA.ev(e, [e1, e2])
            if wrong and i == 4:
                exp = exp + 0.01
            cx.close(comp.value_of(e), exp, label=f'composed.value_of[{e}]')
            if sympy_only:
                # r1 holds formulas only: applying the two resolvers one after the other runs symbolically too
                cx.close(r2.value_of(r1.value_of(e)), exp, label=f'r2(r1([{e}]))')
        # the inputs are not modified by composing them
        cx.check(name_set(r1.param_dict) == set(e1) and name_set(r2.param_dict) == set(e2), label='operands unchanged')
        # composing with an empty resolver returns the object itself
        cx.check(cirq.resolve_parameters(r1, {}) is r1 and cirq.resolve_parameters(r1, None) is r1, label='empty resolver -> same object')

    obs.append(
        Obligation(
            'resolver.compose',
            compose_body,
            twin=lambda cx: compose_body(cx, wrong=True),
            points=sel_points('r1', 7, 7) + sel_points('r1', 7, 7, {'choose:r2': 1}),
            opts={'weight': 2},
            desc='cirq.resolve_parameters(r1, r2) for 7 shapes of r1 (formulas, numbers, SHARED keys with different values, empty, str values) x 2 shapes of r2 (numbers, chain), all numbers symbolic: composed.value_of(e) == apply r1 then r2 by ordinary algebra, and == r2.value_of(r1.value_of(e)) where that runs symbolically',
        )
    )

    # =============================================================================================
    # (4) resolve_parameters on gates, then unitary
    # =============================================================================================
    GE = [a, a + b, 2 * a, a * b, a / 2 - b, a**2, b] if quick else [a, a + b, 2 * a, a * b, a / 2 - b, a**2, b, (a + b) * c, 1.5 * a - 0.25, a - b + c / 2]
    # gates whose constructors canonicalise their parameters by modulo tests fork on them: formulas that are
    # linear in the assigned values keep those forks decidable (a**2 / a*b inside a floor atom are not)
    GL = [a, a + b, 2 * a, a / 2 - b, b]
    LINEAR_ONLY = {'PhX', 'PhXZ'}
    NO_NAMES = set()  # (PhasedFSimGate was excluded here until finding.phased_fsim_parameter_names was repaired)
    FN = list(FAM)

    def gate_body(cx, wrong=False, fam=None):
        build, doc, nq, ns = FAM[fam]
        va, vb, vc = cx.real('va', -G, G), cx.real('vb', -G, G), cx.real('vc', -G, G)
        ge = GL if fam in LINEAR_ONLY else GE
        ti = cx.choose('expr', len(ge))
        rk = cx.choose('resolver', 3)
        exprs = [ge[ti], ge[(ti + 1) % len(ge)]][:ns]
        if rk == 0:
            dct = {'a': va, 'b': vb, 'c': vc}
        elif rk == 1:
            dct = {a: d * 2, 'd': va, 'b': vb, 'c': vc, 'unused': 0.5}  # chain; a = 2*va
        else:
            dct = {'a': va, 'b': 'd', 'd': vb, c: vc}
        env = PA.env_of(dct)
        r = cirq.ParamResolver(dct)
        g = build(*exprs)
        nm = set()
        for e in exprs:
            nm |= PA.names(e)
        cx.check(cirq.is_parameterized(g) is True, label='is_parameterized(gate)')
        if fam not in NO_NAMES:
            cx.check(cirq.parameter_names(g) == nm, label='parameter_names(gate)')
        rg = cirq.resolve_parameters(g, r)
        cx.check(not cirq.is_parameterized(rg) and cirq.parameter_names(rg) == set(), label='resolved gate has no parameters')
        cx.check(type(rg) is type(g), label='type preserved')
        want = doc(*[PA.ev(e, env) for e in exprs])
        if wrong:
            want = perturb(want)
        cx.close(cirq.unitary(rg), want, label=f'unitary(resolve({fam}[{exprs}]))')
        # resolving unrelated symbols leaves the parameters alone (formulas may be rebuilt, e.g. a**2 -> a**2.0)
        g2 = cirq.resolve_parameters(g, {'zz': vc, 'unused': va})
        cx.check(cirq.is_parameterized(g2) and (fam in NO_NAMES or cirq.parameter_names(g2) == nm), label='unrelated resolver leaves the parameters alone')
        cx.close(cirq.unitary(cirq.resolve_parameters(g2, r)), want, label='unrelated resolver first, then the real one')
        # operation level
        qs = cirq.LineQubit.range(nq)
        op = g.on(*qs)
        rop = cirq.resolve_parameters(op, r)
        cx.check(rop.qubits == op.qubits and not cirq.is_parameterized(rop), label='resolved operation')
        cx.close(cirq.unitary(rop), want, label=f'unitary(resolve({fam}.on(qubits)))')
        # a gate without parameters is returned as the same object
        h = build(*[0.25, 0.5][:ns])
        hop = h.on(*qs)
        cx.check(cirq.resolve_parameters(h, r) is h and cirq.resolve_parameters(hop, r) is hop, label='unparameterised -> same object')

    for fam in FN:
        obs.append(
            Obligation(
                f'resolve.gate.{fam}',
                lambda cx, fam=fam: gate_body(cx, fam=fam),
                twin=lambda cx, fam=fam: gate_body(cx, wrong=True, fam=fam),
                points=sel_points('expr', len(GE), 4) + sel_points('resolver', 3, 3, {'choose:expr': 1}),
                opts={'weight': 2},
                desc=f'cirq.resolve_parameters({fam}(formulas), resolver with SYMBOLIC values) then cirq.unitary vs the documented matrix at the algebraically substituted values; {len(GE)} formula templates x 3 resolver shapes (direct, chain, str alias); parameter_names / is_parameterized before and after; unrelated symbols; same-object short cut',
            )
        )

    # ---- (4b) resolution commutes with gate-level transformations -------------------------------------
    def dagger(m):
        m = np.asarray(m, dtype=object)
        out = np.empty((m.shape[1], m.shape[0]), dtype=object)
        for i in range(m.shape[0]):
            for j in range(m.shape[1]):
                e = m[i, j]
                out[j, i] = e.conjugate() if hasattr(e, 'conjugate') else np.conj(e)
        return out

    def ctrl_block(m):
        m = np.asarray(m, dtype=object)
        k = m.shape[0]
        out = np.zeros((2 * k, 2 * k), dtype=object)
        for i in range(k):
            out[i, i] = 1
        out[k:, k:] = m
        return out

    def transform_body(cx, wrong=False, fam=None):
        build, doc, nq, ns = FAM[fam]
        va, vb = cx.real('va', -G, G), cx.real('vb', -G, G)
        tf = cx.choose('transform', 4)
        ti = cx.choose('expr', len(GL))
        exprs = [GL[ti], GL[(ti + 1) % len(GL)]][:ns]
        env = {'a': va, 'b': vb}
        r = cirq.ParamResolver(dict(env))
        g = build(*exprs)
        qs = cirq.LineQubit.range(nq + 1)
        base = np.asarray(doc(*[PA.ev(e, env) for e in exprs]), dtype=object)
        tol = 1e-7
        if tf == 0:
            ops = None if fam in NO_DECOMP else cirq.decompose_once(g.on(*qs[:nq]), None)
            if ops is None:
                cx.check(not wrong, label='twin')  # no decomposition for this family
                return
            rops = cirq.resolve_parameters(list(ops), r)
            cx.check(not cirq.is_parameterized(rops), label='decomposition fully resolved')
            got = cirq.Circuit(rops).unitary(qubit_order=qs[:nq], qubits_that_should_be_present=qs[:nq])
            want = base
            tol = 2.5e-5  # Cirq drops global-phase operations that are np.isclose(.,1) (rtol 1e-5) while decomposing
        elif tf == 1:
            got = cirq.unitary(cirq.resolve_parameters(cirq.inverse(g), r))
            want = dagger(base)
        elif tf == 2:
            g2 = cirq.pow(g, 2, None)
            if g2 is None:
                cx.check(not wrong, label='twin')
                return
            got = cirq.unitary(cirq.resolve_parameters(g2, r))
            want = base @ base
        else:
            cop = g.on(*qs[1:]).controlled_by(qs[0])
            got = cirq.unitary(cirq.resolve_parameters(cop, r))
            want = ctrl_block(base)
        if wrong:
            want = perturb(want)
        cx.close(got, want, tol=tol, label=f'{fam}: transform {tf} then resolve')

    TF_FAMS = [f for f in FN if f not in ('Diag3',)] if quick else FN
    # decompositions whose resolved product is not decided by the VC back end (float multiples of 1/pi inside
    # angle atoms): listed as outside; inverse / square / controlled are still checked for these families
    NO_DECOMP = {'ZZ', 'ms', 'Diag1'}
    for fam in TF_FAMS:
        obs.append(
            Obligation(
                f'resolve.transform.{fam}',
                lambda cx, fam=fam: transform_body(cx, fam=fam),
                twin=lambda cx, fam=fam: transform_body(cx, wrong=True, fam=fam),
                points=sel_points('transform', 4, 4, {'choose:expr': 1}),
                opts={'weight': 3},
                desc=f'{fam} with formula parameters: decompose_once / inverse / square / controlled_by FIRST (Cirq builds new formulas), then resolve with SYMBOLIC values, then unitary, vs the same transformation of the documented matrix at the substituted values; 5 linear formula templates',
            )
        )

    # ---- (4c) circuit transformers that rewrite formulas, then resolution ------------------------------
    TR_SPECS = [
        [[('Z', [a], [0])], [('X', [b], [0])], [('CZ', [a + b], [0, 1])], [('Z', [0.25], [1])], [('Yshift', [a], [1]), ('PhX', [a, b], [0])]],
        [[('PhX', [a / 2, b], [0]), ('Z', [b], [1])], [('XX', [a], [0, 1])], [('Z', [a - b], [0])], [('X', [2 * b], [1])]],
    ]

    def transformers_body(cx, wrong=False):
        va, vb = cx.real('va', -G, G), cx.real('vb', -G, G)
        si = cx.choose('circuit', len(TR_SPECS))
        tk = cx.choose('transformer', 6)
        spec = TR_SPECS[si]
        qs = cirq.LineQubit.range(2)
        circ = cirq.Circuit(cirq.Moment(build_ops(m, qs)) for m in spec)
        env = {'a': va, 'b': vb}
        tfm = [
            lambda c_: cirq.expand_composite(c_),
            cirq.align_left,
            lambda c_: cirq.eject_z(c_, eject_parameterized=True),
            lambda c_: cirq.eject_phased_paulis(c_, eject_parameterized=True),
            cirq.drop_empty_moments,
            lambda c_: cirq.Circuit(cirq.decompose(c_, keep=lambda op: len(op.qubits) == 1 or isinstance(op.gate, cirq.CZPowGate))),
        ][tk]
        t = tfm(circ)
        cx.check(cirq.parameter_names(t) <= {'a', 'b'}, label='transformer introduces no parameters')
        ro = cirq.resolve_parameters(t, env)
        cx.check(not cirq.is_parameterized(ro), label='transformed circuit fully resolved')
        steps = steps_of(spec, [env])
        if wrong:
            steps = wrong_last(steps)
        got = ro.unitary(qubit_order=qs, qubits_that_should_be_present=qs)
        if tk in (2, 3):
            # the eject transformers are documented to preserve the circuit up to global phase only
            # (they drop the global_shift of gates they rewrite, also on already resolved circuits)
            close_up_to_phase(cx, got, oracle_unitary(steps, 2), 2.5e-5, f'transformer {tk} then resolve (up to global phase)')
        else:
            cx.close(got, oracle_unitary(steps, 2), tol=2.5e-5, label=f'transformer {tk} then resolve')

    obs.append(
        Obligation(
            'resolve.after_transformers',
            transformers_body,
            twin=lambda cx: transformers_body(cx, wrong=True),
            points=sel_points('transformer', 6, 6) + sel_points('transformer', 6, 6, {'choose:circuit': 1}),
            opts={'weight': 6, 'max_paths': 50000},
            desc='expand_composite / align_left / eject_z(eject_parameterized) / eject_phased_paulis(eject_parameterized) / drop_empty_moments / full decompose on 2 parameterised circuits (the transformers build new formulas from the symbols), THEN resolve with SYMBOLIC values: unitary == ordered product of documented matrices of the original circuit at the substituted values',
        )
    )

    def finding_eject_z(cx, wrong=False):
        va, vb = cx.real('va', -G, G), cx.real('vb', -G, G)
        case = cx.choose('case', 2)
        spec = [[[('Z', [0.5], [0])], [('ISWAP', [a], [0, 1])], [('X', [b], [1])]], [[('Z', [0.5], [0])], [('FSim', [a, b], [0, 1])]]][case]
        qs = cirq.LineQubit.range(2)
        circ = cirq.Circuit(cirq.Moment(build_ops(m, qs)) for m in spec)
        t = cirq.eject_z(circ, eject_parameterized=True)
        env = {'a': va, 'b': vb}
        ro = cirq.resolve_parameters(t, env)
        steps = steps_of(spec, [env])
        if wrong:
            steps = wrong_last(steps)
        close_up_to_phase(cx, ro.unitary(qubit_order=qs, qubits_that_should_be_present=qs), oracle_unitary(steps, 2), 2.5e-5, 'eject_z(parameterised swap-like gate) then resolve')

    obs.append(
        Obligation(
            'finding.eject_z_parameterized_swaplike',
            finding_eject_z,
            twin=lambda cx: finding_eject_z(cx, wrong=True),
            points=sel_points('case', 2),
            desc='regression obligation for a finding: cirq.eject_z raised TypeError (np.round of a sympy expression in _is_swaplike) on circuits holding ISWAP**symbol or FSimGate(symbol, .); after the transformer the circuit is resolved with SYMBOLIC values and compared up to global phase',
        )
    )

    def finding_phfsim(cx, wrong=False):
        va = cx.real('va', -G, G)
        q = cirq.LineQubit.range(2)
        g = cirq.PhasedFSimGate(a, 0.1, 0.2, 0.3, 0.4)
        cx.check(cirq.is_parameterized(g), label='is_parameterized(PhasedFSimGate)')
        cx.check(cirq.parameter_names(g) == {'a'}, label='parameter_names(PhasedFSimGate)')
        cop = cirq.CircuitOperation(cirq.FrozenCircuit(g.on(*q)))
        cx.check(cirq.is_parameterized(cop) and cirq.parameter_names(cop) == {'a'}, label='parameter_names(CircuitOperation(PhasedFSimGate))')
        ro = cirq.resolve_parameters(cop, {'a': va})
        cx.check(not cirq.is_parameterized(ro) and ro is not cop, label='CircuitOperation(PhasedFSimGate) resolves')
        want = D.phased_fsim(va, 0.1, 0.2, 0.3, 0.4)
        cx.close(cirq.unitary(ro), perturb(want) if wrong else want, label='unitary(resolve(CircuitOperation(PhasedFSimGate)))')

    obs.append(
        Obligation(
            'finding.phased_fsim_parameter_names',
            finding_phfsim,
            twin=lambda cx: finding_phfsim(cx, wrong=True),
            points=[{'va': 0.3}],
            desc='regression obligation for a finding: PhasedFSimGate had _is_parameterized_ but no _parameter_names_, so parameter_names was empty and a CircuitOperation holding the gate was never resolved',
        )
    )

    # =============================================================================================
    # (5) containers: tagged / controlled ops, moments, circuits, frozen circuits, CircuitOperation
    # =============================================================================================
    P0 = ('X', [a + b], [0])
    P1 = ('CZ', [2 * a], [0, 1])
    P2 = ('Yshift', [b / 2], [1])
    N0 = ('H', [1.0], [1])
    N1 = ('ISWAP', [0.5], [0, 1])
    N_CONT = 18

    def container_body(cx, wrong=False):
        va, vb = cx.real('va', -G, G), cx.real('vb', -G, G)
        env = {'a': va, 'b': vb}
        r = cirq.ParamResolver(dict(env))
        kind = cx.choose('kind', N_CONT)
        q = cirq.LineQubit.range(2)
        mk = lambda *specs: build_ops(list(specs), q)  # noqa: E731
        spec = None
        envs = [env]
        n = 2
        post = None
        if kind == 0:
            obj = mk(P0)[0].with_tags('tg', 7)
            spec = [[P0]]
            n = 1
            post = lambda ro: ro.tags == ('tg', 7)  # noqa: E731
        elif kind == 1:
            tag = ParamTag(a * b)
            obj = mk(P0)[0].with_tags(tag)
            spec = [[P0]]
            n = 1
            cx.check(cirq.parameter_names(obj) == {'a', 'b'}, label='names incl. tag')
            post = lambda ro: isinstance(ro.tags[0], ParamTag) and not cirq.is_parameterized(ro.tags[0])  # noqa: E731
        elif kind == 2:
            obj = mk(P0)[0].controlled_by(q[1])
            spec = [[('CX', [a + b], [0, 1])]]  # cirq.unitary(op) is in op.qubits order: control first
        elif kind == 3:
            obj = cirq.Moment(mk(P0, N0))
            spec = [[P0, N0]]
        elif kind == 4:
            obj = cirq.Circuit(cirq.Moment(mk(N0)), cirq.Moment(mk(P0, P2)), cirq.Moment(mk(P1)), cirq.Moment(mk(N1)))
            spec = [[N0], [P0, P2], [P1], [N1]]
            m0, m3 = obj.moments[0], obj.moments[3]
            post = lambda ro: ro.moments[0] is m0 and ro.moments[3] is m3 and len(ro) == 4  # noqa: E731
        elif kind == 5:
            obj = cirq.FrozenCircuit(cirq.Moment(mk(P0, P2)), cirq.Moment(mk(P1)))
            spec = [[P0, P2], [P1]]
            post = lambda ro: isinstance(ro, cirq.FrozenCircuit)  # noqa: E731
        elif kind == 6:
            obj = cirq.CircuitOperation(cirq.FrozenCircuit(mk(P0, P2), mk(P1)))
            spec = [[P0, P2], [P1]]
        elif kind == 7:
            # the sub-circuit's own map a -> 2*b (one step), then the outer resolver
            obj = cirq.CircuitOperation(cirq.FrozenCircuit(mk(P0, P2), mk(P1)), param_resolver={a: 2 * b})
            spec = [[P0, P2], [P1]]
            envs = [{'a': 2 * b}, env]
            cx.check(cirq.parameter_names(obj) == {'b'}, label='names of a mapped sub-circuit')
        elif kind == 8:
            obj = cirq.CircuitOperation(cirq.FrozenCircuit(mk(P0, P2), mk(P1)), repetitions=2)
            spec = [[P0, P2], [P1], [P0, P2], [P1]]
        elif kind == 9:
            obj = cirq.Circuit(cirq.CircuitOperation(cirq.FrozenCircuit(mk(P0, P2), mk(P1)), qubit_map={q[0]: q[1], q[1]: q[0]}))
            sw = lambda s: (s[0], s[1], [1 - p for p in s[2]])  # noqa: E731
            spec = [[sw(P0), sw(P2)], [sw(P1)]]
        elif kind == 10:
            inner = cirq.CircuitOperation(cirq.FrozenCircuit(mk(P0)), param_resolver={b: 2 * a})
            obj = cirq.Circuit(mk(N0), cirq.CircuitOperation(cirq.FrozenCircuit(inner, mk(P2)[0])), mk(P1))
            spec = [[N0], [('X', [a + 2 * a], [0]), P2], [P1]]
        elif kind == 11:
            tag = ParamTag(a - b)
            obj = cirq.Circuit(mk(N0), mk(N1), tags=[tag, 'plain'])
            spec = [[N0], [N1]]
            cx.check(cirq.is_parameterized(obj) and cirq.parameter_names(obj) == {'a', 'b'}, label='circuit parameterised by its tag only')

            def post(ro):
                cx.close(ro.tags[0].value, va - vb, label='resolved circuit tag')
                return ro.tags[1] == 'plain' and not cirq.is_parameterized(ro)

        elif kind == 12:
            # nothing to resolve: every level returns the very same object
            mom = cirq.Moment(mk(N0))
            obj = cirq.Circuit(mom, cirq.Moment(mk(N1)))
            fro = obj.freeze()
            cop = cirq.CircuitOperation(fro)
            cx.check(
                cirq.resolve_parameters(mom, r) is mom and cirq.resolve_parameters(obj, r) is obj and cirq.resolve_parameters(fro, r) is fro and cirq.resolve_parameters(cop, r) is cop,
                label='unparameterised moment / circuit / frozen circuit / sub-circuit -> same object',
            )
            spec = [[N0], [N1]]
        elif kind == 13:
            # parameters not named by the resolver: object unchanged (same object for moments and circuits)
            obj0 = cirq.Circuit(cirq.Moment(mk(P0)), cirq.Moment(mk(P1)))
            other = cirq.ParamResolver({'zz': va})
            same = cirq.resolve_parameters(obj0, other)
            cx.check(same is obj0 and cirq.resolve_parameters(obj0.moments[0], other) is obj0.moments[0], label='unrelated resolver -> same object')
            cx.check(cirq.parameter_names(same) == {'a', 'b'}, label='names unchanged')
            # partial: only b assigned by a formula over a new symbol -> still parameterised by a, d
            part = cirq.resolve_parameters(obj0, {'b': d})
            cx.check(cirq.parameter_names(part) == {'a', 'd'} and part.moments[1] is obj0.moments[1], label='partial resolution by formulas')
            obj = part
            spec = [[P0], [P1]]
            envs = [{'b': d}, {'a': va, 'd': vb}]
            r = cirq.ParamResolver({'a': va, 'd': vb})
        elif kind == 14:
            obj = tuple(mk(P0, P1)) + ([mk(P2)[0]],)
            ro = cirq.resolve_parameters(obj, r)
            cx.check(isinstance(ro, tuple) and isinstance(ro[2], list) and not cirq.is_parameterized(ro), label='op sequences')
            obj = cirq.Circuit(ro[0], ro[1], ro[2][0])
            spec = [[P0], [P1], [P2]]
        elif kind == 17:
            obj = mk(P0)[0].controlled_by(q[1], control_values=[0])
            spec = [[('C0X', [a + b], [0, 1])]]  # op.qubits order: control first
            post = lambda ro: ro.control_values == obj.control_values  # noqa: E731
        elif kind == 16:
            # a sub-circuit may swap two parameters (a -> b, b -> a): its map is applied as ONE step
            obj = cirq.CircuitOperation(cirq.FrozenCircuit(mk(P2), mk(P1)), param_resolver={a: b, b: a})
            spec = [[P2], [P1]]
            envs = [{'a': b}, {'b': va, 'a': vb}]  # one step of the swap, then the outer values: a := value(b), b := value(a)
            spec = [[('Yshift', [a / 2], [1])], [('CZ', [2 * b], [0, 1])]]
            envs = [env]
            cx.check(cirq.parameter_names(obj) == {'a', 'b'}, label='names of a swapped sub-circuit')
        else:
            # resolve_parameters_once = recursive False: a -> d only, although the resolver also maps d
            chain = cirq.ParamResolver({'a': d, 'd': vb})
            once = cirq.resolve_parameters_once(cirq.Circuit(mk(P0)), chain)
            cx.check(cirq.parameter_names(once) == {'b', 'd'}, label='resolve_parameters_once makes one step')
            obj = once
            spec = [[P0]]
            envs = [{'a': d}, {'d': va, 'b': vb}]
            r = cirq.ParamResolver({'d': va, 'b': vb})
            n = 1
        pre_names = cirq.parameter_names(obj)
        ro = cirq.resolve_parameters(obj, r)
        cx.check(not cirq.is_parameterized(ro) and cirq.parameter_names(ro) == set(), label=f'kind{kind}: resolved object has no parameters')
        cx.check(cirq.parameter_names(obj) == pre_names, label='argument not modified')
        if post is not None:
            cx.check(bool(post(ro)), label=f'kind{kind}: structure preserved')
        steps = steps_of(spec, envs)
        if wrong:
            steps = wrong_last(steps)
        cx.close(cirq.unitary(ro), oracle_unitary(steps, n), label=f'kind{kind}: unitary(resolve(container))')

    obs.append(
        Obligation(
            'resolve.containers',
            container_body,
            twin=lambda cx: container_body(cx, wrong=True),
            points=sel_points('kind', N_CONT, N_CONT),
            opts={'weight': 4},
            desc='cirq.resolve_parameters on tagged (incl. parameterised tag) / controlled operations, Moment, Circuit (moment identity kept for unchanged moments), FrozenCircuit, CircuitOperation (own param_resolver, repetitions, qubit_map, nested), circuit tags, op sequences, resolve_parameters_once, unrelated / partial resolvers; SYMBOLIC values; cirq.unitary of the result vs ordered product of documented matrices',
        )
    )

    # =============================================================================================
    # (6) parameter queries after circuit edits (caches), then resolution
    # =============================================================================================
    N_EDIT = 22

    def walk(circ):
        """harness-side description of a circuit: [(gate exprs, doc matrix builder, positions)] in moment order"""
        out = []
        for m in circ.moments:
            for op in m.operations:
                g = op.gate
                fam = {cirq.XPowGate: 'X', cirq.YPowGate: 'Y', cirq.ZPowGate: 'Z', cirq.HPowGate: 'H', cirq.CZPowGate: 'CZ'}[type(g)]
                doc = {'X': D.X, 'Y': D.Y, 'Z': D.Z, 'H': D.H, 'CZ': D.CZ}[fam]
                out.append((g._exponent, doc, [qq.x for qq in op.qubits]))
        return out

    def edit_body(cx, wrong=False):
        va, vb = cx.real('va', -G, G), cx.real('vb', -G, G)
        base = cx.choose('base', 2)
        edit = cx.choose('edit', N_EDIT)
        q = cirq.LineQubit.range(2)
        first = cirq.X(q[0]) ** (a / 2) if base == 1 else cirq.X(q[0]) ** 0.5
        circ = cirq.Circuit(cirq.Moment(first, cirq.H(q[1])), cirq.Moment(cirq.CZ(q[0], q[1])))
        # fill every cache first
        cx.check(cirq.is_parameterized(circ) == (base == 1), label='is_parameterized before')
        cx.check(cirq.parameter_names(circ) == ({'a'} if base == 1 else set()), label='parameter_names before')
        fr0 = circ.freeze()
        cx.check(cirq.parameter_names(fr0) == cirq.parameter_names(circ), label='frozen view before')
        P = cirq.Y(q[1]) ** (b * 2)
        Np = cirq.Z(q[1]) ** 0.25
        keep = None
        if edit == 0:
            res = P + circ
        elif edit == 1:
            res = circ + P
        elif edit == 2:
            circ += P
            res = circ
        elif edit == 3:
            circ.insert(0, P)
            res = circ
        elif edit == 4:
            circ.insert(len(circ), P)
            res = circ
        elif edit == 5:
            circ.append(P)
            res = circ
        elif edit == 6:
            circ[0] = cirq.Moment(P)
            res = circ
        elif edit == 7:
            del circ[0]
            res = circ
        elif edit == 8:
            circ.batch_insert([(1, P)])
            res = circ
        elif edit == 9:
            circ.batch_replace([(0, first, cirq.X(q[0]) ** b)])
            res = circ
        elif edit == 10:
            circ.clear_operations_touching([q[0]], [0])
            res = circ
        elif edit == 11:
            circ.insert_into_range([P], 0, 2)
            res = circ
        elif edit == 12:
            res = [P, Np] + circ
        elif edit == 13:
            res = cirq.Moment(P) + circ
        elif edit == 14:
            circ.batch_remove([(0, first)])
            res = circ
        elif edit == 15:
            res = circ.copy()
            res.append(P)
            keep = circ
        elif edit == 16:
            circ.append(P)
            res = circ.freeze()
            keep = fr0
        elif edit == 17:
            circ.append(cirq.Moment(cirq.Z(q[0]) ** 0.25))
            cx.check(cirq.parameter_names(circ) == ({'a'} if base == 1 else set()), label='re-query')
            circ.batch_insert_into([(2, P)])
            res = circ
        elif edit == 18:
            res = circ.unfreeze(copy=False)
            res[1:] = [cirq.Moment(P)]
        elif edit == 19:
            res = fr0 + P
            keep = fr0
        elif edit == 20:
            res = fr0.unfreeze()
            res.append([Np, P])
            keep = fr0
        else:
            res = circ[1:] + cirq.Circuit(P) + circ[:1]
            keep = circ
        desc = walk(res)
        names = set()
        for e, _doc, _pos in desc:
            names |= PA.names(e)
        cx.check(cirq.is_parameterized(res) == bool(names), label=f'edit{edit}: is_parameterized after edit')
        cx.check(cirq.parameter_names(res) == names, label=f'edit{edit}: parameter_names after edit')
        for m in res.moments:
            mn = set()
            for op in m.operations:
                mn |= PA.names(op.gate._exponent)
            cx.check(cirq.parameter_names(m) == mn, label='moment names')
        if keep is not None:
            cx.check(cirq.parameter_names(keep) == ({'a'} if base == 1 else set()), label=f'edit{edit}: the other circuit keeps its answer')
        env = {'a': va, 'b': vb}
        ro = cirq.resolve_parameters(res, env)
        cx.check(not cirq.is_parameterized(ro), label=f'edit{edit}: resolved after edit')
        steps = [(doc(PA.ev(e, env)), pos) for e, doc, pos in desc]
        if wrong:
            steps = wrong_last(steps)
        cx.close(ro.unitary(qubit_order=q, qubits_that_should_be_present=q), oracle_unitary(steps, 2), label=f'edit{edit}: unitary after edit+resolve')

    obs.append(
        Obligation(
            'params.after_edits',
            edit_body,
            twin=lambda cx: edit_body(cx, wrong=True),
            points=[{'choose:base': i % 2, 'choose:edit': i} for i in range(0, N_EDIT, 3)],
            opts={'weight': 4},
            desc='is_parameterized / parameter_names queried (caches filled), then one of 22 edits (op_tree + circuit, circuit + ops, +=, insert, append, item assignment / deletion, batch_*, clear_operations_touching, insert_into_range, copy, freeze / unfreeze, slicing), queried again vs a harness-side walk over the operations, then resolved with SYMBOLIC values and compared as a unitary; bounded exploration over the edit menu, values symbolic',
        )
    )

    # =============================================================================================
    # (7) simulate_sweep (unparameterised prefix reuse) vs per-assignment semantics
    # =============================================================================================
    SW_SHAPES = [
        (2, [[('H', [1.0], [0])], [('CX', [1.0], [0, 1])], [('X', [a], [0]), ('Z', [b], [1])]]),
        (2, [[('X', [a], [0]), ('H', [1.0], [1])], [('CZ', [1.0], [0, 1])], [('H', [1.0], [1])]]),
        (2, [[('H', [1.0], [0])], [('CX', [1.0], [0, 1])]]),
        (2, [[('X', [a + b], [0])], [('CZ', [2 * b], [0, 1])]]),
        (3, [[('H', [1.0], [0]), ('X', [a], [2])], [('CX', [1.0], [0, 1])], [('CZ', [a * b], [1, 2])], [('H', [1.0], [0])]]),
        (2, [[('H', [1.0], [0]), ('H', [1.0], [1])], [('FSim', [a, b], [0, 1])], [('X', [0.5], [0])]]),
    ]
    SW_CFG = [(0, True, 0), (0, False, 0), (0, True, 1), (0, False, 1), (1, True, 0)] if quick else [(0, True, 0), (0, False, 0), (0, True, 1), (0, False, 1), (1, True, 0), (1, False, 0)]

    def sweep_sim_body(cx, wrong=False):
        si = cx.choose('shape', len(SW_SHAPES))
        ci = cx.choose('config', len(SW_CFG))
        pk = cx.choose('params', 2)
        n, spec = SW_SHAPES[si]
        simk, split, initk = SW_CFG[ci]
        qs = cirq.LineQubit.range(n)
        circuit = cirq.Circuit(cirq.Moment(build_ops(m, qs)) for m in spec)
        envs = [{'a': cx.real(f'a{i}', -G, G), 'b': cx.real(f'b{i}', -G, G)} for i in range(2)]
        if pk == 0:
            params = [cirq.ParamResolver(dict(e)) for e in envs]
        else:
            params = cirq.Zip(cirq.Points('a', [e['a'] for e in envs]), cirq.Points('b', [e['b'] for e in envs]))
        if initk == 0:
            bidx = 2
            psi0 = basis_tensor(n, bidx)
            mk_init = lambda: bidx  # noqa: E731
        else:
            psi0 = EM.sym_tensor(cx, (2,) * n, 'A')
            mk_init = lambda: cirq.StateVectorSimulationState(initial_state=psi0.copy(), qubits=qs, dtype=np.complex128)  # noqa: E731
            if simk == 1:
                mk_init = lambda: cirq.DensityMatrixSimulationState(initial_state=_outer(psi0.reshape(-1)).reshape((2,) * (2 * n)), qubits=qs, dtype=np.complex128)  # noqa: E731
        sim = cirq.Simulator(split_untangled_states=split, dtype=np.complex128) if simk == 0 else cirq.DensityMatrixSimulator(split_untangled_states=split, dtype=np.complex128)
        results = sim.simulate_sweep(circuit, params, qubit_order=qs, initial_state=mk_init())
        cx.check(len(results) == 2, label='one result per assignment')
        for i, res in enumerate(results):
            steps = steps_of(spec, [envs[i]])
            if wrong and i == 1:
                steps = wrong_last(steps)
            exp = oracle_state(steps, psi0).reshape(-1)
            got = res._get_merged_sim_state().target_tensor
            if simk == 0:
                cx.close(got.reshape(-1), exp, label=f'simulate_sweep[{i}] state')
            else:
                cx.close(got.reshape(2**n, 2**n), _outer(exp), label=f'simulate_sweep[{i}] density matrix')
            cx.close([res.params.value_of('a'), res.params.value_of('b')], [envs[i]['a'], envs[i]['b']], label=f'result[{i}].params')
            # the same assignment simulated on its own (real code, separate call)
            one = sim.simulate(circuit, cirq.ParamResolver(dict(envs[i])), qubit_order=qs, initial_state=mk_init())
            got1 = one._get_merged_sim_state().target_tensor
            cx.close(got1.reshape(got.shape), got, label=f'simulate_sweep[{i}] == simulate(resolver {i})')

    obs.append(
        Obligation(
            'simulate_sweep.prefix_reuse',
            sweep_sim_body,
            twin=lambda cx: sweep_sim_body(cx, wrong=True),
            points=sel_points('shape', len(SW_SHAPES)) + sel_points('config', len(SW_CFG), 7, {'choose:shape': 1, 'choose:params': 1}),
            opts={'weight': 10, 'max_paths': 50000},
            desc='Simulator / DensityMatrixSimulator.simulate_sweep over 2 assignments with SYMBOLIC values (list of resolvers or Zip of Points) on 6 circuit shapes mixing unparameterised prefix and parameterised suffix (per-qubit split, empty suffix, empty prefix, 3 qubits), split_untangled_states on/off, basis or fully symbolic initial state: every result state == ordered product of documented matrices at that assignment == separate simulate() call',
        )
    )

    # =============================================================================================
    # (8) sweeps: enumeration, length, keys, indexing, slicing
    # =============================================================================================
    def sweep_menu(cx):
        """list of (name, thunk) ; thunk -> (real sweep, (keys, rows) definition).  p* / s,e symbolic reals"""
        p = [cx.real(f'p{i}', -B, B) for i in range(8)]
        s_, e_ = cx.real('s', -B, B), cx.real('e', -B, B)
        Pa3 = lambda: (cirq.Points('a', p[0:3]), PA.points('a', p[0:3]))  # noqa: E731
        Pa2 = lambda: (cirq.Points(a, p[0:2]), PA.points('a', p[0:2]))  # noqa: E731
        Pb2 = lambda: (cirq.Points('b', p[2:4]), PA.points('b', p[2:4]))  # noqa: E731
        Pb1 = lambda: (cirq.Points('b', p[3:4]), PA.points('b', p[3:4]))  # noqa: E731
        Pc2 = lambda: (cirq.Points('c', p[4:6]), PA.points('c', p[4:6]))  # noqa: E731
        Pa0 = lambda: (cirq.Points('a', []), PA.points('a', []))  # noqa: E731
        L = lambda k, n: (cirq.Linspace(k, s_, e_, n), PA.linspace(str(k), s_, e_, n))  # noqa: E731

        def comb(cls, defn, *parts):
            return cls(*[x[0] for x in parts]), defn(*[x[1] for x in parts])

        return [
            ('Points3', Pa3),
            ('Linspace4', lambda: L('a', 4)),
            ('Linspace1', lambda: L(a, 1)),
            ('Linspace2', lambda: L('a', 2)),
            ('Product(P3,L2)', lambda: comb(cirq.Product, PA.product, Pa3(), L('b', 2))),
            ('Zip(P3,L2)', lambda: comb(cirq.Zip, PA.zip_, Pa3(), L('b', 2))),
            ('ZipLongest(P3,P1,L2)', lambda: comb(cirq.ZipLongest, PA.zip_longest, Pa3(), Pb1(), L('c', 2))),
            ('Concat(P2,L3,P3)', lambda: comb(cirq.Concat, PA.concat, Pa2(), L('a', 3), Pa3())),
            ('ListSweep', lambda: (cirq.ListSweep([{'a': p[0], 'b': p[1]}, {a: p[2], 'b': p[3]}, cirq.ParamResolver({'a': p[4], 'b': p[5]})]), PA.list_sweep([{'a': p[0], 'b': p[1]}, {'a': p[2], 'b': p[3]}, {'a': p[4], 'b': p[5]}]))),
            ('Product(Zip(P2,P2),P2)', lambda: comb(cirq.Product, PA.product, comb(cirq.Zip, PA.zip_, Pa2(), Pb2()), Pc2())),
            ('Zip(Product(P2,P2),L3)', lambda: comb(cirq.Zip, PA.zip_, comb(cirq.Product, PA.product, Pa2(), Pb2()), L('c', 3))),
            ('Concat(Zip,Zip)', lambda: comb(cirq.Concat, PA.concat, comb(cirq.Zip, PA.zip_, Pa2(), Pb2()), comb(cirq.Zip, PA.zip_, L('a', 3), L('b', 2)))),
            ('ZipLongest(L3,Product(P2,P2))', lambda: comb(cirq.ZipLongest, PA.zip_longest, L('a', 3), comb(cirq.Product, PA.product, Pb2(), Pc2()))),
            ('Product(Concat(P2,P2),ZipLongest(P2,P1))', lambda: comb(cirq.Product, PA.product, comb(cirq.Concat, PA.concat, Pa2(), Pa2()), comb(cirq.ZipLongest, PA.zip_longest, Pc2(), Pb1()))),
            ('UnitSweep', lambda: (cirq.UnitSweep, PA.unit())),
            ('Points0', Pa0),
            ('Product()', lambda: (cirq.Product(), PA.product())),
            ('Zip()', lambda: (cirq.Zip(), PA.zip_())),
            ('Product(P2,P0b)', lambda: comb(cirq.Product, PA.product, Pa2(), (cirq.Points('b', []), PA.points('b', [])))),
            ('Zip(P3,P0b)', lambda: comb(cirq.Zip, PA.zip_, Pa3(), (cirq.Points('b', []), PA.points('b', [])))),
            ('P*P*P', lambda: (Pa2()[0] * Pb2()[0] * Pc2()[0], PA.product(Pa2()[1], Pb2()[1], Pc2()[1]))),
            ('P*(P*P)', lambda: (Pa2()[0] * (Pb2()[0] * Pc2()[0]), PA.product(Pa2()[1], Pb2()[1], Pc2()[1]))),
            ('P+P+L', lambda: (Pa3()[0] + Pb2()[0] + L('c', 4)[0], PA.zip_(Pa3()[1], Pb2()[1], L('c', 4)[1]))),
            ('(P+P)*P', lambda: ((Pa2()[0] + Pb2()[0]) * Pc2()[0], PA.product(PA.zip_(Pa2()[1], Pb2()[1]), Pc2()[1]))),
            ('dict_to_product_sweep', lambda: (cirq.dict_to_product_sweep({'a': p[0:2], 'b': p[2], 'c': p[4:6]}), PA.product(PA.points('a', p[0:2]), PA.points('b', [p[2]]), PA.points('c', p[4:6])))),
            ('dict_to_zip_sweep', lambda: (cirq.dict_to_zip_sweep({'a': p[0:3], 'b': p[3:6]}), PA.zip_(PA.points('a', p[0:3]), PA.points('b', p[3:6])))),
            ('list_of_dicts_to_zip', lambda: (cirq.study.sweeps.list_of_dicts_to_zip([{'a': p[0], 'b': p[1]}, {'a': p[2], 'b': p[3]}]), PA.zip_(PA.points('a', [p[0], p[2]]), PA.points('b', [p[1], p[3]])))),
            ('to_sweep(list of dicts)', lambda: (cirq.to_sweep([{'a': p[0]}, cirq.ParamResolver({'a': p[1]})]), PA.list_sweep([{'a': p[0]}, {'a': p[1]}]))),
            ('to_sweeps(resolver)[0]', lambda: (cirq.to_sweeps(cirq.ParamResolver({'a': p[0], b: p[1]}))[0], PA.zip_(PA.points('a', [p[0]]), PA.points('b', [p[1]])))),
        ]

    N_SW = 29

    def rows_match(cx, got_rows, rows, label, wrong=False):
        """got_rows: list of tuples of (key, value) ; rows: definition"""
        cx.check(len(got_rows) == len(rows), label=f'{label}: number of assignments')
        gv, ev_ = [], []
        ok = True
        for g, r_ in zip(got_rows, rows):
            g = tuple(g)
            ok = ok and len(g) == len(r_) and [k for k, _ in g] == [k for k, _ in r_]
            gv.extend(v for _, v in g)
            ev_.extend(v for _, v in r_)
        cx.check(ok, label=f'{label}: keys of every assignment')
        if wrong and ev_:
            ev_[-1] = ev_[-1] + 0.01
        if ev_ and len(gv) == len(ev_):
            cx.close(gv, ev_, label=f'{label}: values')

    def resolver_rows(resolvers, keys):
        out = []
        for r_ in resolvers:
            out.append(tuple((k, r_.value_of(k)) for k in keys))
        return out

    def sweep_enum_body(cx, wrong=False):
        menu = sweep_menu(cx)
        assert len(menu) == N_SW
        nm, thunk = menu[cx.choose('sweep', N_SW)]
        sw, (keys, rows) = thunk()
        cx.check(len(sw) == len(rows), label=f'{nm}: len')
        cx.check(list(sw.keys) == keys, label=f'{nm}: keys')
        rows_match(cx, list(sw.param_tuples()), rows, f'{nm}: param_tuples', wrong)
        rs = list(sw)
        cx.check(all(isinstance(r_, cirq.ParamResolver) for r_ in rs), label=f'{nm}: iter yields resolvers')
        cx.check(all(name_set(r_.param_dict) == set(keys) for r_ in rs), label=f'{nm}: resolver keys')
        rows_match(cx, resolver_rows(rs, keys), rows, f'{nm}: iter')
        rows_match(cx, resolver_rows(list(cirq.to_resolvers(sw)), keys), rows, f'{nm}: to_resolvers')
        # nested sweepables:  [sweep, [resolver, dict]] = the sweep followed by the two single assignments
        v1, v2 = cx.real('x1', -B, B), cx.real('x2', -B, B)
        extra = [cirq.ParamResolver({k: v1 for k in keys}), {k: v2 for k in keys}]
        got = list(cirq.to_resolvers([sw, extra]))
        more = rows + [tuple((k, v1) for k in keys), tuple((k, v2) for k in keys)]
        rows_match(cx, resolver_rows(got, keys), more, f'{nm}: to_resolvers(nested)')
        cx.check(sw == sw and not (sw != sw), label=f'{nm}: equality is reflexive')

    obs.append(
        Obligation(
            'sweeps.enumerate',
            sweep_enum_body,
            twin=lambda cx: sweep_enum_body(cx, wrong=True),
            points=sel_points('sweep', N_SW, N_SW),
            opts={'weight': 3},
            desc=f'{N_SW} sweep trees (Points, Linspace, Product, Zip, ZipLongest, Concat, ListSweep, UnitSweep, empty / single-point / nested depth<=2, * and + operators, dict_to_product_sweep, dict_to_zip_sweep, list_of_dicts_to_zip, to_sweep, to_sweeps) with SYMBOLIC point values and Linspace endpoints: len, keys, param_tuples, iteration, to_resolvers (also nested sweepables) vs the definition as a Python list',
        )
    )

    IDX_SWEEPS = [0, 1, 4, 5, 6, 7, 8, 9, 10, 12, 13, 14, 15, 17, 22] if quick else list(range(N_SW))

    def sweep_index_body(cx, wrong=False):
        menu = sweep_menu(cx)
        nm, thunk = menu[IDX_SWEEPS[cx.choose('sweep', len(IDX_SWEEPS))]]
        sw, (keys, rows) = thunk()
        n = len(rows)
        i = cx.int('i', -n - 3, n + 3)
        try:
            got = sw[i]
        except IndexError:
            # raised exactly when the index is outside [-n, n)
            cx.check((i < -n) | (i >= n) if not isinstance(i, int) else (i < -n or i >= n), label=f'{nm}: IndexError only when out of range')
            if wrong:
                cx.check(False, label='twin')
            return
        cx.check((i >= -n) & (i < n) if not isinstance(i, int) else (-n <= i < n), label=f'{nm}: in-range index returns')
        ii = int(i)
        rows_match(cx, resolver_rows([got], keys), [rows[ii]], f'{nm}[i]', wrong)

    obs.append(
        Obligation(
            'sweeps.index',
            sweep_index_body,
            twin=lambda cx: sweep_index_body(cx, wrong=True),
            points=[{'choose:sweep': j, 'i': v} for j, v in ((0, 1), (1, -1), (2, 5), (3, -7), (4, 0), (9, 2))],
            opts={'weight': 4, 'int_fork_limit': 64},
            desc='sweep[i] for a SYMBOLIC integer index i in [-len-3, len+3] (solver partitions along the range tests, then per value): IndexError exactly outside [-len, len), otherwise the i-th assignment of the definition list (negative indices from the end), values symbolic',
        )
    )

    SL_SWEEPS = [0, 4, 6, 12] if quick else [0, 1, 4, 5, 6, 7, 8, 9, 12, 13, 15, 22]
    SL_BOX = 5 if quick else 8

    def sweep_slice_body(cx, wrong=False):
        menu = sweep_menu(cx)
        nm, thunk = menu[SL_SWEEPS[cx.choose('sweep', len(SL_SWEEPS))]]
        sw, (keys, rows) = thunk()
        form = cx.choose('form', 5)
        lo = cx.int('lo', -SL_BOX, SL_BOX) if form in (0, 1, 3) else None
        hi = cx.int('hi', -SL_BOX, SL_BOX) if form in (0, 2, 3) else None
        st = cx.int('st', -3, 3) if form in (3, 4) else None
        if st is not None:
            cx.assume(st != 0)  # step 0: ValueError from Python's own slice arithmetic
        got = sw[lo:hi:st]
        cx.check(isinstance(got, cirq.Sweep), label=f'{nm}: slice is a sweep')
        f = lambda x: None if x is None else int(x)  # noqa: E731
        want = rows[f(lo) : f(hi) : f(st)]
        cx.check(len(got) == len(want), label=f'{nm}: len(slice)')
        rows_match(cx, resolver_rows(list(got), keys), want, f'{nm}[lo:hi:st]', wrong and len(want) > 0)
        if wrong and not want:
            cx.check(False, label='twin')

    obs.append(
        Obligation(
            'sweeps.slice',
            sweep_slice_body,
            twin=lambda cx: sweep_slice_body(cx, wrong=True),
            points=[{'choose:sweep': 0, 'choose:form': 3, 'lo': 0, 'hi': 3, 'st': 2}, {'choose:sweep': 1, 'choose:form': 3, 'lo': -1, 'hi': -5, 'st': -1}, {'choose:sweep': 2, 'choose:form': 0, 'lo': 2, 'hi': 5}, {'choose:sweep': 3, 'choose:form': 4, 'st': -2}],
            opts={'weight': 8, 'int_fork_limit': 64, 'max_paths': 100000},
            desc=f'sweep[lo:hi:step] with SYMBOLIC integer bounds in [-{SL_BOX},{SL_BOX}] and step in [-3,3]\\{{0}} (all five forms lo:hi, lo:, :hi, lo:hi:step, ::step) vs Python slicing of the definition list; lengths and every assignment, values symbolic',
        )
    )

    # =============================================================================================
    # (9) flatten / flatten_with_params / flatten_with_sweep / ExpressionMap
    # =============================================================================================
    W = sympy.Symbol('<a + 1>')
    FL_SHAPES = [
        (1, [[('X', [a / 4], [0])], [('Yshift', [1 - a / 2], [0])]]),
        (2, [[('X', [a + b], [0]), ('Z', [a], [1])], [('CZ', [a * b], [0, 1])], [('H', [1.0], [0]), ('Z', [a], [1])], [('X', [a + b], [1])]]),
        (1, [[('X', [W], [0])], [('Z', [a + 1], [0])], [('H', [a + 1], [0])]]),  # name collision '<a + 1>'
        (2, [[('Diag2', [2 * a, b - a], [0, 1])], [('Yshift', [a + b], [1]), ('Z', [b / 2], [0])]]),
        (2, [[('H', [1.0], [0])], [('CX', [1.0], [0, 1])]]),  # nothing to flatten
    ]
    N_FL = len(FL_SHAPES)

    def flat_params_ok(circ):
        for op in circ.all_operations():
            for e in gate_exprs(op.gate):
                if isinstance(e, sympy.Basic) and not isinstance(e, sympy.Symbol):
                    return False
        return True

    def flatten_body(cx, wrong=False):
        si = cx.choose('shape', N_FL)
        how = cx.choose('api', 4)
        n, spec = FL_SHAPES[si]
        qs = cirq.LineQubit.range(n)
        circuit = cirq.Circuit(cirq.Moment(build_ops(m, qs)) for m in spec)
        envs = [{'a': cx.real(f'a{i}', -G, G), 'b': cx.real(f'b{i}', -G, G), '<a + 1>': cx.real(f'w{i}', -G, G)} for i in range(2)]
        used = spec_names(spec)
        for e in envs:
            for k in list(e):
                if k not in used:
                    del e[k]
        if how == 0:
            flat, emap = cirq.flatten(circuit)
            new = [emap.transform_params(dict(envs[0]))]
            envs = envs[:1]
            # every formula of the circuit is a key, every value a distinct symbol, and the new values are the formula values
            vals = list(emap.values())
            cx.check(all(isinstance(v, sympy.Symbol) for v in vals) and len(set(vals)) == len(vals), label='ExpressionMap values are distinct symbols')
            for formula, symb in emap.items():
                cx.close(new[0][symb], PA.ev(formula, envs[0]), label=f'transform_params[{formula}]')
        elif how == 1:
            flat, p1 = cirq.flatten_with_params(circuit, cirq.ParamResolver(dict(envs[0])))
            new = [p1]
            envs = envs[:1]
        elif how == 2:
            keys = sorted(envs[0])
            sweep = cirq.Zip(*[cirq.Points(k, [e[k] for e in envs]) for k in keys]) if keys else cirq.ListSweep([{}, {}])
            flat, nsw = cirq.flatten_with_sweep(circuit, sweep)
            cx.check(len(nsw) == 2, label='flatten_with_sweep keeps the length')
            new = list(nsw)
        else:
            flat, emap = cirq.flatten(circuit)
            nsw = emap.transform_sweep([cirq.ParamResolver(dict(e)) for e in envs])
            cx.check(len(nsw) == 2, label='transform_sweep keeps the length')
            new = [nsw[0], nsw[1]]
        cx.check(flat_params_ok(flat), label='flattened circuit holds only symbols and numbers')
        cx.check(len(flat) == len(circuit) and [len(m) for m in flat] == [len(m) for m in circuit], label='structure kept')
        if not used:
            cx.check(flat is circuit, label='nothing to flatten -> same object')
        for i, (np_, env) in enumerate(zip(new, envs)):
            ro = cirq.resolve_parameters(flat, np_)
            cx.check(not cirq.is_parameterized(ro), label='flattened circuit fully resolved by the transformed assignment')
            steps = steps_of(spec, [env])
            if wrong and i == len(envs) - 1:
                steps = wrong_last(steps)
            cx.close(ro.unitary(qubit_order=qs, qubits_that_should_be_present=qs), oracle_unitary(steps, n), label=f'flatten api{how}: unitary[{i}]')

    obs.append(
        Obligation(
            'flatten.values_preserved',
            flatten_body,
            twin=lambda cx: flatten_body(cx, wrong=True),
            points=sel_points('shape', N_FL) + sel_points('api', 4, 4, {'choose:shape': 1}),
            opts={'weight': 4},
            desc='cirq.flatten + ExpressionMap.transform_params / flatten_with_params / flatten_with_sweep / ExpressionMap.transform_sweep on 5 circuit shapes (shared formulas, plain symbols, name collision <a + 1>, two-parameter gates, nothing to flatten): the flattened circuit holds only symbols, and resolved with the transformed SYMBOLIC assignment(s) it has the unitary of the original at the original assignment',
        )
    )
    obs.extend(tagged_once_obligations(tier))
    return obs


# ================================================================================================
# (10) operations with PARAMETERISED TAGS under one-step (non-recursive) resolution
#
# cirq lets tags take part in the parameter protocols (a sympy expression used as a tag, or a tag object with
# _is_parameterized_ / _parameter_names_ / _resolve_parameters_).  The resolvers used here assign SYMBOLS / NAMES /
# FORMULAS OVER KEYS (chains a -> b -> number, swaps a <-> b, cycles), so one resolution step and recursive
# resolution differ, and the gate and the tags of one operation must be treated with the SAME recursion mode.
# Oracle: oracles/param_step.py (a walk over the expression tree: simultaneous one-step substitution).
# Symbolic: the numbers the chain resolvers end in (v1, v2) and the final assignment (va..vd).
# Enumerated: resolver shape, formula templates, gate kind, tag layout, entry point, container, sub-circuit shape.
# ================================================================================================
TG_K = 3  # one-step resolutions applied one after the other
TG_EX = [a, b, c, -a, 2 * a, a + b, a * b, a - b / 2, a + c, b * c, a * b + c]
# gate parameters INSIDE circuits take the linear templates only (products of symbolic values in the exponents of several gates of one
# circuit are not decided by the VC back end); tags - compared as polynomials - and single operations take all templates
TG_LIN = [a, b, c, -a, 2 * a, a + b, a - b / 2, a + c]


def once_resolvers(v1, v2):
    """resolvers whose VALUES are symbols / names / formulas over their own keys; v1, v2: the numbers chains end in"""
    return {
        'chain2': {a: b, b: v1},
        'swap': {a: b, b: a},
        'chain3': {a: b, b: c, c: v1},
        'str': {'a': 'b', 'b': v1, 'c': v2},
        'formula': {a: b + c, b: d, c: d / 2, d: v1},  # (sums: products of chain values in gate exponents are not decided by the VC back end)
        'cycle3': {a: b, b: c, c: a},
        'num_back': {a: v1, b: a, c: v2},
        'fork': {a: c + d, b: c - d, c: v1, d: v2},
    }


TG_RES = list(once_resolvers(0.5, 0.25))


def tg_env(rname):
    """the structure of a resolver (used to filter menus; never its values)"""
    return PA.env_of(once_resolvers(0.5, 0.25)[rname])


def tg_stages_ok(exprs, stages):
    """no expression ever mixes an assigned NUMBER with a remaining symbol while the stages are applied (such a value would
    have to live inside a sympy expression: outside the symbolic fragment).  stages: [(env, 'once' | 'fix')].  Returns
    None if a recursive stage runs into a cycle, else True / False."""
    for e in exprs:
        st = PS.Stepper()
        cur = e
        for env, mode in stages:
            cur = st.step(cur, env) if mode == 'once' else st.fixpoint(cur, env)
            if cur is None:
                return None
            if st.mixed(cur):
                return False
    return True


def tg_valid(rname, k=TG_K):
    env = tg_env(rname)
    return [e for e in TG_EX if tg_stages_ok([e], [(env, 'once')] * k)]


def tg_gates():
    import cirq

    return {
        'X': (lambda ex, qs: (cirq.X ** ex[0]).on(*qs), lambda v: D.X(v[0])),
        'Z': (lambda ex, qs: (cirq.Z ** ex[0]).on(*qs), lambda v: D.Z(v[0])),
        'H': (lambda ex, qs: (cirq.H ** ex[0]).on(*qs), lambda v: D.H(v[0])),
        'CZ': (lambda ex, qs: (cirq.CZ ** ex[0]).on(*qs), lambda v: D.CZ(v[0])),
        'Diag1': (lambda ex, qs: cirq.DiagonalGate(list(ex)).on(*qs), lambda v: D.diagonal(list(v))),
        # a ControlledOperation below the tags; cirq.unitary is in op.qubits order: control first
        'CtrlX': (lambda ex, qs: (cirq.X ** ex[0]).on(qs[1]).controlled_by(qs[0]), lambda v: D.CX(v[0])),
    }


def tg_tagspecs(te, te2):
    """tag layouts as (kind, payload) lists.  lit: plain tag (the str 'a' is NOT the symbol a); raw: the sympy expression itself
    is the tag; PT / NT: tag objects (NT has no _is_parameterized_); '|': TaggedOperation(TaggedOperation(op, inner..), outer..)"""
    return [
        [('raw', te)],
        [('PT', te)],
        [('lit', 'a'), ('PT', te), ('raw', te2), ('lit', 7)],
        [('NT', te), ('PT', te2)],
        [('PT', te), '|', ('raw', te2), ('lit', 'plain')],
    ]


N_TAGSPEC = 5


def tg_tag(kind, payload):
    return ParamTag(payload) if kind == 'PT' else NamesTag(payload) if kind == 'NT' else payload


def tg_wrap(op, tagspec):
    import cirq

    if not tagspec:
        return op
    if '|' in tagspec:
        i = tagspec.index('|')
        inner = cirq.TaggedOperation(op, *[tg_tag(*t) for t in tagspec[:i]])
        return cirq.TaggedOperation(inner, *[tg_tag(*t) for t in tagspec[i + 1 :]])
    return op.with_tags(*[tg_tag(*t) for t in tagspec])


def tg_build_op(opd, q):
    """opd = (gate kind, [expressions], [qubit positions], tag layout)"""
    g, ex, pos, tagspec = opd
    return tg_wrap(tg_gates()[g][0](list(ex), [q[p] for p in pos]), tagspec)


def tg_exp_slots(opd):
    _g, ex, _pos, tagspec = opd
    return [('gate', e) for e in ex] + [t for t in tagspec if t != '|']


def tg_act_slots(op):
    """harness-side walk over a real operation: gate parameters, then the tags (innermost TaggedOperation first)"""
    import cirq

    layers = []
    while isinstance(op, cirq.TaggedOperation):
        layers.insert(0, list(op.tags))
        op = op.sub_operation
    return list(gate_exprs(op.gate)) + [t for layer in layers for t in layer]


def tg_match(cx, st, actual, exp, Nres, Nenv, label):
    """one slot of the real object against the oracle expression after the same steps"""
    import cirq

    no_opaque(actual, label)
    if st.numeric(exp):
        isnum = not isinstance(actual, sympy.Basic)
        cx.check(isnum, label=f'{label}: holds a number')
        if isnum:
            cx.close(actual, st.value(exp, {}), label=f'{label}: value')
        return
    ok = isinstance(actual, sympy.Basic) and cirq.parameter_names(actual) == st.names(exp)
    cx.check(ok, label=f'{label}: symbols left')
    if not ok:
        return
    if isinstance(exp, sympy.Symbol):
        cx.check(actual == exp, label=f'{label}: is exactly the symbol')
    else:
        cx.close(Nres.value_of(actual), st.value(exp, Nenv), label=f'{label}: formula, evaluated at symbolic values')


def tg_compare(cx, st, acts, exps, Nres, Nenv, label):
    """all slots; returns the parameter names the oracle expects"""
    cx.check(len(acts) == len(exps), label=f'{label}: number of gate parameters and tags')
    names = set()
    for i, (act, (kind, e)) in enumerate(zip(acts, exps)):
        lab = f'{label}: slot {i} ({kind})'
        if kind == 'lit':
            cx.check(type(act) is type(e) and act == e, label=f'{lab}: plain tag kept')
            continue
        if kind in ('PT', 'NT'):
            okt = type(act) is (ParamTag if kind == 'PT' else NamesTag)
            cx.check(okt, label=f'{lab}: tag type kept')
            if not okt:
                continue
            act = act.value
        tg_match(cx, st, act, e, Nres, Nenv, lab)
        names |= st.names(e)
    return names


def tg_step_slots(st, exps, env, mode='once'):
    out = []
    for kind, e in exps:
        if kind != 'lit':
            e = st.step(e, env) if mode == 'once' else st.fixpoint(e, env)
        out.append((kind, e))
    return out


def tg_names_check(cx, obj, names, label):
    import cirq

    cx.check(set(cirq.parameter_names(obj)) == names, label=f'{label}: parameter_names')
    cx.check(bool(cirq.is_parameterized(obj)) == bool(names), label=f'{label}: is_parameterized')


def tg_entry(kind, Rraw):
    """the public ways to make ONE resolution step"""
    import cirq

    if kind == 0:
        return lambda o: cirq.resolve_parameters_once(o, dict(Rraw))
    res = cirq.ParamResolver(dict(Rraw))
    if kind == 2:
        # recursive queries first: they fill the resolver's cache of FULLY resolved values, which one step must not use
        for k in ('a', 'b', 'c', 'd'):
            try:
                res.value_of(k)
            except RecursionError:
                pass
    if kind == 3:
        return lambda o: o._resolve_parameters_(res, False)
    return lambda o: cirq.resolve_parameters(o, res, recursive=False)


def tg_unitary_steps(st, opds, exps_per_op, Nenv):
    G_ = tg_gates()
    out = []
    for (g, ex, pos, _t), exps in zip(opds, exps_per_op):
        vals = [st.value(e, Nenv) for kind, e in exps if kind == 'gate']
        out.append((G_[g][1](vals), list(pos)))
    return out


def tg_flat_ops(obj):
    import cirq

    if isinstance(obj, cirq.Operation):
        return [obj]
    if isinstance(obj, cirq.Moment):
        return list(obj.operations)
    if isinstance(obj, cirq.AbstractCircuit):
        return list(obj.all_operations())
    out = []
    for x in obj:
        out.extend(tg_flat_ops(x))
    return out


def tagged_once_obligations(tier):
    import cirq

    quick = tier == 'quick'
    obs = []
    OP_GATES = [('X', 1, [0]), ('CZ', 1, [0, 1]), ('Diag1', 2, [0]), ('CtrlX', 1, [0, 1])]

    # ---------------------------------------------------------------------------------------------
    # (10a) one TaggedOperation
    # ---------------------------------------------------------------------------------------------
    def op_combos(rname):
        nv = len(tg_valid(rname))
        return [(gi, ei, ti, ek) for gi in range(4) for ei in range(nv) for ti in range(N_TAGSPEC) for ek in range(4)]

    def op_body(cx, rname, wrong=False):
        v1, v2 = cx.real('v1', -G, G), cx.real('v2', -G, G)
        Nenv = {n: cx.real('v' + n, -G, G) for n in 'abcd'}
        Nres = cirq.ParamResolver(dict(Nenv))
        combos = op_combos(rname)
        gi, ei, ti, ek = combos[cx.choose('combo', len(combos))]
        V = tg_valid(rname)
        Rraw = once_resolvers(v1, v2)[rname]
        Renv = PA.env_of(Rraw)
        g, ns, pos = OP_GATES[gi]
        ge = [V[(ei + 2 * j) % len(V)] for j in range(ns)]
        te, te2 = V[(ei + 1) % len(V)], V[(ei + 2) % len(V)]
        opd = (g, ge, pos, tg_tagspecs(te, te2)[ti])
        q = cirq.LineQubit.range(2)
        op0 = tg_build_op(opd, q)
        st = PS.Stepper()
        exp0 = tg_exp_slots(opd)
        lab = f'{rname}/{g}/tags{ti}/entry{ek}'

        names = tg_compare(cx, st, tg_act_slots(op0), exp0, Nres, Nenv, f'{lab}: as built')
        tg_names_check(cx, op0, names, f'{lab}: as built')

        # K single steps, one after the other
        entry = tg_entry(ek, Rraw)
        cur, exp = op0, exp0
        trail = []
        for k in range(1, TG_K + 1):
            before = set(cirq.parameter_names(cur))
            nxt = entry(cur)
            exp = tg_step_slots(st, exp, Renv)
            trail.append(exp)
            cx.check(isinstance(nxt, cirq.TaggedOperation) and nxt.qubits == op0.qubits, label=f'{lab}: step {k}: still a tagged operation on the same qubits')
            names = tg_compare(cx, st, tg_act_slots(nxt), exp, Nres, Nenv, f'{lab}: step {k}')
            tg_names_check(cx, nxt, names, f'{lab}: step {k}')
            cx.check(set(cirq.parameter_names(cur)) == before, label=f'{lab}: step {k}: argument not modified')
            cur = nxt

        # the resolver composed with itself by ONE-STEP composition, applied once == two single steps
        R1 = cirq.ParamResolver(dict(Rraw))
        comp = cirq.resolve_parameters_once(R1, cirq.ParamResolver(dict(Rraw)))
        via = cirq.resolve_parameters_once(op0, comp)
        names = tg_compare(cx, st, tg_act_slots(via), trail[1], Nres, Nenv, f'{lab}: once(op, once(R, R))')
        tg_names_check(cx, via, names, f'{lab}: once(op, once(R, R))')

        # recursive resolution of the same operation: gate and tags to the fixed point, or RecursionError for a cycle
        rec_ok = tg_stages_ok([e for kind, e in exp0 if kind != 'lit'], [(Renv, 'fix')])
        if rec_ok is None:
            cx.check(raises(RecursionError, lambda: cirq.resolve_parameters(op0, dict(Rraw))), label=f'{lab}: cycle -> RecursionError in recursive mode')
        elif rec_ok:
            rec = cirq.resolve_parameters(op0, dict(Rraw))
            fix = tg_step_slots(st, exp0, Renv, 'fix')
            names = tg_compare(cx, st, tg_act_slots(rec), fix, Nres, Nenv, f'{lab}: recursive')
            tg_names_check(cx, rec, names, f'{lab}: recursive')

        # finally every remaining symbol gets a (symbolic) number
        fin = cirq.resolve_parameters(cur, Nres)
        fexp = [(kind, e if kind == 'lit' else st.value(e, Nenv)) for kind, e in exp]
        tg_compare(cx, st, tg_act_slots(fin), fexp, Nres, Nenv, f'{lab}: final')
        tg_names_check(cx, fin, set(), f'{lab}: final')
        want = tg_unitary_steps(st, [opd], [exp], Nenv)[0][0]
        if wrong:
            want = perturb(want)
        cx.close(cirq.unitary(fin), want, label=f'{lab}: unitary after {TG_K} single steps + final assignment')

    for rname in TG_RES:
        nc = len(op_combos(rname))
        obs.append(
            Obligation(
                f'resolve.tagged_once.op.{rname}',
                lambda cx, rname=rname: op_body(cx, rname),
                twin=lambda cx, rname=rname: op_body(cx, rname, wrong=True),
                points=[{'choose:combo': i} for i in range(0, nc, max(1, nc // 6))][:6],
                opts={'weight': 3},
                desc=f'TaggedOperation with parameterised tags, resolver shape {rname} = {once_resolvers("v1", "v2")[rname]} (v1, v2 SYMBOLIC numbers): {TG_K} single steps '
                f'(resolve_parameters_once / recursive=False on a shared resolver, also after recursive queries filled its cache / _resolve_parameters_(r, False)) '
                f'over {len(tg_valid(rname))} formula templates x {N_TAGSPEC} tag layouts (sympy expression as a tag, tag objects with and without _is_parameterized_, plain tags incl. the str "a", nested TaggedOperation) '
                f'x 4 sub-operations (X, CZ, two-slot DiagonalGate, ControlledOperation) [{nc} combinations, full product]: after EVERY step the gate parameters AND every tag equal the one-step substitution of the oracle '
                'walk (exact symbols, formulas compared at SYMBOLIC values), parameter_names / is_parameterized agree, the argument is unchanged; once(op, once(R, R)) == two steps; recursive mode reaches the fixed point or raises RecursionError for cycles; '
                'after a final SYMBOLIC assignment all tags are the expected numbers and cirq.unitary is the documented matrix',
            )
        )

    # ---------------------------------------------------------------------------------------------
    # (10b) Moment / Circuit / FrozenCircuit / op sequences holding such operations, circuit-level tags
    # ---------------------------------------------------------------------------------------------
    LEVELS = ['moment', 'circuit', 'frozen', 'sequence', 'tags_only', 'moment_tag_only']

    def cont_spec(level, e0, e1, e2):
        opA = ('X', [e0], [0], [('PT', e1), ('raw', e2)])
        opB = ('Z', [e1], [1], [])
        opC = ('X', [0.5], [2], [('lit', 'a'), ('NT', e2)])  # ONLY the tag is parameterised
        opD = ('H', [1.0], [1], [])
        ctags = [('PT', e0), ('lit', 'plain'), ('raw', e1)]
        if level == 'moment':
            return [[opA, opB, opC]], []
        if level in ('circuit', 'frozen'):
            return [[opA, opB], [opD], [opC]], ctags
        if level == 'sequence':
            return [[opA], [opB, opC]], []
        if level == 'tags_only':
            return [[opD], [opC]], ctags
        return [[opC, opD]], []

    def cont_build(level, groups, ctags, q):
        built = [[tg_build_op(o, q) for o in grp] for grp in groups]
        if level in ('moment', 'moment_tag_only'):
            return cirq.Moment(built[0])
        if level == 'sequence':
            return (built[0][0], list(built[1]))
        circ = cirq.Circuit([cirq.Moment(grp) for grp in built], tags=[tg_tag(*t) for t in ctags])
        return circ.freeze() if level == 'frozen' else circ

    def cont_acts(obj):
        acts = [tg_act_slots(o) for o in tg_flat_ops(obj)]
        ctags = list(obj.tags) if isinstance(obj, cirq.AbstractCircuit) else []
        return acts, ctags

    def cont_compare(cx, st, obj, exps_ops, exps_tags, Nres, Nenv, lab):
        acts, ctags = cont_acts(obj)
        cx.check(len(acts) == len(exps_ops), label=f'{lab}: number of operations')
        names = set()
        for i, (a_, e_) in enumerate(zip(acts, exps_ops)):
            names |= tg_compare(cx, st, a_, e_, Nres, Nenv, f'{lab}: op {i}')
        names |= tg_compare(cx, st, ctags, exps_tags, Nres, Nenv, f'{lab}: circuit tags')
        if isinstance(obj, (tuple, list)):
            cx.check(set(cirq.parameter_names(obj)) == names and bool(cirq.is_parameterized(obj)) == bool(names), label=f'{lab}: names of the sequence')
        else:
            tg_names_check(cx, obj, names, lab)

    def cont_shape_ok(obj0, obj, lab, cx):
        if isinstance(obj0, cirq.Moment):
            cx.check(isinstance(obj, cirq.Moment) and obj.qubits == obj0.qubits, label=f'{lab}: a Moment on the same qubits')
        elif isinstance(obj0, cirq.AbstractCircuit):
            cx.check(type(obj) is type(obj0) and len(obj) == len(obj0), label=f'{lab}: circuit type and length kept')
            for m0, m1 in zip(obj0.moments, obj.moments):
                if not cirq.is_parameterized(m0):
                    cx.check(m1 is m0, label=f'{lab}: moment without parameters is the same object')
        else:
            cx.check(isinstance(obj, tuple) and isinstance(obj[1], list), label=f'{lab}: sequence types kept')

    def cont_triples(rname):
        V = tg_valid(rname)
        L = [e for e in TG_LIN if e in V]  # gate slots (e0, e1)
        T = [e for e in V if e not in TG_LIN] + L  # e2 sits in tags only: non-linear templates first
        tr = [(L[i], L[(i + 1) % len(L)], T[i % len(T)]) for i in range(len(L))]
        return tr

    def cont_combos(rname):
        nt = len(cont_triples(rname))
        return [(li, xi, ek) for li in range(len(LEVELS)) for xi in range(nt) for ek in range(3)]

    def cont_body(cx, rname, wrong=False):
        v1, v2 = cx.real('v1', -G, G), cx.real('v2', -G, G)
        Nenv = {n: cx.real('v' + n, -G, G) for n in 'abcd'}
        Nres = cirq.ParamResolver(dict(Nenv))
        triples = cont_triples(rname)
        combos = cont_combos(rname)
        li, xi, ek = combos[cx.choose('combo', len(combos))]  # (_resolve_parameters_ is not defined for plain sequences: entries 0..2)
        level = LEVELS[li]
        Rraw = once_resolvers(v1, v2)[rname]
        Renv = PA.env_of(Rraw)
        groups, ctags = cont_spec(level, *triples[xi])
        q = cirq.LineQubit.range(3)
        obj0 = cont_build(level, groups, ctags, q)
        opds = [o for grp in groups for o in grp]
        st = PS.Stepper()
        exps = [tg_exp_slots(o) for o in opds]
        etags = list(ctags)
        lab = f'{rname}/{level}/exprs{xi}/entry{ek}'
        cont_compare(cx, st, obj0, exps, etags, Nres, Nenv, f'{lab}: as built')

        # a resolver about other symbols changes nothing (one-step mode)
        same = cirq.resolve_parameters_once(obj0, {'zz': v1, 'yy': a})
        if isinstance(obj0, cirq.Moment) and all(isinstance(e, sympy.Symbol) for e in triples[xi]):
            # (formulas may be rebuilt by value_of, e.g. -a -> -1.0*a: identity is expected for plain symbols only)
            cx.check(same is obj0, label=f'{lab}: unrelated resolver: same Moment object')
        cont_compare(cx, st, same, exps, etags, Nres, Nenv, f'{lab}: unrelated resolver')

        entry = tg_entry(ek, Rraw)
        cur = obj0
        for k in range(1, TG_K + 1):
            before = set(cirq.parameter_names(cur))
            nxt = entry(cur)
            exps = [tg_step_slots(st, e, Renv) for e in exps]
            etags = tg_step_slots(st, etags, Renv)
            cont_shape_ok(cur, nxt, f'{lab}: step {k}', cx)
            cont_compare(cx, st, nxt, exps, etags, Nres, Nenv, f'{lab}: step {k}')
            cx.check(set(cirq.parameter_names(cur)) == before, label=f'{lab}: step {k}: argument not modified')
            cur = nxt

        all0 = [e for es in [tg_exp_slots(o) for o in opds] + [list(ctags)] for kind, e in es if kind != 'lit']
        rec_ok = tg_stages_ok(all0, [(Renv, 'fix')])
        if rec_ok is None:
            cx.check(raises(RecursionError, lambda: cirq.resolve_parameters(obj0, dict(Rraw))), label=f'{lab}: cycle -> RecursionError in recursive mode')
        elif rec_ok:
            st2 = PS.Stepper()
            rec = cirq.resolve_parameters(obj0, dict(Rraw))
            cont_compare(cx, st2, rec, [tg_step_slots(st2, tg_exp_slots(o), Renv, 'fix') for o in opds], tg_step_slots(st2, list(ctags), Renv, 'fix'), Nres, Nenv, f'{lab}: recursive')

        fin = cirq.resolve_parameters(cur, Nres)
        val = lambda es: [(kind, e if kind == 'lit' else st.value(e, Nenv)) for kind, e in es]  # noqa: E731
        cont_compare(cx, st, fin, [val(e) for e in exps], val(etags), Nres, Nenv, f'{lab}: final')
        steps = tg_unitary_steps(st, opds, exps, Nenv)
        if wrong:
            steps = wrong_last(steps)
        circ = fin if isinstance(fin, cirq.AbstractCircuit) else cirq.Circuit(tg_flat_ops(fin))
        cx.close(circ.unitary(qubit_order=q, qubits_that_should_be_present=q), oracle_unitary(steps, 3), label=f'{lab}: unitary after {TG_K} single steps + final assignment')

    for rname in TG_RES:
        nt = len(cont_triples(rname))
        ncc = len(cont_combos(rname))
        obs.append(
            Obligation(
                f'resolve.tagged_once.containers.{rname}',
                lambda cx, rname=rname: cont_body(cx, rname),
                twin=lambda cx, rname=rname: cont_body(cx, rname, wrong=True),
                points=[{'choose:combo': i} for i in range(0, ncc, max(1, ncc // 6))][:6],
                opts={'weight': 4},
                desc=f'Moment / Circuit / FrozenCircuit (with parameterised CIRCUIT tags) / (op, [op, op]) sequences / circuits and moments whose ONLY parameters sit in tags, resolver shape {rname}, {nt} formula triples (gate slots: linear templates, tags: all templates), 3 entry points [{ncc} combinations]: '
                f'{TG_K} single steps at the container level; after every step each operation (gate AND tags) and each circuit tag equals the one-step substitution, names agree, container type / length / qubits kept, unparameterised moments stay the same object, '
                'a change that is in a tag only is not lost; unrelated resolver changes nothing; recursive mode = fixed point or RecursionError; final SYMBOLIC assignment -> unitary == product of documented matrices, tags == expected numbers',
            )
        )

    # ---------------------------------------------------------------------------------------------
    # (10c) CircuitOperation whose param_resolver (always ONE step) acts on tagged parameterised operations
    # ---------------------------------------------------------------------------------------------
    COP_SHAPES = ['one_qubit', 'two_qubit', 'tags_only', 'tagged_cop', 'nested', 'repeated', 'circuit_tags']
    OUTERS = ['numeric', 'once_chain', 'once_swap_twice', 'rec_chain', 'rec_chain_num', 'with_params', 'with_params_rec', 'rec_loop']
    OWN2 = {'a': b, 'b': a}  # param_resolver of the OUTER sub-circuit in the nested shape

    def cop_spec(shape, e0, e1, e2):
        """-> (inner op descriptions, outer op descriptions, tags on the CircuitOperation itself, circuit tags, repetitions, #qubits)"""
        A1 = ('X', [e0], [0], [('PT', e1), ('raw', e2)])
        A2 = ('X', [e0], [0], [('PT', e1)])
        Bz = ('CZ', [e1], [0, 1], [('raw', e2), ('lit', 'a')])
        if shape == 'one_qubit':
            return [A1], [], [], [], 1, 1
        if shape == 'two_qubit':
            return [A2, Bz], [], [], [], 1, 2
        if shape == 'tags_only':
            return [('X', [0.5], [0], [('NT', e0)]), ('CZ', [1.0], [0, 1], [('raw', e1)])], [], [], [], 1, 2
        if shape == 'tagged_cop':
            return [A2, Bz], [], [('PT', e2), ('lit', 'plain'), ('raw', e0)], [], 1, 2
        if shape == 'nested':
            return [A2], [('Z', [e1], [0], [('NT', e0)])], [], [], 1, 1
        if shape == 'repeated':
            # (two qubits: the single-qubit _unitary_ short cut uses numpy.linalg.matrix_power, which cannot carry solver values)
            return [A2, Bz], [], [], [], 2, 2
        return [A2, Bz], [], [], [('PT', e2)], 1, 2

    def cop_outer_stages(outer, v1):
        """what is applied from outside: [(raw resolver, 'once' | 'fix', how)]"""
        chain = {a: b, b: v1}
        swap = {a: b, b: a}
        symchain = {a: b, b: c}
        return {
            'numeric': [],
            'once_chain': [(chain, 'once', 'once')],
            'once_swap_twice': [(swap, 'once', 'once'), (swap, 'once', 'kw')],
            'rec_chain': [(symchain, 'fix', 'rec')],
            'rec_chain_num': [(chain, 'fix', 'rec')],
            'with_params': [(swap, 'once', 'with_params')],
            'with_params_rec': [(symchain, 'fix', 'with_params_rec')],
            'rec_loop': [(swap, 'fix', 'rec')],
        }[outer]

    def cop_all_stage_envs(shape, own, outer):
        ownenv = tg_env(own)
        inner = [(ownenv, 'once')] + ([(OWN2, 'once')] if shape == 'nested' else [])
        outerst = [(PA.env_of(r), m) for r, m, _h in cop_outer_stages(outer, 0.5)]
        return inner, outerst

    def cop_triples(shape, own, outer):
        """formula triples for which no slot mixes numbers and symbols on the way (structure only)"""
        inner, outerst = cop_all_stage_envs(shape, own, outer)
        n, nl = len(TG_EX), len(TG_LIN)
        out = []
        for i in range(n):
            tr = (TG_LIN[i % nl], TG_LIN[(i + 1) % nl], TG_EX[(2 * i + 6) % n])  # e2 sits in tags only
            pre_out = [(OWN2, 'once')] if shape == 'nested' else []
            if outer == 'rec_loop':
                # only the stages before the recursive one matter: the body expects RecursionError exactly when a or b is still named
                if tg_stages_ok(tr, inner) and tg_stages_ok(tr, pre_out):
                    out.append(tr)
            elif tg_stages_ok(tr, inner + outerst) and tg_stages_ok(tr, pre_out + outerst):
                out.append(tr)
        return out

    def cop_combos(own):
        out = []
        for si, shape in enumerate(COP_SHAPES):
            for oi, outer in enumerate(OUTERS):
                nt = len(cop_triples(shape, own, outer))
                for xi in ([(si + oi + j) % nt for j in range(min(3, nt))] if quick else range(nt)):
                    out.append((si, oi, xi))
        return out

    def cop_slots(obj):
        """real object -> slots: tags on the CircuitOperation itself, then every operation of mapped_circuit(deep=True)"""
        outer_tags = []
        if isinstance(obj, cirq.TaggedOperation):
            outer_tags = list(obj.tags)
            obj = obj.sub_operation
        mc = obj.mapped_circuit(deep=True)
        return outer_tags, [tg_act_slots(o) for o in mc.all_operations()], obj

    def cop_body(cx, own, wrong=False):
        v1, v2 = cx.real('v1', -G, G), cx.real('v2', -G, G)
        Nenv = {n: cx.real('v' + n, -G, G) for n in 'abcd'}
        Nres = cirq.ParamResolver(dict(Nenv))
        combos = cop_combos(own)
        si, oi, xi = combos[cx.choose('combo', len(combos))]
        shape, outer = COP_SHAPES[si], OUTERS[oi]
        tr = cop_triples(shape, own, outer)[xi]
        ownraw = once_resolvers(v1, v2)[own]
        ownenv = PA.env_of(ownraw)
        inner_ops, outer_ops, self_tags, circ_tags, reps, nq = cop_spec(shape, *tr)
        q = cirq.LineQubit.range(2)
        lab = f'{own}/{shape}/{outer}/exprs{xi}'
        st = PS.Stepper()

        sub = cirq.FrozenCircuit([tg_build_op(o, q) for o in inner_ops], tags=[tg_tag(*t) for t in circ_tags])
        cop = cirq.CircuitOperation(sub, param_resolver=dict(ownraw), repetitions=reps)
        if shape == 'nested':
            cop = cirq.CircuitOperation(cirq.FrozenCircuit(cop, *[tg_build_op(o, q) for o in outer_ops]), param_resolver={a: b, b: a})
        obj = tg_wrap(cop, self_tags)

        # the slots as they are seen from OUTSIDE: the sub-circuit's own map makes ONE step (a <-> b exchanges, a -> b -> number stops at b)
        e_in = [tg_step_slots(st, tg_exp_slots(o), ownenv) for o in inner_ops]
        e_ct = tg_step_slots(st, list(circ_tags), ownenv)
        e_out = [tg_exp_slots(o) for o in outer_ops]
        if shape == 'nested':
            e_in = [tg_step_slots(st, e, OWN2) for e in e_in]
            e_out = [tg_step_slots(st, e, OWN2) for e in e_out]
        e_self = list(self_tags)
        opds = (inner_ops + outer_ops) * reps

        def compare(o, what):
            stags, acts, base = cop_slots(o)
            exps = (e_in + e_out) * reps
            cx.check(len(acts) == len(exps), label=f'{lab}: {what}: operations of the mapped circuit')
            names = tg_compare(cx, st, stags, e_self, Nres, Nenv, f'{lab}: {what}: tags of the CircuitOperation')
            for i, (a_, e_) in enumerate(zip(acts, exps)):
                names |= tg_compare(cx, st, a_, e_, Nres, Nenv, f'{lab}: {what}: mapped op {i}')
            for kind, e in e_ct:
                names |= st.names(e)
            tg_names_check(cx, o, names, f'{lab}: {what}')
            return names

        names0 = compare(obj, 'as built')

        cur = obj
        for raw, mode, how in cop_outer_stages(outer, v1):
            env = PA.env_of(raw)
            before = set(cirq.parameter_names(cur))
            if outer == 'rec_loop':
                hit = bool(names0 & {'a', 'b'})
                cx.check(raises(RecursionError, lambda: cirq.resolve_parameters(cur, dict(raw))) == hit, label=f'{lab}: recursive resolution by a cycle raises exactly when the mapped sub-circuit still names a or b')
                break
            if how == 'once':
                nxt = cirq.resolve_parameters_once(cur, dict(raw))
            elif how == 'kw':
                nxt = cirq.resolve_parameters(cur, cirq.ParamResolver(dict(raw)), recursive=False)
            elif how == 'rec':
                nxt = cirq.resolve_parameters(cur, dict(raw))
            else:
                # with_params is a method of the CircuitOperation: tags on the operation itself are not touched
                base = cur.sub_operation if isinstance(cur, cirq.TaggedOperation) else cur
                nxt = tg_wrap(base.with_params(dict(raw), recursive=(how == 'with_params_rec')), [])
                if isinstance(cur, cirq.TaggedOperation):
                    nxt = nxt.with_tags(*cur.tags)
            e_in = [tg_step_slots(st, e, env, mode) for e in e_in]
            e_out = [tg_step_slots(st, e, env, mode) for e in e_out]
            e_ct = tg_step_slots(st, e_ct, env, mode)
            if how not in ('with_params', 'with_params_rec'):
                e_self = tg_step_slots(st, e_self, env, mode)
            compare(nxt, f'after {how}')
            cx.check(set(cirq.parameter_names(cur)) == before, label=f'{lab}: argument not modified')
            cur = nxt

        fin = cirq.resolve_parameters(cur, Nres)
        val = lambda es: [(kind, e if kind == 'lit' else st.value(e, Nenv)) for kind, e in es]  # noqa: E731
        e_in, e_out, e_self, e_ct = [val(e) for e in e_in], [val(e) for e in e_out], val(e_self), val(e_ct)
        compare(fin, 'final')
        steps = tg_unitary_steps(st, opds, (e_in + e_out) * reps, Nenv)
        if wrong:
            steps = wrong_last(steps)
        want = oracle_unitary(steps, nq)
        if nq == 1:
            cx.close(cirq.unitary(fin), want, label=f'{lab}: cirq.unitary(resolved sub-circuit operation)')
        cx.close(cirq.Circuit(fin).unitary(qubit_order=q[:nq], qubits_that_should_be_present=q[:nq]), want, label=f'{lab}: unitary of a circuit holding the resolved operation')

    for own in ['swap', 'chain2', 'cycle3', 'formula', 'num_back']:
        nc = len(cop_combos(own))
        obs.append(
            Obligation(
                f'resolve.tagged_once.circuit_op.{own}',
                lambda cx, own=own: cop_body(cx, own),
                twin=lambda cx, own=own: cop_body(cx, own, wrong=True),
                points=[{'choose:combo': i} for i in range(0, nc, max(1, nc // 8))][:8],
                opts={'weight': 5},
                desc=f'CircuitOperation(param_resolver = {once_resolvers("v1", "v2")[own]}) over tagged parameterised operations: {len(COP_SHAPES)} shapes (1 / 2 qubits, parameters ONLY in tags, tags on the CircuitOperation itself, nested sub-circuits '
                f'with two maps, repetitions=2, parameterised circuit tags) x {len(OUTERS)} outer actions (final assignment only, resolve_parameters_once by a chain, a swap twice, recursive resolution by symbol chains / number chains / a cycle, with_params one-step and recursive) '
                f'x {'<= 3 formula triples (rotated)' if quick else 'all admissible formula triples'} [{nc} combinations]: parameter_names / is_parameterized and every gate parameter and tag of mapped_circuit(deep=True) equal own map as ONE step, then the outer action (its own recursion mode) by the oracle walk; '
                'RecursionError exactly for cycles; final SYMBOLIC assignment -> tags == expected numbers, unitary == product of documented matrices',
            )
        )
    return obs


def close_up_to_phase(cx, A, Bm, tol, label):
    """A == c * B for a unit complex c:  A @ B^dagger is c * identity (B is unitary by construction)"""
    A = np.asarray(A, dtype=object)
    Bm = np.asarray(Bm, dtype=object)
    n = A.shape[0]
    Bd = np.empty((n, n), dtype=object)
    for i in range(n):
        for j in range(n):
            e = Bm[i, j]
            Bd[j, i] = e.conjugate() if hasattr(e, 'conjugate') else np.conj(e)
    Mx = A @ Bd
    c0 = Mx[0, 0]
    want = np.zeros((n, n), dtype=object)
    for i in range(n):
        want[i, i] = c0
    cx.close(Mx, want, tol=tol, label=label)
    cc = c0 * (c0.conjugate() if hasattr(c0, 'conjugate') else np.conj(c0))
    cx.close(cc, 1.0, tol=tol, label=label + ' |c|=1')


def _outer(v):
    v = np.asarray(v, dtype=object).reshape(-1)
    n = len(v)
    out = np.empty((n, n), dtype=object)
    for i in range(n):
        for j in range(n):
            x = v[j]
            out[i, j] = v[i] * (x.conjugate() if hasattr(x, 'conjugate') else np.conj(x))
    return out


LEVEL = (
    'Bounded symbolic execution of the real parameter code, SMT-decided: the numbers that resolvers and sweeps assign (reals, one integer), '
    'Linspace endpoints, point values and sweep indices / slice bounds are solver variables that flow through the real ParamResolver.value_of '
    'fast paths and recursion cache, resolver composition, every _resolve_parameters_ of gates / operations / moments / circuits / sub-circuits, '
    'simulate_sweep with its unparameterised-prefix reuse, the Sweep classes and cirq.flatten; z3 decides agreement with ordinary algebra on the '
    'expression tree, with documented gate matrices at the substituted values and with sweeps written out as Python lists, for ALL values in the '
    'boxes. Expression templates, resolver shapes, gate families, container kinds, circuit shapes, edits and sweep trees are finite menus that '
    'are exhausted (solver-driven bounded exploration); integer indices are partitioned by the solver along the real range tests and then per value. '
    'One-step (non-recursive) resolution - resolve_parameters_once, recursive=False, CircuitOperation.param_resolver / with_params - of operations whose '
    'TAGS are parameterised (sympy expressions used as tags, tag objects in the parameter protocols) is executed with resolvers whose values are symbols / '
    'names / formulas over their own keys (chains ending in SYMBOLIC numbers, swaps, cycles) at the TaggedOperation, Moment, Circuit, FrozenCircuit and '
    'CircuitOperation level: after every step the gate parameters and every tag are compared with a one-step substitution walk over the expression tree '
    '(oracles/param_step.py), formulas as polynomials in symbolic values.'
)


def main(tier, seed=0, replay=None, only=None, procs=None):
    bounds = {
        'symbolic': 'values assigned by resolvers and sweeps (reals), one integer-valued assignment, Linspace endpoints, Points values, initial state amplitudes (simulate_sweep), sweep index and slice start/stop/step (integers)',
        'value_box': [-B, B],
        'gate_value_box': [-G, G],
        'expression_templates': [t[0] for t in templates()],
        'expression_depth': '<= 3 over Symbol, Add, Mul, Pow with constant integer power (incl. -1), Integer / Rational / Float / pi constants',
        'resolver_chains': '<= 3 links, str and Symbol keys / values',
        'gate_families': list(families()),
        'containers': '18 kinds (recursive mode; one-step mode with parameterised tags: see tagged_one_step): tagged (plain and parameterised tag), controlled op (control value 1 and 0), Moment, Circuit, FrozenCircuit, CircuitOperation (param_resolver incl. a<->b swap, repetitions=2, qubit_map, nested), circuit tags, op sequences, resolve_parameters_once, unrelated / partial resolvers; <= 2 qubits, <= 4 moments',
        'gate_transformations': 'decompose_once / inverse / square / controlled_by before resolution, 5 linear formula templates per family',
        'transformers': 'expand_composite, align_left, eject_z, eject_phased_paulis (both with eject_parameterized=True, compared up to global phase), drop_empty_moments, full decompose on 2 circuits of 2 qubits',
        'edits': '22 single edits after filling the caches, 2 base circuits',
        'simulate_sweep': '6 circuit shapes on 2-3 qubits, 2 assignments, Simulator / DensityMatrixSimulator, split on/off, basis or symbolic initial state',
        'sweep_trees': 'depth <= 2, factor lengths <= 4, 29 shapes (15 for indexing, 4 for slicing in the quick tier)',
        'slice_box': 'start/stop in [-5,5] quick / [-8,8] thorough, step in [-3,3] without 0',
        'tagged_one_step': {
            'symbolic': 'the numbers the chain resolvers end in (v1, v2) and the final assignment (va..vd), all in gate_value_box',
            'resolver_shapes': {k: str(v) for k, v in once_resolvers('v1', 'v2').items()},
            'formula_templates': [str(e) for e in TG_EX],
            'formula_templates_for_gates_inside_circuits': [str(e) for e in TG_LIN],
            'steps': f'{TG_K} single steps, then a final numeric assignment; recursive mode on the same object (fixed point or RecursionError)',
            'tag_layouts': 'sympy expression as tag / ParamTag / NamesTag (no _is_parameterized_) / plain tags (str "a", int) mixed in / nested TaggedOperation; <= 4 tags',
            'sub_operations': 'X, CZ, DiagonalGate (2 slots), ControlledOperation; inside circuits X, Z, CZ, H',
            'entry_points': 'resolve_parameters_once(dict), resolve_parameters(recursive=False) on a shared ParamResolver (fresh / after recursive queries filled its cache), _resolve_parameters_(r, False), once(op, once(R, R))',
            'containers': 'Moment, Circuit and FrozenCircuit with parameterised circuit tags, (op, [op, op]) sequence, circuits / moments whose only parameters are in tags; 3 qubits, <= 3 moments',
            'circuit_operation': '7 shapes (1-2 qubits, tags only, tags on the CircuitOperation, nested with two maps, repetitions=2, circuit tags) x 8 outer actions x 5 own maps; quick: <= 3 formula triples per cell',
            'filter': 'menu entries in which an intermediate result would mix an assigned NUMBER with a remaining symbol inside one formula (b + 0.25) are dropped by the STRUCTURE of resolver and formula (sympy cannot carry solver values); '
            'recursive-mode comparison is skipped (not the one-step part) where only the recursive result mixes',
        },
        'tolerance': 1e-7,
        'outside': [
            'one-step resolution results that mix an assigned number and a remaining symbol in ONE formula (a + c under {a: b, c: 0.25}); tags whose _resolve_parameters_ has no `recursive` argument; identity (`is`) of tag objects after resolution; '
            'products of chain values in gate exponents inside circuits (linear templates there); parameterised tags on Moments (Cirq does not resolve them: no protocol support)',
            'the sympy.subs path of value_of whenever it would have to carry a value: functions (sin, exp, ...), non-polynomial formulas, symbolic exponents of Pow, partially resolved formulas that mix an assigned symbolic number with an unassigned symbol',
            'complex assigned values',
            'radian-parameterised rotations (rx, ry, Rz, cphase, givens, ms) inside circuits / simulations: checked at gate level (cirq.unitary) only, because the exponent == special-value tests of their in-place kernels on rad-unit angles are not decided by the VC back end',
            'formulas that are not linear in the assigned values inside gates whose constructors canonicalise by modulo (PhasedXPowGate, PhasedXZGate): linear templates only there',
            'run_sweep / sampling (C02), noise models in simulate_sweep, measurement ops in the sweep prefix',
            'serialization of resolved objects',
            'Linspace with symbolic length (length is a selector)',
            'slice step 0 (ValueError raised by Python slice arithmetic itself)',
            'decompose_once-then-resolve for ZZPowGate with global shift, cirq.ms and DiagonalGate (VC not decided by the back end); their inverse / square / controlled forms are covered',
            'complex64, float rounding (absorbed by tol)',
        ],
    }
    return run_check(PID, tier, 'checks.C10', SHIMS, LEVEL, BASE_ASSUMPTIONS, bounds, seed=seed, replay=replay, only=only, procs=procs)

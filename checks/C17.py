"""C17: vendor job payloads mean the same as the circuit they were built from.

(A) IonQ QIS programs: circuits with SYMBOLIC exponents go through the real
    cirq_ionq.Serializer().serialize_single_circuit / serialize_many_circuits; the emitted op dicts are
    interpreted by an independent interpreter written from IonQ's gate documentation
    (oracles/ionq_aqt.py) and compared, up to a global phase, with the ordered product of the documented
    Cirq gate matrices (oracles/gates_doc.py).  The special-cased exponents (x/v/vi/s/si/t/ti/h/cnot/swap,
    `_near_mod_n`) are covered INCLUDING their tolerance bands: every special value a+2k in the box gets
    its own regime  exponent = a + 2k + d, |d| <= 1e-5, besides the generic regime (whole box minus
    the 1.5e-8 neighbourhoods).  The union of the regimes is the whole box.
(B) IonQ native gates (gpi, gpi2, ms, zz) with symbolic phases / angle.
(C) measurement-key metadata (unit/record separators, 40-character chunks), decoded both by an
    independent decoder and by the real cirq_ionq.Job.measurement_dict.
(D) IonQ results: Job.results() on a fake (non-HTTP) client with symbolic little-endian histogram keys and
    symbolic probabilities / shot counts -> QPUResult / SimulatorResult -> counts / probabilities /
    ordered_results / to_cirq_result (scripted PRNG): every outcome bit lands at the right key/qubit and
    the rows of to_cirq_result come from ONE shot (joint distribution across keys).  Also direct
    QPUResult / SimulatorResult with histogram keys built from symbolic BITS (<= 6 qubits).
(E) AQT: AQTSampler._generate_json (legacy list format), _parse_legacy_circuit_json (Arnica v1 format),
    AQTSimulator.generate_circuit_from_list and AQTSampler.run_sweep against a model Arnica server
    (requests.post/get of the module replaced) with symbolic exponents / phases and symbolic sample bits.
"""
from __future__ import annotations

import itertools
import json as real_json
import math
import types

import numpy as np

from checks.common import BASE_ASSUMPTIONS, CORE_SHIM_MODULES
from oracles import gates_doc as D
from oracles import ionq_aqt as V
from oracles.meas_views import AND, B2I, EQ, OR, py
from symx.ctx import Infeasible
from symx.explore import Obligation
from symx.hint import hint
from symx.lemmas import small_angle_abstract
from symx.run import run_check

PID = 'C17'
SHIMS = CORE_SHIM_MODULES + [
    'cirq.ops.pauli_string_phasor',
    'cirq.ops.dense_pauli_string',
    'cirq_ionq.serializer',
    'cirq_ionq.job',
    'cirq_ionq.results',
    'cirq_aqt.aqt_sampler',
    'cirq_aqt.aqt_device',
]

BOX = 4.0  # exponent box (half turns)
DB = 1e-5  # half width of a band regime in the 1-op obligations (serializer atol is <= 1e-8; the wide band exposes widened thresholds)
DB_NARROW = 2e-8  # half width of a band regime inside multi-op circuits (keeps those VCs linear)
EXCL = 1.5e-8  # generic regime stays this far away from every special value
ATOL = 1e-8  # default atol of cirq_ionq.Serializer
TOL_BAND = 1e-7  # payload of a special-cased gate deviates by <= pi*atol/2 = 1.6e-8 per gate from the circuit
TOL_BAND_MULTI = 2.5e-7  # band regimes inside multi-op circuits: the linear abstraction bounds every term separately (triangle inequality)
PI = math.pi


# =============================================================================================
# json pass-through stub (symbolic workers only)
# =============================================================================================
_JSON_REG: dict = {}


def _has_symbolic(o):
    from symx.proxy import SYM

    if isinstance(o, SYM):
        return True
    if isinstance(o, dict):
        return any(_has_symbolic(k) or _has_symbolic(v) for k, v in o.items())
    if isinstance(o, (list, tuple)):
        return any(_has_symbolic(e) for e in o)
    return False


def _jsonify(o):
    """what a JSON round trip does to the structure: tuples -> lists, dict keys -> str; leaves kept"""
    if isinstance(o, dict):
        return {str(k): _jsonify(v) for k, v in o.items()}
    if isinstance(o, (list, tuple)):
        return [_jsonify(e) for e in o]
    return o


class _JsonPass(types.ModuleType):
    _c17_stub = True

    def __getattr__(self, name):
        return getattr(real_json, name)

    @staticmethod
    def dumps(obj, *a, **k):
        if _has_symbolic(obj):
            tok = f'\x00c17-symbolic-json-{len(_JSON_REG)}'
            _JSON_REG[tok] = _jsonify(obj)
            return tok
        return real_json.dumps(obj, *a, **k)

    @staticmethod
    def loads(s, *a, **k):
        if isinstance(s, str) and s in _JSON_REG:
            return _jsonify(_JSON_REG[s])
        return real_json.loads(s, *a, **k)


def payload_loads(s):
    """harness side: the structure a JSON text stands for (real json for concrete payloads)"""
    if isinstance(s, str) and s in _JSON_REG:
        return _jsonify(_JSON_REG[s])
    return real_json.loads(s)


def worker_setup():
    import cirq_aqt.aqt_device as Dv
    import cirq_aqt.aqt_sampler as S

    done = []
    for m in (S, Dv):
        if not getattr(m.json, '_c17_stub', False):
            m.json = _JsonPass('json')
            done.append(f'{m.__name__}.json.dumps/loads (structure pass-through when the payload holds symbolic numbers: tuples->lists, keys->str; real json otherwise)')
    return done


# =============================================================================================
# symbolic exponents with regimes
# =============================================================================================
def centres(specials, box=BOX):
    out = set()
    for a in specials:
        k = -int(box) - 2
        while a + 2 * k <= box:
            if a + 2 * k >= -box:
                out.add(a + 2 * k)
            k += 1
    return sorted(out)


def exponent(cx, name, specials, regime, box=BOX, db=DB):
    """regime 0: generic (whole box minus EXCL-neighbourhoods of the special values);
    regime i >= 1: centres(specials)[i-1] + d with |d| <= db.   Returns (value, {small var: bound})."""
    cs = centres(specials, box)
    if regime == 0:
        t = cx.real(name, -box, box)
        if cx.mode == 'sym':
            # (concrete replay needs no exclusion: the assertions hold for every exponent; skipping it avoids
            # float rounding at the boundary values the solver likes to pick)
            for a in cs:
                cx.assume((t - a >= EXCL) | (a - t >= EXCL))
        return t, {}
    # the offset is the sum of two half-range variables: same set of exponents, but symx's floor-atom
    # substitution (v := (k + frac - b)/a, meant for wide-range variables) does not rewrite a two-variable form,
    # so the offset keeps its tiny declared range in the verification conditions
    d = cx.real(name + '_d', -db / 2, db / 2)
    e = cx.real(name + '_e', -db / 2, db / 2)
    return cs[regime - 1] + d + e, {name + '_d': db / 2, name + '_e': db / 2}


def far_from(cx, t, cs, dist):
    """condition: t is farther than dist from every value in cs"""
    conds = [((t - a > dist) | (a - t > dist)) for a in cs]
    return AND(conds) if conds else True


PRUNE = 1e-13
PRUNE_BUDGET = 1e-9


def _prune(cx, xs):
    """drop float-rounding residue terms (|coefficient| < 1e-13; every monomial of these residuals is a product
    of band offsets / enclosure variables, all bounded by 1) from harness-computed residual entries.  The
    dropped mass is measured and must stay below 1e-9; the tolerance of the comparison is reduced by that
    budget, so the claim is not weakened.  Without this, rounding dust keeps every trigonometric atom alive in
    otherwise constant entries and makes the solver's witness search for wrong oracles needlessly heavy."""
    if cx.mode != 'sym':
        return xs
    from symx.snum import SNum

    out, worst = [], 0.0
    for x in xs:
        if isinstance(x, SNum):
            mass = sum(abs(c) for c in x.t.values() if abs(c) < PRUNE)
            worst = max(worst, mass)
            x = x.pruned(PRUNE)
        out.append(x)
    cx.check(worst < PRUNE_BUDGET, 'harness.pruned-rounding-residue-within-budget')
    return out


def close0(cx, xs, small, tol, label):
    xs = small_angle_abstract(cx, xs, small) if small else xs
    xs = _prune(cx, xs)
    cx.close(xs, [0] * len(xs), tol=tol - PRUNE_BUDGET, label=label)


def same_up_to_phase(cx, n, payload_ops, ref_ops, small, label, tol=None):
    off, dd = V.phase_residual(n, payload_ops, ref_ops)
    tol = tol if tol is not None else (TOL_BAND_MULTI if small else 1e-7)
    close0(cx, off, small, tol, label + '.offdiag')
    close0(cx, dd, small, tol, label + '.diag')


# =============================================================================================
# IonQ gate families
# =============================================================================================
def ionq_families():
    import cirq

    return {
        # name: (builder(t), documented matrix(t), qubits, special exponents mod 2, rejected outside the specials)
        'X': (lambda t: cirq.XPowGate(exponent=t), lambda t: D.X(t), 1, [1, 0.5, -0.5], False),
        'Y': (lambda t: cirq.YPowGate(exponent=t), lambda t: D.Y(t), 1, [1], False),
        'Z': (lambda t: cirq.ZPowGate(exponent=t), lambda t: D.Z(t), 1, [1, 0.5, -0.5, 0.25, -0.25], False),
        'Rx': (lambda t: cirq.Rx(rads=t * PI), lambda t: D.rx(t * PI), 1, [1, 0.5, -0.5], False),
        'Ry': (lambda t: cirq.Ry(rads=t * PI), lambda t: D.ry(t * PI), 1, [1], False),
        'Rz': (lambda t: cirq.Rz(rads=t * PI), lambda t: D.rz(t * PI), 1, [1, 0.5, -0.5, 0.25, -0.25], False),
        'Xshift': (lambda t: cirq.XPowGate(exponent=t, global_shift=0.25), lambda t: D.X(t, 0.25), 1, [1, 0.5, -0.5], False),
        'H': (lambda t: cirq.HPowGate(exponent=t), lambda t: D.H(t), 1, [1], True),
        'CNOT': (lambda t: cirq.CNotPowGate(exponent=t), lambda t: D.CX(t), 2, [1], True),
        'SWAP': (lambda t: cirq.SwapPowGate(exponent=t), lambda t: D.SWAP(t), 2, [1], True),
        'XX': (lambda t: cirq.XXPowGate(exponent=t), lambda t: D.XX(t), 2, [], False),
        'YY': (lambda t: cirq.YYPowGate(exponent=t), lambda t: D.YY(t), 2, [], False),
        'ZZ': (lambda t: cirq.ZZPowGate(exponent=t), lambda t: D.ZZ(t), 2, [], False),
        'MSrads': (lambda t: cirq.ms(t * PI / 2), lambda t: D.ms(t * PI / 2), 2, [], False),
    }


PLACE1 = [(0,), (2,)]
PLACE2 = [(0, 1), (1, 0), (2, 0)]


def _wrong_exp(t):
    return t + 0.25


def ionq_1op(name, tier):
    import cirq
    import cirq_ionq

    build, doc, nq, specials, rejects = ionq_families()[name]
    cs = centres(specials)
    places = PLACE1 if nq == 1 else PLACE2

    def body(cx, wrong=False):
        reg = cx.choose('regime', 1 + len(cs))
        pl = places[cx.choose('place', len(places))]
        t, small = exponent(cx, 't', specials, reg)
        atol = cx.real('atol', 0.0, ATOL)
        qs = [cirq.LineQubit(i) for i in pl]
        circuit = cirq.Circuit(build(t).on(*qs))
        try:
            prog = cirq_ionq.Serializer(atol=atol).serialize_single_circuit(circuit)
        except ValueError:
            # rejection: legitimate only when the gate is NOT (within atol) one of the accepted specials
            cx.check(bool(rejects), f'{name}.only-documented-rejections')
            odd = centres([1])
            cx.check(far_from(cx, t, odd, 0.9 * atol), f'{name}.rejected-only-outside-the-band')
            return
        inp = prog.input
        cx.check(inp['gateset'] == 'qis', f'{name}.gateset')
        cx.check(inp['qubits'] == max(pl) + 1, f'{name}.register-size')
        cx.check(len(inp['circuit']) == 1, f'{name}.one-op')
        cx.check(prog.metadata == {}, f'{name}.no-measurement-metadata')
        ops = V.ionq_program_ops(inp)
        ref = [(doc(_wrong_exp(t) if wrong else t), list(pl))]
        same_up_to_phase(cx, inp['qubits'], ops, ref, small, name, tol=TOL_BAND)

    pts = []
    for v in (0.3, -1.7, 3.9, 0.123, -0.77, 2.4):
        pts.append({'choose:regime': 0, 't': v, 'atol': 1e-8})
    for i in range(len(cs)):
        for dv in (0.0, 5e-9, -1e-8, 1.7e-8, 3e-6):
            pts.append({'choose:regime': i + 1, 't_d': dv / 2, 't_e': dv / 2, 'atol': 1e-8, 'choose:place': i % len(places)})
    return Obligation(
        f'ionq.qis.1op.{name}',
        body,
        twin=lambda cx: body(cx, wrong=True),
        points=pts,
        opts={'lattices': (8, 6, 16), 'weight': 2},
        desc=f'Serializer(atol symbolic in [0,1e-8]).serialize_single_circuit({name}(exponent t) on placement): IonQ-documented meaning of the emitted op == documented '
        f'Cirq matrix up to global phase; regimes: generic box [-4,4] minus 1.5e-8 neighbourhoods, and a+d (|d|<=1e-5) for each of the {len(cs)} special values a in the box; '
        'rejection (ValueError) only for H/CNOT/SWAP and only outside the acceptance band',
    )


# =============================================================================================
# pauliexp
# =============================================================================================
PAULI_MENU = [('X', (0,)), ('ZY', (0, 1)), ('XZ', (1, 0)), ('XIZ', (0, 1, 2)), ('YXZ', (2, 0, 1)), ('IIX', (0, 1, 2)), ('II', (0, 1)), ('ZZY', (1, 2, 0))]


def pauli_phasor_doc(paulis, sign, e_neg, e_pos):
    """documented PauliStringPhasorGate: eigenvectors of P = sign * paulis in the +1 (-1) eigenspace get
    exp(i pi e_pos) (exp(i pi e_neg)):  U = ph(e_pos) (I+P)/2 + ph(e_neg) (I-P)/2"""
    P = sign * V.pauli_string_matrix(paulis)
    n = P.shape[0]
    a, b = D.ph(e_pos), D.ph(e_neg)
    rows = [[(a + b) * (0.5 if i == j else 0.0) + (a - b) * (0.5 * complex(P[i, j])) for j in range(n)] for i in range(n)]
    return V.mat(rows)


def ionq_pauliexp(tier):
    import cirq
    import cirq_ionq
    from cirq_ionq.ionq_exceptions import NotSupportedPauliexpParameters

    menu = PAULI_MENU if tier != 'quick' else PAULI_MENU[:6]

    def body(cx, wrong=False):
        paulis, wires = menu[cx.choose('string', len(menu))]
        sign = (1, -1)[cx.choose('sign', 2)]
        en = cx.real('e_neg', -1.0, 1.0)
        ep = cx.real('e_pos', -1.0, 1.0)
        qs = [cirq.LineQubit(i) for i in wires]
        dps = cirq.DensePauliString(paulis, coefficient=sign)
        gate = cirq.PauliStringPhasorGate(dps, exponent_neg=en, exponent_pos=ep)
        circuit = cirq.Circuit(gate.on(*qs), cirq.X(cirq.LineQubit(0)))
        # documented restriction: negative evolution time.  time = pi (e_neg' - e_pos') / 2 on the canonical
        # exponents (in (-1, 1]: inside the box only -1 is moved, to 1) of the +1-coefficient string (a -1
        # coefficient swaps the two exponents)
        a, b = (en, ep) if sign == 1 else (ep, en)
        a = 1.0 if bool(a == -1) else a
        b = 1.0 if bool(b == -1) else b
        try:
            prog = cirq_ionq.Serializer().serialize_single_circuit(circuit)
        except NotSupportedPauliexpParameters:
            cx.check(a - b < 0, 'pauliexp.rejected-only-with-negative-time')
            return
        cx.check(a - b >= 0, 'pauliexp.accepted-only-with-nonnegative-time')
        inp = prog.input
        cx.check(inp['gateset'] == 'qis', 'pauliexp.gateset')
        ops = V.ionq_program_ops(inp)
        ref = [(pauli_phasor_doc(paulis, sign, en, (ep + 0.25) if wrong else ep), list(wires)), (D.X(1.0), [0])]
        same_up_to_phase(cx, inp['qubits'], ops, ref, {}, 'pauliexp')

    pts = [{'choose:string': i % len(menu), 'choose:sign': i % 2, 'e_neg': a, 'e_pos': b} for i, (a, b) in enumerate([(0.5, 0.0), (0.25, -0.5), (1.0, 0.0), (0.3, 0.3), (-0.2, 0.7), (0.9, -0.9), (1.0, -1.0)])]
    return Obligation(
        'ionq.qis.pauliexp',
        body,
        twin=lambda cx: body(cx, wrong=True),
        points=pts,
        opts={'lattices': (8, 6), 'weight': 3},
        desc='PauliStringPhasorGate(DensePauliString(menu string, +-1), exponent_neg, exponent_pos symbolic) -> pauliexp {terms (little endian), coefficients, time, targets}: '
        'exp(-i time sum c_j P_j) == documented phasor up to phase; zero time -> op dropped; negative time -> NotSupportedPauliexpParameters',
    )


# =============================================================================================
# multi-op IonQ circuits
# =============================================================================================
def _shape_menu(tier):
    """each shape: list of ops; op = (family or fixed-gate name, wires, symbolic?)  + measurement layout"""
    S = [
        ('hcz', [('fixH', (0,)), ('fixCNOT', (0, 1)), ('Z', (1,))], [('m', (0, 1))]),
        ('xcy', [('X', (1,)), ('fixCNOT', (1, 0)), ('Y', (0,))], []),
        ('xxzsx', [('XX', (0, 2)), ('Z', (2,)), ('fixSWAP', (2, 0)), ('X', (0,))], [('a', (2,)), ('b', (0,))]),
        ('zzyyrx', [('ZZ', (1, 0)), ('YY', (0, 1)), ('Rx', (1,))], [('k', (1, 0))]),
    ]
    if tier != 'quick':
        S += [
            ('xzx', [('X', (0,)), ('Z', (0,)), ('X', (0,))], [('m', (0,))]),
            ('zxz3', [('Z', (2,)), ('X', (1,)), ('XX', (1, 2)), ('Rz', (0,))], [('q', (2, 1, 0))]),
            ('ms', [('MSrads', (0, 1)), ('Ry', (1,)), ('fixCNOT', (1, 2)), ('Y', (2,))], []),
            ('yyxxzz', [('YY', (2, 1)), ('XX', (1, 0)), ('ZZ', (0, 2))], [('a', (1,)), ('bb', (2, 0))]),
            ('swapx', [('X', (0,)), ('fixSWAP', (0, 1)), ('Xshift', (1,)), ('fixH', (1,))], [('s', (1,))]),
        ]
    return S


def _fixed(name):
    import cirq

    return {'fixH': (cirq.H, D.H(1.0)), 'fixCNOT': (cirq.CNOT, D.CX(1.0)), 'fixSWAP': (cirq.SWAP, D.SWAP(1.0)), 'fixX': (cirq.X, D.X(1.0))}[name]


def build_shape(cx, ops, band_sel, wrong=False, prefix=''):
    """build the cirq operations and the reference (matrix, wires) list.  band_sel: (index among the
    symbolic ops that have special values, 1-based; 0 = none, principal centre index) """
    import cirq

    fam = ionq_families()
    cops, ref, small = [], [], {}
    si = 0
    # the twin perturbs the LAST parametric op: all other factors cancel syntactically in phase_residual, so
    # the refutation does not depend on a heavy non-linear witness search
    last_sym = max(i for i, (g, _w) in enumerate(ops) if not g.startswith('fix'))
    for oi, (g, wires) in enumerate(ops):
        qs = [cirq.LineQubit(i) for i in wires]
        if g.startswith('fix'):
            gate, m = _fixed(g)
            cops.append(gate.on(*qs))
            ref.append((m, list(wires)))
            continue
        build, doc, nq, specials, rejects = fam[g]
        regime = 0
        if specials:
            si += 1
            if band_sel[0] == si:
                principal = [centres(specials).index(a) + 1 for a in specials]
                regime = principal[band_sel[1] % len(principal)]
        t, sm = exponent(cx, f'{prefix}t{oi}', specials, regime, db=DB_NARROW)
        small.update(sm)
        cops.append(build(t).on(*qs))
        ref.append((doc(_wrong_exp(t) if (wrong and oi == last_sym) else t), list(wires)))
    return cops, ref, small


def n_special_ops(ops):
    fam = ionq_families()
    return sum(1 for g, _w in ops if not g.startswith('fix') and fam[g][3])


def max_specials(ops):
    fam = ionq_families()
    return max([len(fam[g][3]) for g, _w in ops if not g.startswith('fix') and fam[g][3]] or [1])


def expected_meas(meas):
    return {k: list(w) for k, w in meas}


def check_measurements(cx, metadata, meas, label, wrong=False):
    """metadata chunks -> {key: wires}: by the independent decoder and by the real Job.measurement_dict"""
    import cirq_ionq

    exp = expected_meas(meas)
    if wrong and exp:
        k0 = next(iter(exp))
        exp[k0] = exp[k0][::-1] if len(exp[k0]) > 1 else [exp[k0][0] + 1]
    got = V.decode_ionq_measurements(metadata)
    cx.check(got == exp, label + '.metadata-decodes-to-key->targets')
    job = cirq_ionq.Job(None, {'id': 'x', 'status': 'completed', 'metadata': dict(metadata)})
    cx.check(dict(job.measurement_dict()) == exp, label + '.Job.measurement_dict')


def ionq_circuit(shape, tier):
    import cirq
    import cirq_ionq

    sname, ops, meas = shape
    nsp = n_special_ops(ops)
    msp = max_specials(ops)

    def body(cx, wrong=False):
        b = cx.choose('band_op', 1 + nsp)
        c = cx.choose('centre', msp) if b else 0
        cops, ref, small = build_shape(cx, ops, (b, c), wrong)
        mops = [cirq.measure(*[cirq.LineQubit(i) for i in w], key=k) for k, w in meas]
        circuit = cirq.Circuit(cops, mops)
        prog = cirq_ionq.Serializer().serialize_single_circuit(circuit)
        inp = prog.input
        n = max(i for _g, w in ops for i in w) + 1
        cx.check(inp['gateset'] == 'qis' and inp['qubits'] == n, f'{sname}.header')
        cx.check(all(o['gate'] != 'meas' for o in inp['circuit']), f'{sname}.no-meas-in-program')
        same_up_to_phase(cx, n, V.ionq_program_ops(inp), ref, small, sname)
        check_measurements(cx, prog.metadata, meas, sname)

    pts = [{'choose:band_op': 0}] * 3 + [{'choose:band_op': 1, 'choose:centre': j} for j in range(msp)]
    return Obligation(
        f'ionq.qis.circuit.{sname}',
        body,
        twin=lambda cx: body(cx, wrong=True),
        points=pts,
        opts={'lattices': (6, 4, 8), 'weight': 4},
        desc=f'serialize_single_circuit of {[g + str(list(w)) for g, w in ops]} + measurements {meas}: every parametric gate has its own symbolic exponent; '
        'interpreted program == ordered product of documented matrices up to phase (op order, targets, control/target roles); all generic, plus each special-cased '
        'gate in turn inside each of its principal tolerance bands; measurement metadata decodes to key->targets',
    )


# =============================================================================================
# batch (serialize_many_circuits)
# =============================================================================================
def ionq_batch(tier):
    import cirq
    import cirq_ionq
    from cirq_ionq.ionq_exceptions import IonQSerializerMixedGatesetsException

    shapes = _shape_menu('quick')
    A, B = shapes[1], shapes[2]

    def body(cx, wrong=False):
        mixed = cx.choose('mixed', 2)
        circuits, refs, ns, meass = [], [], [], []
        for ci, (sname, ops, meas) in enumerate((A, B)):
            cops, ref, _small = build_shape(cx, ops, (0, 0), wrong and ci == 1, prefix=f'c{ci}')
            mops = [cirq.measure(*[cirq.LineQubit(i) for i in w], key=k) for k, w in meas]
            circuits.append(cirq.Circuit(cops, mops))
            refs.append(ref)
            ns.append(max(i for _g, w in ops for i in w) + 1)
            meass.append(meas)
        if mixed:
            phi = cx.real('phi', -2.0, 2.0)
            circuits.append(cirq.Circuit(cirq_ionq.GPIGate(phi=phi).on(cirq.LineQubit(0))))
            try:
                cirq_ionq.Serializer().serialize_many_circuits(circuits)
            except IonQSerializerMixedGatesetsException:
                return
            cx.check(False, 'batch.mixed-gatesets-must-be-rejected')
            return
        prog = cirq_ionq.Serializer().serialize_many_circuits(circuits)
        inp = prog.input
        cx.check(inp['gateset'] == 'qis' and inp['qubits'] == max(ns) and len(inp['circuits']) == 2, 'batch.header')
        qn = real_json.loads(prog.metadata['qubit_numbers'])
        cx.check(qn == ns, 'batch.qubit_numbers')
        ms = real_json.loads(prog.metadata['measurements'])
        for ci in range(2):
            single = {'gateset': inp['gateset'], 'qubits': inp['qubits'], 'circuit': inp['circuits'][ci]['circuit']}
            same_up_to_phase(cx, inp['qubits'], V.ionq_program_ops(single), refs[ci], {}, f'batch.c{ci}')
            got = V.decode_ionq_measurements(ms[ci])
            cx.check(got == expected_meas(meass[ci]), f'batch.c{ci}.measurements')
            job = cirq_ionq.Job(None, {'id': 'x', 'status': 'completed', 'metadata': dict(prog.metadata), 'stats': {'qubits': inp['qubits']}})
            cx.check(dict(job.measurement_dict(circuit_index=ci)) == expected_meas(meass[ci]), f'batch.c{ci}.Job.measurement_dict')
            cx.check(job.num_qubits(circuit_index=ci) == ns[ci], f'batch.c{ci}.Job.num_qubits')

    return Obligation(
        'ionq.qis.batch',
        body,
        expected=(),
        twin=lambda cx: body(cx, wrong=True),
        points=[{'choose:mixed': 0}, {'choose:mixed': 0}, {'choose:mixed': 1}],
        opts={'lattices': (6, 4), 'weight': 4},
        desc='serialize_many_circuits([two circuits with symbolic exponents]): each circuits[i].circuit means circuit i, per-circuit measurement metadata and qubit numbers '
        '(also through the real Job.measurement_dict/num_qubits); mixing a native-gate circuit in raises IonQSerializerMixedGatesetsException',
    )


# =============================================================================================
# native gates
# =============================================================================================
def ionq_native(tier):
    import cirq
    import cirq_ionq

    menu = [
        ('gpi', [(0,), (2,)], 1),
        ('gpi2', [(1,), (0,)], 1),
        ('ms', [(0, 1), (1, 0), (2, 0)], 3),
        ('zz', [(0, 1), (1, 0)], 1),
        ('circuit', [(0,)], 6),
    ]
    obs = []
    for gname, places, npar in menu:

        def body(cx, wrong=False, gname=gname, places=places, npar=npar):
            pl = places[cx.choose('place', len(places))]
            ps = [cx.real(f'a{i}', -2.0, 2.0) for i in range(npar)]
            w = [p for p in ps]
            if wrong:
                w[-1 if gname == 'circuit' else 0] += 0.125
            L = cirq.LineQubit
            if gname == 'gpi':
                cops, ref, meas = [cirq_ionq.GPIGate(phi=ps[0]).on(L(pl[0]))], [(D.gpi(w[0]), list(pl))], []
            elif gname == 'gpi2':
                cops, ref, meas = [cirq_ionq.GPI2Gate(phi=ps[0]).on(L(pl[0]))], [(D.gpi2(w[0]), list(pl))], []
            elif gname == 'ms':
                cops = [cirq_ionq.MSGate(phi0=ps[0], phi1=ps[1], theta=ps[2]).on(L(pl[0]), L(pl[1]))]
                ref, meas = [(D.ionq_ms(w[0], w[1], w[2]), list(pl))], []
            elif gname == 'zz':
                cops, ref, meas = [cirq_ionq.ZZGate(theta=ps[0]).on(L(pl[0]), L(pl[1]))], [(D.ionq_zz(w[0]), list(pl))], []
            else:
                cops = [
                    cirq_ionq.GPI2Gate(phi=ps[0]).on(L(1)),
                    cirq_ionq.MSGate(phi0=ps[1], phi1=ps[2], theta=ps[3]).on(L(1), L(0)),
                    cirq_ionq.GPIGate(phi=ps[4]).on(L(0)),
                    cirq_ionq.ZZGate(theta=ps[5]).on(L(0), L(2)),
                ]
                ref = [(D.gpi2(w[0]), [1]), (D.ionq_ms(ps[1], ps[2], ps[3]), [1, 0]), (D.gpi(ps[4]), [0]), (D.ionq_zz(w[5]), [0, 2])]
                meas = [('r', (2, 0)), ('s', (1,))]
            mops = [cirq.measure(*[L(i) for i in wr], key=k) for k, wr in meas]
            prog = cirq_ionq.Serializer().serialize_single_circuit(cirq.Circuit(cops, mops))
            inp = prog.input
            n = max(i for _m, wr in ref for i in wr) + 1
            cx.check(inp['gateset'] == 'native' and inp['qubits'] == n, f'native.{gname}.header')
            same_up_to_phase(cx, n, V.ionq_program_ops(inp), ref, {}, f'native.{gname}')
            check_measurements(cx, prog.metadata, meas, f'native.{gname}')

        obs.append(
            Obligation(
                f'ionq.native.{gname}',
                body,
                twin=lambda cx, body=body: body(cx, wrong=True),
                points=[{f'a{i}': v for i, v in enumerate(vals)} for vals in ((0.0,) * 6, (0.25, 0.1, 0.25, 0.125, -0.3, 0.2), (1.3, -0.7, 0.05, 0.5, 1.0, -1.1), (0.5, 0.5, 0.5, 0.25, 0.75, 0.33))],
                opts={'lattices': (8, 6, 12), 'weight': 2},
                desc=f'native {gname}: symbolic phases/angle (turns) -> payload fields phase / phases+angle; IonQ native-gate matrices of the payload == documented gate matrices up to phase; gateset "native"',
            )
        )
    return obs


# =============================================================================================
# measurement key layouts (bounded exploration; key lengths are solver integers)
# =============================================================================================
def ionq_meas_layout(tier):
    import cirq
    import cirq_ionq

    maxlen = 160 if tier == 'quick' else 370

    def body(cx, wrong=False):
        variant = cx.choose('variant', 4)
        L = cirq.LineQubit
        L1 = cx.int('len1', 1, maxlen)
        n1 = int(L1)  # forks: one path per key length (solver-enumerated)
        if tier == 'quick' and n1 > 130:
            n1 += 210  # quick: lengths 1..130 and 341..370 (around the 9-chunk limit)
        if variant == 0:
            meas = [('k' * n1, (0,))]
        elif variant == 1:
            meas = [('a' * n1, (2, 0)), ('b', (1,))]
        elif variant == 2:
            meas = [('x', (1,)), ('y' * n1, (0, 3, 2))]
        else:
            meas = [('p' * (n1 // 3 + 1), (1, 0)), ('q' * (n1 // 3 + 1), (2,)), ('r' * (n1 - 2 * (n1 // 3)), (4, 3))]
        mops = [cirq.measure(*[L(i) for i in w], key=k) for k, w in meas]
        nq = max(i for _k, w in meas for i in w) + 1
        circuit = cirq.Circuit([cirq.X(L(i)) for i in range(nq)], mops)
        total = sum(len(k) + 1 + len(','.join(map(str, w))) for k, w in meas) + len(meas) - 1
        try:
            prog = cirq_ionq.Serializer().serialize_single_circuit(circuit)
        except ValueError:
            cx.check(total > 9 * 40, 'layout.too-long-rejected-only-beyond-9-chunks')
            return
        cx.check(total <= 9 * 40, 'layout.accepted-only-within-9-chunks')
        check_measurements(cx, prog.metadata, meas, 'layout', wrong)
        cx.check(len(prog.input['circuit']) == nq, 'layout.program-has-no-measurement')

    def sep_body(cx, wrong=False):
        L = cirq.LineQubit
        which = cx.choose('sep', 2)
        pos = cx.int('pos', 0, 3)
        p = int(pos)
        key = 'abc'[:p] + chr(30 + which) + 'abc'[p:]
        circuit = cirq.Circuit(cirq.X(L(0)), cirq.measure(L(0), key=key))
        try:
            cirq_ionq.Serializer().serialize_single_circuit(circuit)
        except ValueError:
            cx.check(not wrong, 'layout.separator-key-rejected')
            return
        cx.check(False, 'layout.key-with-separator-must-be-rejected')

    return [
        Obligation(
            'ionq.meas.layout',
            body,
            twin=lambda cx: body(cx, wrong=True),
            points=[{'choose:variant': v, 'len1': n} for v in range(4) for n in (1, 37, 38, 39, 40, 41, 79, 120, 150)],
            opts={'int_fork_limit': 400, 'weight': 5, 'max_paths': 4 * maxlen + 10},
            kind='bounded-exploration',
            desc=f'measurement key/target layouts (1-3 keys, wires up to 4, reversed and non-contiguous targets) with key length {'1..130 and 341..370' if tier == 'quick' else '1..370'} (solver integer, every value explored: '
            'crosses every 40-character chunk boundary and the 9-chunk limit): metadata measurementN chunks decode (independent decoder and real Job.measurement_dict) to key->targets; '
            'ValueError exactly when more than 9 chunks are needed.  No continuous quantity: solver-driven bounded exploration',
        ),
        Obligation(
            'ionq.meas.separator',
            sep_body,
            twin=lambda cx: sep_body(cx, wrong=True),
            points=[{'choose:sep': 0, 'pos': 1}, {'choose:sep': 1, 'pos': 0}],
            kind='bounded-exploration',
            desc='a measurement key containing chr(30)/chr(31) at any position is rejected (it would corrupt the metadata packing)',
        ),
    ]


# =============================================================================================
# IonQ results
# =============================================================================================
class FakeIonQClient:
    """stands for cirq_ionq.ionq_client._IonQClient (HTTP, outside the claim): hands the histogram over"""

    def __init__(self, hist):
        self.hist = hist

    def get_results(self, job_id, sharpen=None, extra_query_params=None):
        return self.hist


RES_LAYOUTS = {
    2: [[('m', (1, 0))], [('a', (1,))]],
    3: [[('a', (2, 0)), ('b', (1,))], [('m', (0, 1, 2))], [('z', (1,))]],
    4: [[('a', (3, 1)), ('b', (0, 2))], [('k', (2,)), ('l', (3, 0))]],
}


def job_menu(tier):
    return [(2, 0), (3, 0), (3, 1)] if tier == 'quick' else [(n, li) for n in (2, 3, 4) for li in range(len(RES_LAYOUTS[n]))]


def direct_ns(tier):
    return [3, 5] if tier == 'quick' else [3, 4, 5, 6]


def _metadata_for(meas, n):
    """measurement metadata produced by the REAL serializer for this layout (end-to-end key plumbing)"""
    import cirq
    import cirq_ionq

    L = cirq.LineQubit
    c = cirq.Circuit([cirq.X(L(i)) for i in range(n)], [cirq.measure(*[L(i) for i in w], key=k) for k, w in meas])
    return dict(cirq_ionq.Serializer().serialize_single_circuit(c).metadata)


def _le_bits(k, n, wrong=False):
    """outcome of wire w in IonQ's little-endian key k (wrong: big-endian reading, for the twin)"""
    if wrong:
        return [V.big_endian_bit(k, w, n) for w in range(n)]
    return [V.little_endian_bit(k, w) for w in range(n)]


def _rows(arr):
    a = np.asarray(arr, dtype=object)
    if a.ndim != 2:
        return []
    return [[py(x) for x in row] for row in a]


def check_joint(cx, result, meas, outcomes, label):
    """result: cirq.Result; outcomes: list of (bits per wire, count).  Every row (same index across keys)
    is the projection of ONE outcome, and each projected outcome occurs as often as its shots."""
    reps = sum(int(c) for _b, c in outcomes)
    per_key = {k: _rows(result.measurements[k]) for k, _w in meas}
    for k, w in meas:
        cx.check(len(per_key[k]) == reps, f'{label}.rows[{k}]')
    if any(len(per_key[k]) != reps for k, _w in meas):
        return

    def proj(bits):
        return [bits[i] for _k, w in meas for i in w]

    rows = [[x for k, _w in meas for x in per_key[k][r]] for r in range(reps)]
    conds = []
    for r in range(reps):
        conds.append(OR([AND([EQ(a, b) for a, b in zip(rows[r], proj(bits))]) for bits, c in outcomes if int(c) > 0]))
    for bits, _c in outcomes:
        lhs = 0
        for r in range(reps):
            lhs = lhs + B2I(AND([EQ(a, b) for a, b in zip(rows[r], proj(bits))]))
        rhs = 0
        for bits2, c2 in outcomes:
            rhs = rhs + B2I(AND([EQ(a, b) for a, b in zip(proj(bits2), proj(bits))])) * int(c2)
        conds.append(EQ(lhs, rhs))
    cx.check(AND(conds), f'{label}.rows-are-joint-outcomes')


def results_job_qpu(tier):
    import cirq_ionq

    menu = job_menu(tier)
    shots_menu = [2] if tier == 'quick' else [3]

    def body(cx, wrong=False):
        n, li = menu[cx.choose('layout', len(menu))]
        meas = RES_LAYOUTS[n][li]
        shots = shots_menu[cx.choose('shots', len(shots_menu))]
        k = [hint(cx, f'k{i}', 0, 2**n - 1) for i in range(2)]
        cx.assume(k[0] != k[1])
        p = [cx.real(f'p{i}', 0.0, 1.0) for i in range(2)]
        md = _metadata_for(meas, n)
        md['shots'] = shots
        jd = {'id': 'j', 'status': 'completed', 'backend': 'qpu.aria-1', 'name': 'n', 'metadata': md, 'stats': {'qubits': n}}
        res = cirq_ionq.Job(FakeIonQClient({k[0]: p[0], k[1]: p[1]}), jd).results()
        # the conversion branched on every bit of both keys: exactly one value of each key is left on this path
        # (int() enumerates the feasible values through the solver and escapes loudly on 'unknown')
        k = [int(x) for x in k]
        cx.check(isinstance(res, cirq_ionq.QPUResult), 'qpu.type')
        cx.check(res.num_qubits() == n, 'qpu.num_qubits')
        cx.check(dict(res.measurement_dict()) == expected_meas(meas), 'qpu.measurement_dict')
        full = res.counts()
        outcomes = []
        for i in range(2):
            bits = _le_bits(k[i], n, wrong)
            B = V.big_endian_value(bits)
            got = [c for kk, c in full.items() if bool(EQ(kk, B))]
            cx.check(len(got) == 1, f'qpu.counts()[outcome{i}]-present')
            if len(got) != 1:
                return
            c = got[0]
            # count = shots * probability rounded to a nearest integer (ties either way)
            cx.check((c - shots * p[i] <= 0.5) & (shots * p[i] - c <= 0.5), f'qpu.count{i}-is-nearest-integer')
            outcomes.append((bits, c))
        cx.check(len(full) == 2, 'qpu.counts()-has-no-other-outcome')
        for key, w in meas:
            vals = res.ordered_results(key)
            want = []
            for bits, c in outcomes:
                want += [V.big_endian_value([bits[i] for i in w])] * int(c)
            cx.check(sorted(int(v) for v in vals) == sorted(int(v) for v in want), f'qpu.ordered_results({key})')
            cnt = res.counts(key)
            wc = {}
            for v in want:
                wc[int(v)] = wc.get(int(v), 0) + 1
            cx.check({int(a): int(b) for a, b in cnt.items()} == wc, f'qpu.counts({key})')
        tot = sum(int(c) for _b, c in outcomes)
        cx.check(res.repetitions() == tot, 'qpu.repetitions')
        if tot > 0:
            check_joint(cx, res.to_cirq_result(), meas, outcomes, 'qpu.to_cirq_result')

    return Obligation(
        'ionq.results.job.qpu',
        body,
        twin=lambda cx: body(cx, wrong=True),
        points=[{'choose:layout': i % len(menu), 'k0': a, 'k1': b, 'p0': x, 'p1': y} for i, (a, b, x, y) in enumerate([(1, 2, 0.5, 0.5), (0, 3, 0.26, 0.74), (2, 1, 1.0, 0.0), (3, 1, 0.4, 0.6), (1, 0, 0.1, 0.9)])],
        opts={'weight': 6, 'max_paths': 60000, 'decide_timeout_ms': 20000},
        desc='Job.results() (fake non-HTTP client; measurement metadata produced by the real serializer) for a QPU target: two histogram entries with SYMBOLIC little-endian integer keys and '
        'symbolic probabilities -> QPUResult: counts(), counts(key), ordered_results(key), repetitions, to_cirq_result rows are projections of ONE outcome each with the right multiplicities; '
        'bit i of the IonQ key is wire i',
    )


class ScriptedRandomState(np.random.RandomState):
    """scripted generator: records the probability vector the code asks for and returns solver-chosen indices"""

    def __init__(self, cx):
        super().__init__(0)
        self._cx = cx
        self.calls = []

    def choice(self, a, size=None, replace=True, p=None):
        a = list(a)
        size = int(size)
        self.calls.append((a, p, size))
        return np.array([self._cx.choose(f'draw{j}', len(a)) for j in range(size)], dtype=int)


def _check_sim_sampling(cx, res, meas, n, keys_bits, probs, reps, label, override=None):
    """SimulatorResult.to_cirq_result with the scripted generator: requested vector = probabilities
    (normalised when the total is within 1e-5 of 1), rows = bits of the drawn outcome"""
    rs = ScriptedRandomState(cx)
    r = res.to_cirq_result(seed=rs, override_repetitions=override)
    cx.check(len(rs.calls) == 1, f'{label}.one-draw-call')
    a, pvec, size = rs.calls[0]
    want_reps = override or reps
    cx.check(size == want_reps and a == list(range(len(probs))), f'{label}.draw-shape')
    total = probs[0]
    for q in probs[1:]:
        total = total + q
    # |total - 1| <= 1e-5, written in the squared form (and with the same float product) that symx's isclose
    # proxy uses, so that the harness and the code under test agree on the measure-zero boundary
    dev = total - 1.0
    bound = 1e-5
    normalised = bool(dev * dev <= bound * bound)
    # order of the requested vector = order of res.probabilities() items = insertion order of the histogram
    # (dicts keep insertion order); stated as a verification condition, not decided by the harness
    order_keys = list(res.probabilities().keys())
    cx.check(len(order_keys) == len(keys_bits), f'{label}.probabilities()-size')
    if len(order_keys) != len(keys_bits):
        return
    cx.check(AND([EQ(kk, kv) for kk, (kv, _b) in zip(order_keys, keys_bits)]), f'{label}.probabilities()-keys-in-histogram-order')
    idx = list(range(len(keys_bits)))
    want = [(probs[i] / total if normalised else probs[i]) for i in idx]
    cx.close(list(pvec), want, label=f'{label}.requested-probability-vector')
    draws = [cx.vars['choose:draw%d' % j]['value'] for j in range(size)]
    for key, w in meas:
        rows = _rows(r.measurements[key])
        cx.check(len(rows) == size, f'{label}.rows[{key}]')
        if len(rows) != size:
            return
        conds = []
        for j in range(size):
            bits = keys_bits[idx[draws[j]]][1]
            conds.append(AND([EQ(x, bits[i]) for x, i in zip(rows[j], w)]))
        cx.check(AND(conds), f'{label}.rows[{key}]-are-the-drawn-outcomes')


def results_job_sim(tier):
    import cirq_ionq

    menu = job_menu(tier)

    def body(cx, wrong=False):
        n, li = menu[cx.choose('layout', len(menu))]
        meas = RES_LAYOUTS[n][li]
        reps = 2
        k = [hint(cx, f'k{i}', 0, 2**n - 1) for i in range(2)]
        cx.assume(k[0] != k[1])
        p = [cx.real(f'p{i}', 0.0, 1.0) for i in range(2)]
        md = _metadata_for(meas, n)
        md['shots'] = reps
        jd = {'id': 'j', 'status': 'completed', 'backend': 'simulator', 'name': 'n', 'metadata': md, 'stats': {'qubits': n}}
        res = cirq_ionq.Job(FakeIonQClient({k[0]: p[0], k[1]: p[1]}), jd).results()
        k = [int(x) for x in k]  # one value per key is left after the conversion's branches (see the QPU obligation)
        cx.check(isinstance(res, cirq_ionq.SimulatorResult), 'sim.type')
        cx.check(res.num_qubits() == n and res.repetitions() == reps, 'sim.num_qubits/repetitions')
        cx.check(dict(res.measurement_dict()) == expected_meas(meas), 'sim.measurement_dict')
        keys_bits = []
        for i in range(2):
            bits = _le_bits(k[i], n, wrong)
            keys_bits.append((V.big_endian_value(bits), bits))
        full = res.probabilities()
        cx.check(len(full) == 2, 'sim.probabilities()-size')
        for i in range(2):
            got = [v for kk, v in full.items() if bool(EQ(kk, keys_bits[i][0]))]
            cx.check(len(got) == 1, f'sim.probabilities()[outcome{i}]-present')
            if len(got) != 1:
                return
            cx.close(got[0], p[i], label=f'sim.probabilities()[outcome{i}]')
        for key, w in meas:
            marg = res.probabilities(key)
            want = {}
            for i in range(2):
                v = int(V.big_endian_value([keys_bits[i][1][j] for j in w]))
                want[v] = (want[v] + p[i]) if v in want else p[i]
            cx.check(sorted(int(a) for a in marg) == sorted(want), f'sim.probabilities({key}).keys')
            for a, b in marg.items():
                if int(a) in want:
                    cx.close(b, want[int(a)], label=f'sim.probabilities({key})[{int(a)}]')
        _check_sim_sampling(cx, res, meas, n, keys_bits, p, reps, 'sim.to_cirq_result')

    return Obligation(
        'ionq.results.job.sim',
        body,
        twin=lambda cx: body(cx, wrong=True),
        points=[{'choose:layout': i % len(menu), 'k0': a, 'k1': b, 'p0': x, 'p1': y} for i, (a, b, x, y) in enumerate([(1, 2, 0.5, 0.5), (0, 3, 0.26, 0.74), (2, 1, 0.999995, 0.0), (3, 1, 0.4, 0.3), (1, 0, 0.1, 0.9)])],
        opts={'weight': 6, 'max_paths': 60000, 'decide_timeout_ms': 20000},
        desc='Job.results() for the simulator target: symbolic little-endian keys and probabilities -> SimulatorResult.probabilities(), probabilities(key) (marginals), '
        'to_cirq_result with a scripted generator: requested probability vector (normalised iff |total-1|<=1e-5) and rows = bits of the drawn outcome at each key\'s targets',
    )


def _sym_key(cx, name, n):
    """big-endian n-bit key built from symbolic bits: (HInt key, [bit per wire])"""
    from symx.hint import HInt
    from symx.sint import SInt

    bits = [cx.int(f'{name}b{w}', 0, 1) for w in range(n)]
    v = V.big_endian_value(bits)
    if isinstance(v, SInt):
        v = HInt(v.e)
    return v, bits


DIRECT_LAYOUTS = {
    3: [('a', (2, 0)), ('b', (1,))],
    4: [('a', (3, 1)), ('b', (0, 2))],
    5: [('u', (4, 0, 2)), ('v', (1,))],
    6: [('u', (5, 0)), ('v', (3, 1, 4))],
}


def results_direct_qpu(tier):
    import cirq_ionq

    ns = direct_ns(tier)

    def body(cx, wrong=False):
        n = ns[cx.choose('n', len(ns))]
        meas = DIRECT_LAYOUTS[n]
        K, bits = zip(*[_sym_key(cx, f'k{i}', n) for i in range(2)])
        cx.assume(K[0] != K[1])
        c = [cx.int(f'c{i}', 0, 2) for i in range(2)]
        res = cirq_ionq.QPUResult(counts={K[0]: c[0], K[1]: c[1]}, num_qubits=n, measurement_dict={k: list(w) for k, w in meas})
        obits = [list(b[::-1]) if wrong else list(b) for b in bits]
        for key, w in meas:
            vals = res.ordered_results(key)  # concretises the counts (list * count)
            cs = [int(x) for x in c]
            cx.check(len(vals) == sum(cs), f'direct.qpu.ordered_results({key}).length')
            want = [V.big_endian_value([obits[i][j] for j in w]) for i in range(2)]
            # every produced value is one of the two projected outcomes, with the right multiplicities
            conds = [OR([EQ(v, want[i]) for i in range(2) if cs[i] > 0]) for v in vals]
            for i in range(2):
                lhs = 0
                for v in vals:
                    lhs = lhs + B2I(EQ(v, want[i]))
                rhs = 0
                for i2 in range(2):
                    rhs = rhs + B2I(EQ(want[i2], want[i])) * cs[i2]
                conds.append(EQ(lhs, rhs))
            cx.check(AND(conds), f'direct.qpu.ordered_results({key})')
            cnt = res.counts(key)
            conds = [sum(int(x) for x in cnt.values()) == sum(cs)]
            for i in range(2):
                if cs[i] > 0:
                    lhs = 0
                    for kk, vv in cnt.items():
                        lhs = lhs + B2I(EQ(kk, want[i])) * int(vv)
                    rhs = 0
                    for i2 in range(2):
                        rhs = rhs + B2I(EQ(want[i2], want[i])) * cs[i2]
                    conds.append(EQ(lhs, rhs))
            cx.check(AND(conds), f'direct.qpu.counts({key})')
        cs = [int(x) for x in c]
        if sum(cs) > 0:
            check_joint(cx, res.to_cirq_result(), meas, [(obits[i], cs[i]) for i in range(2)], 'direct.qpu.to_cirq_result')

    return Obligation(
        'ionq.results.qpu.direct',
        body,
        twin=lambda cx: body(cx, wrong=True),
        points=[{'choose:n': 0, 'k0b0': 1, 'k0b1': 0, 'k0b2': 1, 'k1b0': 0, 'k1b1': 1, 'k1b2': 1, 'c0': 1, 'c1': 2}, {'choose:n': 1, 'k0b0': 1, 'k1b4': 1, 'k1b3': 1, 'c0': 2, 'c1': 1}],
        opts={'weight': 5, 'decide_timeout_ms': 20000},
        desc='QPUResult(counts={K0: c0, K1: c1}) with big-endian keys K built from SYMBOLIC bits (n up to 6) and symbolic counts in 0..2: ordered_results(key), counts(key), '
        'to_cirq_result: the bit reported for (key, position j) is the bit of wire targets[j], (value >> (n-1-wire)) & 1, and rows are joint outcomes',
    )


def results_direct_qpu3(tier):
    """three and four histogram entries (concrete keys from a menu, symbolic counts): rows of to_cirq_result are
    whole shots - per-key regrouping of columns would change the joint multiset"""
    import itertools as _it

    import cirq_ionq

    def body(cx, wrong=False):
        n = 2
        meas = [('a', (0,)), ('b', (1,))]
        menus = [[0b00, 0b10, 0b01], [0b00, 0b01, 0b10, 0b11], [0b11, 0b00, 0b10], [0b01, 0b10, 0b11]]
        keys = menus[cx.choose('menu', len(menus))]
        c = [cx.int(f'c{i}', 0, 2) for i in range(len(keys))]
        res = cirq_ionq.QPUResult(counts={k: c[i] for i, k in enumerate(keys)}, num_qubits=n, measurement_dict={k: list(w) for k, w in meas})
        cs = [int(x) for x in c]
        if sum(cs) == 0:
            return
        r = res.to_cirq_result()
        rows = sorted((int(r.measurements['a'][i][0]), int(r.measurements['b'][i][0])) for i in range(sum(cs)))
        exp = sorted(_it.chain.from_iterable([((k >> 1) & 1, k & 1)] * cs[i] for i, k in enumerate(keys)))
        if wrong:
            exp = [(b_, a_) for a_, b_ in exp]
            exp = sorted(exp) + [(1, 1)]
        cx.check(rows == exp, 'direct.qpu3.to_cirq_result rows are the shots of the histogram (joint multiset)')

    return Obligation('ionq.results.qpu.direct3', body, twin=lambda cx: body(cx, wrong=True), opts={'weight': 3},
                      desc='QPUResult with 3-4 histogram entries on 2 wires and two keys (concrete keys from a menu, symbolic counts 0..2): the multiset of rows of to_cirq_result equals the multiset of shots (joint distribution across keys)')


def results_direct_sim(tier):
    import cirq_ionq

    ns = direct_ns(tier)

    def body(cx, wrong=False):
        n = ns[cx.choose('n', len(ns))]
        meas = DIRECT_LAYOUTS[n]
        K, bits = zip(*[_sym_key(cx, f'k{i}', n) for i in range(2)])
        cx.assume(K[0] != K[1])
        p = [cx.real(f'p{i}', 0.0, 1.0) for i in range(2)]
        reps = 2
        res = cirq_ionq.SimulatorResult(probabilities={K[0]: p[0], K[1]: p[1]}, num_qubits=n, measurement_dict={k: list(w) for k, w in meas}, repetitions=reps)
        obits = [list(b[::-1]) if wrong else list(b) for b in bits]
        for key, w in meas:
            marg = res.probabilities(key)
            want = [V.big_endian_value([obits[i][j] for j in w]) for i in range(2)]
            items = list(marg.items())  # insertion order: the projection of outcome 0 first
            if len(items) == 1:
                cx.check(AND([EQ(want[0], want[1]), EQ(items[0][0], want[0])]), f'direct.sim.probabilities({key}).merged-key')
                cx.close(items[0][1], p[0] + p[1], label=f'direct.sim.probabilities({key}).merged-value')
            else:
                cx.check(len(items) == 2, f'direct.sim.probabilities({key}).size')
                if len(items) != 2:
                    return
                from oracles.meas_views import NOT

                cx.check(AND([NOT(EQ(want[0], want[1])), EQ(items[0][0], want[0]), EQ(items[1][0], want[1])]), f'direct.sim.probabilities({key}).keys')
                cx.close([items[0][1], items[1][1]], [p[0], p[1]], label=f'direct.sim.probabilities({key}).values')
        keys_bits = [(K[i], obits[i]) for i in range(2)]
        _check_sim_sampling(cx, res, meas, n, keys_bits, p, reps, 'direct.sim.to_cirq_result', override=(None, 1)[cx.choose('override', 2)])

    return Obligation(
        'ionq.results.sim.direct',
        body,
        twin=lambda cx: body(cx, wrong=True),
        points=[{'choose:n': 0, 'k0b0': 1, 'k0b1': 0, 'k0b2': 1, 'k1b0': 0, 'k1b1': 1, 'k1b2': 1, 'p0': 0.25, 'p1': 0.75}, {'choose:n': 1, 'k0b0': 1, 'k1b4': 1, 'k1b3': 1, 'p0': 0.6, 'p1': 0.3, 'choose:override': 1}],
        opts={'weight': 5, 'decide_timeout_ms': 20000},
        desc='SimulatorResult(probabilities={K0: p0, K1: p1}) with keys from symbolic bits (n up to 6), symbolic probabilities: probabilities(key) marginals; to_cirq_result with scripted '
        'generator (override_repetitions too): requested vector, rows = bits of the drawn outcome at the targets',
    )


# =============================================================================================
# AQT
# =============================================================================================
def aqt_families():
    import cirq

    return {
        'Z': (lambda a, b: cirq.ZPowGate(exponent=a), lambda a, b: D.Z(a), 1),
        'Zshift': (lambda a, b: cirq.ZPowGate(exponent=a, global_shift=-0.5), lambda a, b: D.Z(a, -0.5), 1),
        'R': (lambda a, b: cirq.PhasedXPowGate(exponent=a, phase_exponent=b), lambda a, b: D.phased_x(a, b), 1),
        'Rshift': (lambda a, b: cirq.PhasedXPowGate(exponent=a, phase_exponent=b, global_shift=-0.5), lambda a, b: D.phased_x(a, b, -0.5), 1),
        'MS': (lambda a, b: cirq.XXPowGate(exponent=a), lambda a, b: D.XX(a), 2),
        'MSrads': (lambda a, b: cirq.ms(a * PI / 2), lambda a, b: D.ms(a * PI / 2), 2),
    }


AQT_SHAPES_QUICK = [
    ('z', [('Z', (1,))]),
    ('r', [('R', (0,))]),
    ('ms', [('MS', (1, 0))]),
    ('r_ms_z', [('R', (1,)), ('MS', (1, 0)), ('Z', (0,))]),
    ('ms_r_r', [('MSrads', (0, 2)), ('Rshift', (2,)), ('R', (0,)), ('Zshift', (1,))]),
]
AQT_SHAPES_MORE = [
    ('zrz', [('Z', (0,)), ('R', (0,)), ('Z', (0,))]),
    ('msms', [('MS', (0, 1)), ('MS', (2, 1)), ('R', (1,))]),
    ('rr', [('R', (1,)), ('Rshift', (1,)), ('MS', (1, 0))]),
]


def aqt_build(cx, ops, wrong=False):
    import cirq

    fam = aqt_families()
    cops, ref = [], []
    for oi, (g, wires) in enumerate(ops):
        build, doc, nq = fam[g]
        a = cx.real(f'a{oi}', -BOX, BOX)
        b = cx.real(f'b{oi}', -2.0, 2.0) if g.startswith('R') else 0.0
        cops.append(build(a, b).on(*[cirq.LineQubit(i) for i in wires]))
        ref.append((doc((a + 0.25) if (wrong and oi == len(ops) - 1) else a, b), list(wires)))
    return cops, ref


def cirq_ops_documented(circuit):
    """(matrix, wires) of the operations of a cirq circuit made of ZPowGate / XXPowGate / PhasedXPowGate /
    measurement, from the gates' ATTRIBUTES and the documented matrices (cirq.unitary is not used)"""
    import cirq

    out, meas = [], []
    for op in circuit.all_operations():
        g = op.gate
        w = [q.x for q in op.qubits]
        if isinstance(g, cirq.MeasurementGate):
            meas.append((g.key, w))
        elif meas:
            raise V.PayloadError('operation after the measurement')
        elif isinstance(g, cirq.PhasedXPowGate):
            out.append((D.phased_x(g.exponent, g.phase_exponent, g.global_shift), w))
        elif isinstance(g, cirq.ZPowGate):
            out.append((D.Z(g.exponent, g.global_shift), w))
        elif isinstance(g, cirq.XXPowGate):
            out.append((D.XX(g.exponent, g.global_shift), w))
        else:
            raise V.PayloadError(f'unexpected gate {g!r}')
    return out, meas


def aqt_json(shape, tier):
    import cirq
    import cirq_aqt
    from cirq_aqt import aqt_device as Dv

    sname, ops = shape

    def body(cx, wrong=False):
        cops, ref = aqt_build(cx, ops, wrong)
        n = max(i for _g, w in ops for i in w) + 1
        sampler = cirq_aqt.AQTSampler('workspace', 'resource', 'token')
        js = sampler._generate_json(circuit=cirq.Circuit(cops), param_resolver=cirq.ParamResolver({}))
        cx.check(isinstance(js, str), f'{sname}.json-is-text')
        legacy = payload_loads(js)
        lops, nmeas = V.aqt_legacy_ops(legacy)
        cx.check(nmeas == 0, f'{sname}.legacy.no-measure-entry')
        same_up_to_phase(cx, n, lops, ref, {}, f'aqt.{sname}.legacy')
        arn = sampler._parse_legacy_circuit_json(js)
        same_up_to_phase(cx, n, V.aqt_arnica_ops(arn), ref, {}, f'aqt.{sname}.arnica')
        sim = Dv.AQTSimulator(num_qubits=n, simulate_ideal=True)
        sim.generate_circuit_from_list(js)
        sops, smeas = cirq_ops_documented(sim.circuit)
        same_up_to_phase(cx, n, sops, ref, {}, f'aqt.{sname}.local-simulator-circuit')
        cx.check(len(smeas) == 1 and smeas[0][0] == 'm' and smeas[0][1] == list(range(n)), f'{sname}.local-simulator-measures-all-qubits-as-m')

    return Obligation(
        f'aqt.json.{sname}',
        body,
        twin=lambda cx: body(cx, wrong=True),
        points=[{}, {}, {}, {'a0': 1.0, 'b0': 0.5}, {'a0': 0.5, 'b0': -0.25, 'a1': 0.25}],
        opts={'lattices': (8, 6), 'weight': 3},
        desc=f'AQTSampler._generate_json({[g + str(list(w)) for g, w in ops]}, symbolic exponents / phase exponents): legacy list interpreted with AQT gate definitions (angles in units of pi), '
        '_parse_legacy_circuit_json -> Arnica ops (exactly one final MEASURE), AQTSimulator.generate_circuit_from_list -> circuit: all three == documented Cirq matrices up to phase',
    )


class ArnicaModel:
    """model of the AQT Arnica HTTP API (requests.post / requests.get of cirq_aqt.aqt_sampler): accepts one
    submission, interprets the circuit with AQT's gate definitions, answers 'finished' with given samples"""

    def __init__(self, samples):
        self.samples = samples
        self.submissions = []
        self.gets = 0

    class _Resp:
        def __init__(self, data):
            self._d = data
            self.status_code = 200

        def json(self):
            return self._d

    def post(self, url, json=None, headers=None, **k):
        self.submissions.append((url, json, headers))
        return self._Resp({'response': {'status': 'queued'}, 'job': {'job_id': 'job-1'}})

    def get(self, url, headers=None, **k):
        self.gets += 1
        return self._Resp({'response': {'status': 'finished', 'result': {'0': self.samples}}})


def aqt_run_sweep(tier):
    import cirq
    import cirq_aqt
    from cirq_aqt import aqt_sampler as S

    shapes = [AQT_SHAPES_QUICK[3], AQT_SHAPES_QUICK[1]] + ([AQT_SHAPES_QUICK[4]] if tier != 'quick' else [])

    def body(cx, wrong=False):
        sname, ops = shapes[cx.choose('shape', len(shapes))]
        cops, ref = aqt_build(cx, ops, wrong)
        n = len({i for _g, w in ops for i in w})
        nmax = max(i for _g, w in ops for i in w) + 1
        reps = 2
        samples = [[cx.int(f's{r}_{j}', 0, 1) for j in range(n)] for r in range(reps)]
        model = ArnicaModel(samples)
        sampler = cirq_aqt.AQTSampler('ws', 'res', 'token', remote_host='http://model/')
        old = S.post, S.get
        S.post, S.get = model.post, model.get
        try:
            out = sampler.run_sweep(cirq.Circuit(cops), params=None, repetitions=reps)
        finally:
            S.post, S.get = old
        cx.check(len(model.submissions) == 1 and len(out) == 1, 'run_sweep.one-submission-one-result')
        url, sub, headers = model.submissions[0]
        cx.check(url == 'http://model/submit/ws/res' and headers.get('Authorization') == 'Bearer token', 'run_sweep.url/headers')
        circ = sub['payload']['circuits']
        cx.check(sub['job_type'] == 'quantum_circuit' and len(circ) == 1 and circ[0]['repetitions'] == reps and circ[0]['number_of_qubits'] == n, 'run_sweep.submission-header')
        if nmax == n:
            same_up_to_phase(cx, n, V.aqt_arnica_ops(circ[0]['quantum_circuit']), ref, {}, 'aqt.run_sweep.submitted-circuit')
        rows = _rows(out[0].measurements['m'])
        conds = [len(rows) == reps]
        for r in range(min(reps, len(rows))):
            conds.append(len(rows[r]) == n)
            for j in range(min(n, len(rows[r]))):
                conds.append(EQ(bool(rows[r][j]), EQ(samples[r][j], 1)) if not isinstance(samples[r][j], int) else (bool(rows[r][j]) == bool(samples[r][j])))
        cx.check(AND(conds), 'run_sweep.result[m][shot][qubit]-is-the-returned-sample')

    return Obligation(
        'aqt.run_sweep.remote',
        body,
        twin=lambda cx: body(cx, wrong=True),
        points=[{'choose:shape': 0, 's0_0': 1, 's1_1': 1}, {'choose:shape': 1, 's0_0': 1}, {'choose:shape': 0, 's0_1': 1, 's1_0': 1}],
        opts={'lattices': (8, 6), 'weight': 3},
        desc='AQTSampler.run_sweep against a model Arnica server (module-level requests.post/get replaced): the submitted quantum_circuit means the circuit (symbolic exponents), '
        'repetitions/number_of_qubits are right, and result["m"][shot][qubit] is the returned sample bit (symbolic bits)',
    )


def aqt_reject(tier):
    import cirq
    import cirq_aqt

    def body(cx, wrong=False):
        which = cx.choose('gate', 5)
        t = cx.real('t', -BOX, BOX)
        L = cirq.LineQubit
        sampler = cirq_aqt.AQTSampler('w', 'r', 't')
        if which == 4:
            try:
                sampler._generate_json(circuit=cirq.Circuit(), param_resolver=cirq.ParamResolver({}))
            except RuntimeError:
                cx.check(not wrong, 'aqt.empty-circuit-rejected')
                return
            cx.check(False, 'aqt.empty-circuit-must-be-rejected')
            return
        op = [cirq.XPowGate(exponent=t).on(L(0)), cirq.YPowGate(exponent=t).on(L(0)), cirq.HPowGate(exponent=t).on(L(0)), cirq.CZPowGate(exponent=t).on(L(0), L(1))][which]
        try:
            sampler._generate_json(circuit=cirq.Circuit(op), param_resolver=cirq.ParamResolver({}))
        except ValueError:
            cx.check(not wrong, 'aqt.unsupported-gate-rejected')
            return
        cx.check(False, 'aqt.unsupported-gate-must-be-rejected')

    return Obligation(
        'aqt.json.reject',
        body,
        twin=lambda cx: body(cx, wrong=True),
        points=[{'choose:gate': i, 't': 0.5} for i in range(5)],
        desc='gates outside the AQT vocabulary (XPowGate, YPowGate, HPowGate, CZPowGate with symbolic exponent) raise ValueError; the empty circuit raises RuntimeError (nothing is silently altered)',
    )


# =============================================================================================
class _Fix:
    """view of a context in which some finite selectors are fixed (one obligation per selector value, so
    that the exploration is spread over the worker processes)"""

    def __init__(self, cx, fixed):
        self._cx = cx
        self._fixed = fixed

    def choose(self, name, n):
        if name in self._fixed:
            return self._fixed[name]
        return self._cx.choose(name, n)

    def __getattr__(self, a):
        return getattr(self._cx, a)


def split(ob, selector, n, label):
    out = []
    for v in range(n):
        pts = []
        for env in ob.points:
            if env.get('choose:' + selector, v) == v:
                pts.append({k: x for k, x in env.items() if k != 'choose:' + selector})
        out.append(
            Obligation(
                f'{ob.name}.{label(v)}',
                (lambda cx, v=v: ob.body(_Fix(cx, {selector: v}))),
                expected=ob.expected,
                opts=ob.opts,
                twin=(lambda cx, v=v: ob.twin(_Fix(cx, {selector: v}))),
                points=pts,
                desc=f'[{selector}={label(v)}] ' + ob.desc,
                kind=ob.kind,
            )
        )
    return out


def obligations(tier):
    obs = []
    fams = ['X', 'Y', 'Z', 'Rx', 'Rz', 'H', 'CNOT', 'SWAP', 'XX', 'YY', 'ZZ', 'MSrads', 'Xshift'] + (['Ry'] if tier != 'quick' else [])
    for f in fams:
        obs.append(ionq_1op(f, tier))
    obs.append(ionq_pauliexp(tier))
    for sh in _shape_menu(tier):
        obs.append(ionq_circuit(sh, tier))
    obs.append(ionq_batch(tier))
    obs += ionq_native(tier)
    lay, sep = ionq_meas_layout(tier)
    obs += split(lay, 'variant', 4, lambda v: f'v{v}') + [sep]
    jm = job_menu(tier)
    obs += split(results_job_qpu(tier), 'layout', len(jm), lambda v: f'n{jm[v][0]}l{jm[v][1]}')
    obs += split(results_job_sim(tier), 'layout', len(jm), lambda v: f'n{jm[v][0]}l{jm[v][1]}')
    dn = direct_ns(tier)
    obs += split(results_direct_qpu(tier), 'n', len(dn), lambda v: f'n{dn[v]}')
    obs.append(results_direct_qpu3(tier))
    obs += split(results_direct_sim(tier), 'n', len(dn), lambda v: f'n{dn[v]}')
    for sh in AQT_SHAPES_QUICK + (AQT_SHAPES_MORE if tier != 'quick' else []):
        obs.append(aqt_json(sh, tier))
    obs.append(aqt_run_sweep(tier))
    obs.append(aqt_reject(tier))
    return obs


LEVEL = (
    'Bounded symbolic execution of the real vendor code, SMT-decided: circuits whose gate exponents / phases / angles (and the serializer atol) are SYMBOLIC reals run through the real '
    'cirq_ionq.Serializer (all _serialize_*_gate methods, the _near_mod_n special cases with their tolerance bands, native gates, pauliexp, measurement metadata packing, batch) and the real '
    'cirq_aqt._generate_json/_parse_legacy_circuit_json/generate_circuit_from_list/run_sweep; the emitted payload is interpreted by an independent interpreter written from the vendors\' gate '
    'documentation and z3 decides equality up to a global phase with the ordered product of the documented Cirq matrices for ALL parameter values in the boxes.  Result conversion '
    '(Job.results, QPUResult, SimulatorResult) runs on symbolic histogram keys / bits, probabilities, counts and scripted random draws.  Measurement-key layouts and key lengths, qubit '
    'placements, circuit shapes and histogram sizes are finite menus explored exhaustively (solver-driven bounded exploration).'
)

ASSUMPTIONS = BASE_ASSUMPTIONS + [
    'tolerance bands: an exponent a+d (a special value, |d| <= 1e-5 in the 1-op obligations, <= 2e-8 inside multi-op circuits) makes terms exp(i*w*d) appear; these are over-approximated on the '
    'term level by the Taylor enclosure 1 + i*w*d + eps with |Re eps|,|Im eps| <= (w*D)^2/2 (sound; symx/lemmas.py); within the acceptance band the serializer itself deviates from the circuit by up to '
    'pi*atol/2 = 1.6e-8 per special-cased gate, which the tolerance 1e-7 (2.5e-7 in multi-op circuits, where terms are bounded separately) absorbs',
    'the union of the regimes (generic: box minus 1.5e-8 neighbourhoods; band: a+d for every special value a+2k in the box) is the whole exponent box; the band offset d is declared as the sum of two '
    'half-range variables (same set of exponents)',
    'float-rounding residue terms (|coefficient| < 1e-13) are dropped from the harness-computed residual payload*reference^dagger before the comparison; the dropped mass is checked to be < 1e-9 on every '
    'path and the comparison tolerance is reduced by 1e-9',
    'Job.results/_little_endian_to_big branches on every bit of a histogram key, so in the Job.results obligations the symbolic keys are resolved into one path per key value by the code under test '
    '(solver-driven bounded exploration); in the direct QPUResult/SimulatorResult obligations the key bits stay symbolic inside the verification conditions',
    'json.dumps/json.loads of cirq_aqt are replaced by a structure-preserving pass-through when the payload contains symbolic numbers (text encoding of floats is outside the claim)',
    'IonQ HTTP client replaced by an object returning the histogram; histogram keys are handed over as integers (real API: decimal strings; int(str) parsing is outside the claim)',
    'requests.post/get of cirq_aqt.aqt_sampler replaced by a model Arnica server (HTTP transport outside the claim)',
    'numpy RandomState.choice replaced by a scripted generator that records the requested probability vector and returns solver-chosen indices',
    'IonQ native zz is read from the field "phase" (turns), the field name fixed by cirq_ionq\'s own contract; IonQ gate meanings transcribed from docs.ionq.com, AQT from the Arnica gate classes (angles in units of pi)',
]


def main(tier, seed=0, replay=None, only=None, procs=None):
    bounds = {
        'exponent_box': [-BOX, BOX],
        'serializer_atol': [0, ATOL],
        'native_phase_box_turns': [-2, 2],
        'pauliexp': 'strings from a menu of 6 (quick) / 8 (thorough) over IXYZ on <= 3 wires incl. permuted targets, coefficient +-1, exponent_neg/pos in [-1,1]',
        'circuits': '1 op (14 families x 2-3 placements, every special value in the box with its band); fixed menu of 4 (quick) / 9 (thorough) multi-op shapes with <= 4 ops on <= 3 wires, '
        'one symbolic exponent per parametric gate; batch of 2 circuits',
        'measurement_layouts': '1-3 keys, wires <= 4, key length 1..130 and 341..370 (quick) / 1..370 (thorough), every length explored',
        'results': 'Job.results: n in {2,3} (quick) / {2,3,4} wires, 2 histogram entries with symbolic keys, symbolic probabilities, shots 2 (quick) / 3; direct QPUResult/SimulatorResult: keys from symbolic bits, '
        'n in {3,6} (quick) / {3,4,5,6}, counts 0..2, 2 repetitions',
        'aqt': '5 (quick) / 8 (thorough) shapes with <= 4 ops on <= 3 wires over Z / PhasedX (R) / XX (MS) incl. global-shift variants; run_sweep with 2 repetitions of symbolic sample bits',
        'tolerance': '1e-7; 2.5e-7 for the band regimes inside multi-op circuits',
        'outside': [
            'HTTP clients (cirq_ionq.ionq_client, requests)',
            'Pasqal (payload is Cirq JSON text of the circuit)',
            'text encoding of numbers by json',
            'AQTSamplerLocalSimulator sampling (DensityMatrixSimulator.run; only the circuit it builds is checked)',
            'cirq_ionq.Service / Sampler convenience wrappers and the decomposition into the IonQ gate set (ionq_gateset: KAK/LAPACK)',
            'float rounding of the serializer (exact real arithmetic model), complex64',
            'circuits that mix native and QIS gates (cirq_ionq leaves their rejection to the IonQ API)',
        ],
    }
    return run_check(PID, tier, 'checks.C17', SHIMS, LEVEL, ASSUMPTIONS, bounds, seed=seed, replay=replay, only=only, procs=procs)

#!/usr/bin/env python3
"""Regenerates MANIFEST.json from checks/registry.json (kept valid at all times)."""
import json, os
HERE = os.path.dirname(os.path.dirname(os.path.abspath(__file__)))
reg = json.load(open(os.path.join(HERE, 'checks', 'registry.json')))
props = [json.loads(l)['id'] for l in open(os.path.join(HERE, 'properties.jsonl'))]
checks = []
na = []
for pid in props:
    r = reg.get(pid)
    if r and r.get('claimed'):
        checks.append({
            'property_id': pid,
            'quick_cmd': f'bin/check {pid} --tier quick',
            'thorough_cmd': f'bin/check {pid} --tier thorough',
            'evidence_file': f'evidence/{pid}.json',
            'replay_cmd_template': f'bin/check {pid} --replay {{path}}',
            'engine': r.get('engine', 'symx'),
            'level_claimed': {'category': 'other', 'text': r['text'], 'design_ref': r.get('design_ref', 'DESIGN.md section 5')},
            'level_note': r['note'],
            'technique': r['technique'],
        })
    else:
        na.append({'property_id': pid, 'reason': (r or {}).get('reason', 'no solver-based check has been built for this property yet')})
m = {
    'version': 1,
    'setup_cmd': 'bin/setup.sh',
    'hooks': {
        'guard': 'CIRQ_VERIF',
        'enable': 'none needed: all interposition is harness-side (module-global np/math/builtin shims installed at run time inside symbolic worker processes); /repo is imported unmodified via PYTHONPATH',
        'baseline_off_cmd': 'cd /repo && /venv/bin/python -m pytest -ra -q -p no:cacheprovider --timeout=900 --continue-on-collection-errors',
        'source_commits': [],
        'add_only': True,
    },
    'engines': [
        {'name': 'symx', 'path': 'symx/', 'serves_properties': [c['property_id'] for c in checks if c['engine'] == 'symx'], 'kind_free_text': 're-execution symbolic executor for numpy-centric Python: symbolic scalars in object arrays run through the real Cirq code, VCs decided by z3'},
        {'name': 'crosshair', 'path': 'harness_ch/', 'serves_properties': [c['property_id'] for c in checks if 'crosshair' in c['engine']], 'kind_free_text': 'CrossHair 0.0.110 contracts over calls of the real pure-Python functions'},
    ],
    'checks': checks,
    'not_applicable': na,
    'notes': 'Exit codes: 0 property held on everything explored; 1 replayed VIOLATION; 2 inconclusive/harness error (never a verdict). See DESIGN.md.',
}
json.dump(m, open(os.path.join(HERE, 'MANIFEST.json'), 'w'), indent=1)
print('claimed', [c['property_id'] for c in checks])

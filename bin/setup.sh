#!/bin/bash
# Builds the /verif/.venv overlay offline: python 3.12 of /venv + its site-packages (numpy, sympy,
# scipy, duet, protobuf ...) + z3-solver, cvc5, crosshair-tool from the local wheelhouse.
# Idempotent; every check calls it (bin/check) so a fresh restore works without setup_cmd too.
set -e
HERE="$(cd "$(dirname "$0")/.." && pwd)"
VENV="$HERE/.venv"
STAMP="$VENV/.ok"
if [ -f "$STAMP" ]; then exit 0; fi
exec 9>"$HERE/.venv.lock"
flock 9
if [ -f "$STAMP" ]; then exit 0; fi
rm -rf "$VENV"
/venv/bin/python -m venv "$VENV"
SP="$VENV/lib/python3.12/site-packages"
echo "import site; site.addsitedir('/venv/lib/python3.12/site-packages')" > "$SP/zz_venv_overlay.pth"
PIP_NO_INDEX=1 "$VENV/bin/pip" install -q --no-index --find-links /opt/veriftools/wheels z3-solver cvc5 crosshair-tool jsonschema >/dev/null
"$VENV/bin/python" - <<'PY'
import z3, crosshair, numpy, sympy
print("overlay ok: z3", z3.get_version_string(), "numpy", numpy.__version__)
PY
touch "$STAMP"

"""Second opinion on verification conditions: the z3 query is dumped as SMT-LIB2 and re-decided by cvc5."""
from __future__ import annotations


def cvc5_decide(z3_solver, timeout_ms=5000, logic=None) -> str:
    """returns 'sat' / 'unsat' / 'unknown' / 'error:<msg>'"""
    try:
        import cvc5
    except Exception as e:  # wheel not installed
        return f'error:no cvc5 ({e})'
    text = z3_solver.to_smt2()
    if '(error' in text:
        return 'error:z3 dump'
    try:
        slv = cvc5.Solver()
        slv.setOption('tlimit-per', str(int(timeout_ms)))
        slv.setOption('produce-models', 'false')
        slv.setLogic(logic or 'ALL')
        parser = cvc5.InputParser(slv)
        parser.setStringInput(cvc5.InputLanguage.SMT_LIB_2_6, text, 'vc')
        sm = parser.getSymbolManager()
        verdict = 'unknown'
        while True:
            cmd = parser.nextCommand()
            if cmd.isNull():
                break
            name = cmd.getCommandName()
            if name == 'set-logic':
                continue
            out = cmd.invoke(slv, sm)
            if name == 'check-sat':
                o = str(out).strip()
                if o in ('sat', 'unsat', 'unknown'):
                    verdict = o
        return verdict
    except Exception as e:
        return f'error:{type(e).__name__}: {str(e)[:120]}'

"""Models of numpy.linalg functions on symbolic (object) matrices, BY THEIR DOCUMENTED DEFINITION.

numpy.linalg.matrix_power(a, n) (numpy doc): "Raise a square matrix to the (integer) power n.  For
positive integers n, the power is computed by repeated matrix squarings and matrix multiplications.
If n == 0, the identity matrix of the same shape as M is returned.  If n < 0, the inverse is computed
and then raised to the abs(n)."  The model multiplies |n| copies (exact arithmetic: the association
order is irrelevant); the inverse of a 1x1 / 2x2 symbolic matrix is adjugate / determinant (the
reciprocal of the determinant is a symx atom with its defining constraint); larger symbolic inverses
are an Escape (LAPACK).  Concrete arguments go to the real numpy.

`install()` adds the model to symx.proxy.LinalgProxy (worker processes only; called from a check's
worker_setup, listed in the evidence as a stub).
"""
from __future__ import annotations

import numpy as _np

from .ctx import Escape
from .snum import SNum


def _mm(A, B):
    n = A.shape[0]
    out = _np.empty((n, n), dtype=object)
    for i in range(n):
        for j in range(n):
            tot = SNum.const(0)
            for k in range(n):
                tot = tot + A[i, k] * B[k, j]
            out[i, j] = tot
    return out


def _recip(d):
    d = SNum.coerce(d)
    if d.is_const():
        return SNum.const(1.0 / d.const_value())
    if d.is_syntactically_real():
        return d.reciprocal()
    n2 = d * d.conjugate()
    if n2.is_const():
        return d.conjugate() * SNum.const(1.0 / n2.const_value())
    return d.conjugate() * n2.reciprocal()


def _inv(A):
    n = A.shape[0]
    if n == 1:
        out = _np.empty((1, 1), dtype=object)
        out[0, 0] = _recip(A[0, 0])
        return out
    if n == 2:
        det = A[0, 0] * A[1, 1] - A[0, 1] * A[1, 0]
        r = _recip(det)
        out = _np.empty((2, 2), dtype=object)
        out[0, 0], out[0, 1], out[1, 0], out[1, 1] = A[1, 1] * r, -A[0, 1] * r, -A[1, 0] * r, A[0, 0] * r
        return out
    raise Escape('symx: numpy.linalg.matrix_power with negative exponent on a symbolic matrix larger than 2x2 (LAPACK inverse)')


def matrix_power(a, n):
    from . import proxy

    if not proxy.is_sym(a):
        return _np.linalg.matrix_power(a, n)
    if isinstance(n, (SNum,)) or not isinstance(n, (int, _np.integer)):
        raise Escape('symx: matrix_power with a non-integer / symbolic exponent')
    A = _np.asarray(a, dtype=object)
    if A.ndim != 2 or A.shape[0] != A.shape[1]:
        raise Escape('symx: matrix_power model handles single square matrices only')
    A = proxy._vec(proxy._coerce, A)
    n = int(n)
    if n < 0:
        A = _inv(A)
        n = -n
    out = proxy.to_obj(_np.eye(A.shape[0]))
    for _ in range(n):
        out = _mm(out, A)
    return proxy.wrap(out)


def install():
    from . import proxy

    proxy.LinalgProxy.matrix_power = staticmethod(matrix_power)
    return ['numpy.linalg.matrix_power model (symx/linalg_models.py: repeated product; 1x1/2x2 inverse by adjugate/determinant)']

"""Model of the part of `scipy.sparse` that `PauliString.sparse_matrix` / `PauliSum.sparse_matrix` use.

scipy's sparse containers are C kernels over numeric buffers and refuse object dtype, so symbolic
coefficients cannot pass through them.  `install_sparse(modules)` replaces the MODULE-GLOBAL name
`sparse` (``from scipy import sparse``) of the listed Cirq modules, inside worker processes only, by
`SPARSE`, a stand-in whose `coo_matrix` / `csr_matrix` build `ModelSparse` objects.  The model is written
from the scipy documentation, not from the scipy sources:

* ``coo_matrix((data, (row, col)), shape=(M, N))``: entries `A[row[k], col[k]] = data[k]`; duplicate
  coordinates are allowed and are SUMMED when the matrix is converted (`tocsr`, `toarray`);
  out-of-range or negative indices and arrays of unequal length are a ValueError.
* ``csr_matrix((M, N), dtype=...)``: the empty M x N matrix.
* ``tocsr()`` / ``tocoo()`` / ``tocsc()`` / ``asformat``: same matrix, canonical (row-major sorted, duplicates summed)
  entries; ``coo.data / .row / .col`` expose the triplets; ``scalar * A``, ``A * scalar``, ``A / scalar``,
  ``-A``, ``A + B``, ``A - B`` entry-wise / by the matrix definition; ``A @ B`` and ``A.dot(B)`` the matrix
  product; ``.T / transpose() / conj() / conjugate() / getH()``; ``toarray() / todense() / A``:
  the dense matrix; ``eliminate_zeros()`` removes stored entries that ARE zero (for a symbolic entry: only
  when it is the constant 0 - a stored symbolic entry that may evaluate to 0 is kept, which changes the stored
  structure but never a value; the stored structure `nnz` of symbolic matrices is therefore outside any claim);
  ``sum_duplicates()``; ``.shape .nnz .format .dtype .ndim``; ``copy()``.

Every ModelSparse holds plain Python lists of (row, col, value); values are whatever the code under test
computed (complex numbers or symbolic scalars).  Anything else of scipy.sparse that is touched raises
AttributeError loudly (never a silent fall-back to scipy with symbolic data).  In concrete mode (replay,
validation points) nothing is installed and the real scipy runs.
"""
from __future__ import annotations

import importlib

import numpy as _np

from .proxy import wrap


def _is_zero_const(v):
    if isinstance(v, (int, float, complex, _np.number)):
        return v == 0
    is_const = getattr(v, 'is_const', None)
    if is_const is not None and is_const():
        return v.const_value() == 0
    return False


def _scalar_like(x):
    if isinstance(x, (int, float, complex, _np.number)):
        return True
    if isinstance(x, _np.ndarray):
        return x.ndim == 0
    return hasattr(x, 'is_const')  # symbolic scalar (SNum)


class ModelSparse:
    __array_priority__ = 1000.0  # numpy scalars / arrays defer to our reflected operators

    def __init__(self, shape, triplets, fmt):
        self.shape = (int(shape[0]), int(shape[1]))
        self._t = list(triplets)  # [(r, c, v)] possibly with duplicates when fmt == 'coo'
        self.format = fmt

    # ---- construction helpers ---------------------------------------------------------------
    @staticmethod
    def from_triplet_arrays(data, row, col, shape, fmt):
        data = _np.asarray(data, dtype=object).reshape(-1) if not isinstance(data, _np.ndarray) else data.reshape(-1)
        row = _np.asarray(row).reshape(-1)
        col = _np.asarray(col).reshape(-1)
        if not (len(data) == len(row) == len(col)):
            raise ValueError('row, column, and data array must all be the same length')
        if shape is None:
            shape = (int(max(row, default=-1)) + 1, int(max(col, default=-1)) + 1)
        M, N = int(shape[0]), int(shape[1])
        tr = []
        for k in range(len(data)):
            r, c = int(row[k]), int(col[k])
            if r < 0 or c < 0:
                raise ValueError('negative index found')
            if r >= M:
                raise ValueError('row index exceeds matrix dimensions')
            if c >= N:
                raise ValueError('column index exceeds matrix dimensions')
            tr.append((r, c, data[k]))
        return ModelSparse((M, N), tr, fmt)

    def _canonical(self):
        """row-major sorted entries with duplicates summed"""
        acc = {}
        for r, c, v in self._t:
            if (r, c) in acc:
                acc[(r, c)] = acc[(r, c)] + v
            else:
                acc[(r, c)] = v
        return [(r, c, acc[(r, c)]) for (r, c) in sorted(acc)]

    def _as(self, fmt):
        return ModelSparse(self.shape, self._canonical(), fmt)

    # ---- conversions ------------------------------------------------------------------------
    def tocsr(self, copy=False):
        return self._as('csr')

    def tocsc(self, copy=False):
        return self._as('csc')

    def tocoo(self, copy=False):
        return self._as('coo')

    def asformat(self, fmt, copy=False):
        if fmt not in ('csr', 'csc', 'coo'):
            raise AttributeError(f'symx sparse model: format {fmt!r} is not modelled')
        return self._as(fmt)

    def copy(self):
        return ModelSparse(self.shape, self._t, self.format)

    def toarray(self, order=None, out=None):
        symbolic = any(not isinstance(v, (int, float, complex, _np.number)) for _, _, v in self._t)
        outa = _np.empty(self.shape, dtype=object if symbolic else complex)
        outa[:, :] = 0j
        for r, c, v in self._canonical():
            outa[r, c] = v
        return wrap(outa)

    def todense(self, order=None, out=None):
        return self.toarray()

    @property
    def A(self):
        return self.toarray()

    # ---- triplet views (documented attributes of coo_matrix) ------------------------------------
    def _need_coo(self, what):
        if self.format != 'coo':
            raise AttributeError(f'{self.format}_matrix has no attribute {what!r} (symx sparse model)')

    @property
    def data(self):
        vals = [v for _, _, v in self._t]
        if any(not isinstance(v, (int, float, complex, _np.number)) for v in vals):
            a = _np.empty(len(vals), dtype=object)
            for i, v in enumerate(vals):
                a[i] = v
            return wrap(a)
        return _np.array(vals, dtype=complex)

    @property
    def row(self):
        self._need_coo('row')
        return _np.array([r for r, _, _ in self._t], dtype=_np.int32)

    @property
    def col(self):
        self._need_coo('col')
        return _np.array([c for _, c, _ in self._t], dtype=_np.int32)

    @property
    def coords(self):
        return (self.row, self.col)

    @property
    def nnz(self):
        return len(self._t)

    @property
    def ndim(self):
        return 2

    @property
    def dtype(self):
        return _np.dtype(_np.complex128)

    def count_nonzero(self):
        raise AttributeError('symx sparse model: count_nonzero of possibly symbolic entries is not modelled')

    # ---- in-place clean-ups ---------------------------------------------------------------------
    def eliminate_zeros(self):
        self._t = [(r, c, v) for r, c, v in self._t if not _is_zero_const(v)]

    def sum_duplicates(self):
        self._t = self._canonical()

    # ---- arithmetic -----------------------------------------------------------------------------
    def _map(self, f):
        return ModelSparse(self.shape, [(r, c, f(v)) for r, c, v in self._t], self.format)

    def __neg__(self):
        return self._map(lambda v: -v)

    def __mul__(self, o):
        if _scalar_like(o):
            return self._map(lambda v: v * o)
        if isinstance(o, ModelSparse):
            return self.__matmul__(o)
        return NotImplemented

    def __rmul__(self, o):
        if _scalar_like(o):
            return self._map(lambda v: o * v)
        return NotImplemented

    def multiply(self, o):
        if _scalar_like(o):
            return self._map(lambda v: v * o)
        raise AttributeError('symx sparse model: element-wise multiply by a matrix is not modelled')

    def __truediv__(self, o):
        if _scalar_like(o):
            return self._map(lambda v: v / o)
        return NotImplemented

    def __add__(self, o):
        if isinstance(o, ModelSparse):
            if o.shape != self.shape:
                raise ValueError('inconsistent shapes')
            return ModelSparse(self.shape, self._t + o._t, 'coo')._as('csr')
        if isinstance(o, (int, float)) and o == 0:
            return self.copy()
        return NotImplemented

    __radd__ = __add__

    def __sub__(self, o):
        if isinstance(o, ModelSparse):
            return self + (-o)
        return NotImplemented

    def __matmul__(self, o):
        if isinstance(o, ModelSparse):
            if self.shape[1] != o.shape[0]:
                raise ValueError('dimension mismatch')
            by_row = {}
            for r, c, v in o._canonical():
                by_row.setdefault(r, []).append((c, v))
            tr = []
            for r, k, v in self._canonical():
                for c, w in by_row.get(k, ()):
                    tr.append((r, c, v * w))
            return ModelSparse((self.shape[0], o.shape[1]), tr, 'coo')._as('csr')
        if isinstance(o, _np.ndarray):
            return wrap(_np.dot(_np.asarray(self.toarray(), dtype=object), _np.asarray(o, dtype=object)))
        return NotImplemented

    def dot(self, o):
        if _scalar_like(o):
            return self * o
        r = self.__matmul__(o)
        if r is NotImplemented:
            raise TypeError('symx sparse model: unsupported operand for dot')
        return r

    def transpose(self, axes=None, copy=False):
        return ModelSparse((self.shape[1], self.shape[0]), [(c, r, v) for r, c, v in self._t], 'coo')._as({'csr': 'csc', 'csc': 'csr'}.get(self.format, 'coo'))

    @property
    def T(self):
        return self.transpose()

    def conjugate(self, copy=True):
        return self._map(lambda v: v.conjugate() if hasattr(v, 'conjugate') else v)

    conj = conjugate

    def getH(self):
        return self.transpose().conjugate()

    @property
    def H(self):
        return self.getH()

    def __repr__(self):
        return f'<symx model of a {self.shape[0]}x{self.shape[1]} sparse matrix, {len(self._t)} stored entries, format {self.format}>'


class _Factory:
    """callable standing for the class `sparse.<fmt>_matrix` (constructor use only: isinstance() against it is a TypeError, loudly)"""

    def __init__(self, fmt):
        self.fmt = fmt
        self.__name__ = fmt + '_matrix'

    def __call__(self, arg1, shape=None, dtype=None, copy=False):
        if isinstance(arg1, ModelSparse):
            return arg1._as(self.fmt) if self.fmt != 'coo' else ModelSparse(arg1.shape, arg1._t, 'coo')
        if isinstance(arg1, tuple) and len(arg1) == 2 and all(isinstance(x, (int, _np.integer)) for x in arg1):
            return ModelSparse(arg1, [], self.fmt)
        if isinstance(arg1, tuple) and len(arg1) == 2 and isinstance(arg1[1], (tuple, list)) and len(arg1[1]) == 2:
            data, (row, col) = arg1
            m = ModelSparse.from_triplet_arrays(data, row, col, shape, 'coo')
            return m if self.fmt == 'coo' else m._as(self.fmt)
        if isinstance(arg1, _np.ndarray) and arg1.ndim == 2:
            tr = [(r, c, arg1[r, c]) for r in range(arg1.shape[0]) for c in range(arg1.shape[1]) if not _is_zero_const(arg1[r, c])]
            return ModelSparse(arg1.shape, tr, self.fmt)
        raise AttributeError(f'symx sparse model: {self.fmt}_matrix constructor form {type(arg1).__name__} is not modelled')


class SparseModule:
    """stand-in for the module `scipy.sparse` (only what is documented above)"""

    def __init__(self):
        self.coo_matrix = _Factory('coo')
        self.csr_matrix = _Factory('csr')
        self.csc_matrix = _Factory('csc')
        self.coo_array = self.coo_matrix
        self.csr_array = self.csr_matrix
        self.csc_array = self.csc_matrix
        self.spmatrix = ModelSparse

    def issparse(self, x):
        return isinstance(x, ModelSparse)

    isspmatrix = issparse

    def __getattr__(self, name):
        raise AttributeError(f'symx sparse model: scipy.sparse.{name} is not modelled')


SPARSE = SparseModule()


def install_sparse(module_names):
    done = []
    for mn in module_names:
        m = importlib.import_module(mn)
        if 'sparse' in m.__dict__:
            m.__dict__['sparse'] = SPARSE
            done.append(f'{mn}.sparse(scipy.sparse modelled for symbolic entries: symx/sparse_model.py)')
    return done


def self_test():
    """model vs real scipy on concrete random triplets with duplicates (run by hand / by the check's validation)"""
    from scipy import sparse as sp

    rng = _np.random.RandomState(7)
    for _ in range(50):
        M, N = rng.randint(1, 6), rng.randint(1, 6)
        k = rng.randint(0, 12)
        row, col = rng.randint(0, M, k), rng.randint(0, N, k)
        data = rng.randn(k) + 1j * rng.randn(k)
        a = sp.coo_matrix((data, (row, col)), shape=(M, N))
        b = SPARSE.coo_matrix((data, (row, col)), shape=(M, N))
        assert _np.allclose(a.toarray(), b.toarray().astype(complex))
        ac, bc = a.tocsr().tocoo(), b.tocsr().tocoo()
        assert list(ac.row) == list(bc.row) and list(ac.col) == list(bc.col) and _np.allclose(ac.data, bc.data.astype(complex))
        assert _np.allclose(((2 - 1j) * a.tocsr()).toarray(), ((2 - 1j) * b.tocsr()).toarray().astype(complex))
        assert _np.allclose((a.tocsr() + a.tocsr().T.conj().T).toarray() if M == N else a.toarray(), (b.tocsr() + b.tocsr().T.conj().T).toarray().astype(complex) if M == N else b.toarray().astype(complex))
    return True

"""Translation of SNum terms / conditions to z3.

mode 'over'    : every exp(i*q*atom) over a REAL atom is a unit-circle pair (c,s), c^2+s^2=1, plus
                 double-angle links between pairs of the same atom.  Over-approximates (cos,sin):
                 unsat is a proof, sat may be spurious.
mode 'lattice' : every real angle atom is restricted to multiples of pi/L (L = lattice), where
                 cos/sin are tabulated constants.  Under-approximates: sat is a genuine witness
                 (up to float rounding of the table), unsat proves nothing.
Integer-variable atoms (exp(i*pi*(a/b)*k)) are exact finite case splits in both modes.
"""
from __future__ import annotations

import math
from fractions import Fraction
from functools import reduce

import z3


def rv(x) -> z3.ArithRef:
    if isinstance(x, Fraction):
        f = x
    else:
        f = Fraction(float(x))
    if f.denominator == 1:
        return z3.RealVal(f.numerator)
    return z3.RealVal(f'{f.numerator}/{f.denominator}')


def _fgcd(a: Fraction, b: Fraction) -> Fraction:
    if a == 0:
        return abs(b)
    if b == 0:
        return abs(a)
    return Fraction(math.gcd(a.numerator * b.denominator, b.numerator * a.denominator), a.denominator * b.denominator)


class Encoder:
    def __init__(self, ctx, mode='over', lattice=4):
        self.ctx = ctx
        self.mode = mode
        self.L = lattice
        self.side = []
        self.pairs = {}
        self.gcds = {}
        self.latvars = {}
        self._zv = {}
        self.n = 0

    # ---- variables -------------------------------------------------------------
    def zvar(self, name):
        v = self._zv.get(name)
        if v is None:
            kind = self.ctx.vars.get(name, {}).get('kind', 'real')
            v = z3.ToReal(z3.Int(name)) if kind == 'int' else z3.Real(name)
            self._zv[name] = v
        return v

    def mono(self, m):
        if not m:
            return None
        fs = []
        for n, p in m:
            v = self.zvar(n)
            if p < 0:
                raise TypeError('symx: negative power in monomial')
            fs.extend([v] * p)
        return reduce(lambda a, b: a * b, fs)

    # ---- angles ------------------------------------------------------------------
    def prepare(self, snums):
        """lattice mode: collect gcd of the coefficients of every real angle atom"""
        for s in snums:
            for (_m, ang) in s.t:
                for atom, q in ang:
                    self.gcds[atom] = _fgcd(self.gcds.get(atom, Fraction(0)), q)

    def _is_int_atom(self, atom):
        mono, unit = atom
        return unit == 'pi' and len(mono) == 1 and mono[0][1] == 1 and self.ctx.vars.get(mono[0][0], {}).get('kind') == 'int'

    def _int_pair(self, atom, q):
        k = z3.Int(atom[0][0][0])
        a, b = q.numerator, q.denominator
        per = 2 * b
        idx = (a * k) % per
        c = rv(math.cos(math.pi * (per - 1) / b))
        s = rv(math.sin(math.pi * (per - 1) / b))
        for j in range(per - 2, -1, -1):
            cj, sj = _exact_cs(j, b)
            c = z3.If(idx == j, cj, c)
            s = z3.If(idx == j, sj, s)
        return c, s

    def pair(self, atom, q):
        if q < 0:
            c, s = self.pair(atom, -q)
            return c, -s
        key = (atom, q)
        p = self.pairs.get(key)
        if p is not None:
            return p
        if self._is_int_atom(atom):
            p = self._int_pair(atom, q)
        elif self.mode == 'over':
            self.n += 1
            c, s = z3.Real(f'_c{self.n}'), z3.Real(f'_s{self.n}')
            self.side.append(c * c + s * s == 1)
            # links to half / double angles of the same atom
            for (a2, q2), (c2, s2) in list(self.pairs.items()):
                if a2 != atom:
                    continue
                if q2 * 2 == q:
                    self.side.append(c == c2 * c2 - s2 * s2)
                    self.side.append(s == 2 * c2 * s2)
                elif q * 2 == q2:
                    self.side.append(c2 == c * c - s * s)
                    self.side.append(s2 == 2 * c * s)
            p = (c, s)
        else:
            g = self.gcds.get(atom)
            if g is None or g == 0:
                raise RuntimeError('symx: lattice encoder not prepared for atom')
            m = self.latvars.get(atom)
            L = self.L
            if m is None:
                self.n += 1
                m = z3.Int(f'_m{self.n}')
                self.latvars[atom] = m
                mono, unit = atom
                mz = self.mono(mono)
                # g * value(atom) = m * pi / L
                if unit == 'pi':
                    self.side.append(mz * rv(g * L) == z3.ToReal(m))
                else:
                    self.side.append(mz * rv(g * L) == z3.ToReal(m) * rv(math.pi))
            nmul = q / g
            assert nmul.denominator == 1
            idx = (int(nmul) * m) % (2 * L)
            c = rv(math.cos(math.pi * (2 * L - 1) / L))
            s = rv(math.sin(math.pi * (2 * L - 1) / L))
            for j in range(2 * L - 2, -1, -1):
                cj, sj = _exact_cs(j, L)
                c = z3.If(idx == j, cj, c)
                s = z3.If(idx == j, sj, s)
            p = (c, s)
        self.pairs[key] = p
        return p

    def E(self, ang):
        c, s = None, None
        for atom, q in ang:
            c2, s2 = self.pair(atom, q)
            if c is None:
                c, s = c2, s2
            else:
                c, s = c * c2 - s * s2, c * s2 + s * c2
        return c, s

    def lipschitz_lemmas(self, max_pairs=8):
        """over mode: chord <= arc for unit-circle pairs of single-variable real atoms:
        (c_i - c_j)^2 + (s_i - s_j)^2 <= (theta_i - theta_j)^2  and  (c_i - 1)^2 + s_i^2 <= theta_i^2.
        True facts about cos/sin that tie the abstraction to the angle values where Cirq uses tolerances."""
        if self.mode != 'over':
            return []
        items = []
        for (atom, q), (c, s_) in self.pairs.items():
            mono, unit = atom
            if self._is_int_atom(atom) or not (isinstance(c, z3.ArithRef) and z3.is_const(c)):
                continue
            if len(mono) != 1 or mono[0][1] != 1:
                continue
            kappa = rv(math.pi) if unit == 'pi' else z3.RealVal(1)
            theta = kappa * rv(q) * self.zvar(mono[0][0])
            items.append((theta, c, s_))
        items = items[:max_pairs]
        out = []
        for i, (th, c, s_) in enumerate(items):
            out.append((c - 1) * (c - 1) + s_ * s_ <= th * th)
            for th2, c2, s2 in items[i + 1 :]:
                out.append((c - c2) * (c - c2) + (s_ - s2) * (s_ - s2) <= (th - th2) * (th - th2))
        return out

    # ---- SNum -> (re, im) ------------------------------------------------------------
    def snum(self, sn):
        re, im = [], []
        for (mono, ang), co in sn.t.items():
            M = self.mono(mono)
            cr, ci = co.real, co.imag
            if ang:
                C, S = self.E(ang)
                if M is not None:
                    C, S = M * C, M * S
                if cr:
                    re.append(rv(cr) * C)
                    im.append(rv(cr) * S)
                if ci:
                    re.append(rv(-ci) * S)
                    im.append(rv(ci) * C)
            else:
                if M is None:
                    if cr:
                        re.append(rv(cr))
                    if ci:
                        im.append(rv(ci))
                else:
                    if cr:
                        re.append(rv(cr) * M)
                    if ci:
                        im.append(rv(ci) * M)
        zre = z3.Sum(re) if len(re) > 1 else (re[0] if re else z3.RealVal(0))
        zim = z3.Sum(im) if len(im) > 1 else (im[0] if im else z3.RealVal(0))
        return zre, zim

    # ---- conditions --------------------------------------------------------------------
    def cond(self, c):
        if isinstance(c, bool):
            return z3.BoolVal(c)
        k = c[0]
        if k == 'z3':
            return c[1]
        if k == 'cmp':
            op, d = c[1], c[2]
            re, im = self.snum(d)
            if op == 'lt':
                return re < 0
            if op == 'le':
                return re <= 0
            if op == 'eq':
                return z3.And(re == 0, im == 0)
            if op == 'ne':
                return z3.Or(re != 0, im != 0)
            raise ValueError(op)
        if k == 'and':
            return z3.And(self.cond(c[1]), self.cond(c[2]))
        if k == 'or':
            return z3.Or(self.cond(c[1]), self.cond(c[2]))
        if k == 'not':
            return z3.Not(self.cond(c[1]))
        raise ValueError(k)


def _exact_cs(j, L):
    """cos/sin(pi*j/L) with exact values at multiples of pi/2"""
    jj = j % (2 * L)
    if (2 * jj) % L == 0:
        q = (2 * jj) // L
        return (z3.RealVal(1), z3.RealVal(0), z3.RealVal(-1), z3.RealVal(0))[q], (
            z3.RealVal(0),
            z3.RealVal(1),
            z3.RealVal(0),
            z3.RealVal(-1),
        )[q]
    return rv(math.cos(math.pi * jj / L)), rv(math.sin(math.pi * jj / L))

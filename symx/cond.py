"""Condition AST.  Conditions are kept in terms of SNum (not z3) so that they can be translated
under different encodings (over-approximating proof encoding / lattice witness encoding).

node forms (tuples):
  ('z3', BoolRef)                raw solver formula over base variables (ints / bools)
  ('cmp', op, SNum)              op in lt, le, eq, ne :   Re(snum) op 0   (eq/ne: Re and Im)
  ('and', a, b) ('or', a, b) ('not', a)
Python bools are used for decided conditions.
"""
from __future__ import annotations

import z3


def cmp_cond(op, d):
    """d: SNum difference. Returns Python bool when syntactically decided, else SBool."""
    from .sint import SBool

    d = d.pruned()
    if d.is_const():
        c = d.const_value()
        if op == 'lt':
            return c.real < 0
        if op == 'le':
            return c.real <= 0
        if op == 'eq':
            return c == 0
        if op == 'ne':
            return c != 0
    return SBool(('cmp', op, d))


def c_not(a):
    if isinstance(a, bool):
        return not a
    if a[0] == 'not':
        return a[1]
    if a[0] == 'z3':
        return ('z3', z3.Not(a[1]))
    if a[0] == 'cmp':
        op, d = a[1], a[2]
        if op == 'eq':
            return ('cmp', 'ne', d)
        if op == 'ne':
            return ('cmp', 'eq', d)
        if op == 'lt':  # not(d<0) == (-d <= 0)
            return ('cmp', 'le', -d)
        if op == 'le':
            return ('cmp', 'lt', -d)
    return ('not', a)


def c_and(a, b):
    if isinstance(a, bool):
        return b if a else False
    if isinstance(b, bool):
        return a if b else False
    if a[0] == 'z3' and b[0] == 'z3':
        return ('z3', z3.And(a[1], b[1]))
    return ('and', a, b)


def c_or(a, b):
    if isinstance(a, bool):
        return True if a else b
    if isinstance(b, bool):
        return True if b else a
    if a[0] == 'z3' and b[0] == 'z3':
        return ('z3', z3.Or(a[1], b[1]))
    return ('or', a, b)


def c_xor(a, b):
    if isinstance(a, bool):
        return c_not(b) if a else b
    if isinstance(b, bool):
        return c_not(a) if b else a
    if a[0] == 'z3' and b[0] == 'z3':
        return ('z3', z3.Xor(a[1], b[1]))
    return c_or(c_and(a, c_not(b)), c_and(c_not(a), b))


def c_snums(a, out):
    """collect SNums appearing in a condition"""
    if isinstance(a, bool):
        return
    if a[0] == 'cmp':
        out.append(a[2])
    elif a[0] in ('and', 'or'):
        c_snums(a[1], out)
        c_snums(a[2], out)
    elif a[0] == 'not':
        c_snums(a[1], out)


def c_repr(a, depth=0):
    if isinstance(a, bool):
        return str(a)
    if a[0] == 'z3':
        s = str(a[1])
        return s if len(s) < 200 else s[:200] + '...'
    if a[0] == 'cmp':
        return f'{a[2]!r} {a[1]} 0'
    if a[0] == 'not':
        return f'not({c_repr(a[1])})'
    return f'({c_repr(a[1])} {a[0]} {c_repr(a[2])})'

"""Bit/byte level numpy models for symbolic bit arrays (C16, reusable by C18).

numpy's C kernels `packbits`, `unpackbits`, `frombuffer`, `ndarray.tobytes` and `astype(bool)` cannot
take symbolic objects.  They are modelled here BY THEIR DOCUMENTED DEFINITION on object arrays whose
elements are symbolic bits (SBool, or concrete 0/1) and symbolic bytes (SByte):

  packbits(a, axis, bitorder)    numpy doc: "Packs the elements of a binary-valued array into bits in a
                                 uint8 array. The result is padded to full bytes by inserting zero bits
                                 at the end."  bitorder 'big' (default): the first of each 8 inputs is
                                 the most significant bit (value 128); 'little': the first input is bit 0.
                                 Any non-zero input element counts as 1. axis=None packs the flattened array.
  unpackbits(a, axis, count, bitorder)
                                 numpy doc: "Each element of a represents a bit-field that should be
                                 unpacked into a binary-valued output array"; 'big': output position i of
                                 a byte is its bit of value 2**(7-i); `count` keeps the first `count`
                                 outputs along the axis (negative: trims from the end, larger: zero pads).
  frombuffer(buf, dtype=uint8)   the bytes of the buffer, one array element per byte, in order.
  ndarray.tobytes()              for a uint8 array: its elements in C order, one byte each.
  ndarray.astype(bool)           element != 0.

A symbolic byte (SByte) is the 8-tuple of its binary digits, digit k having value 2**k (bit-blasted
representation: every value in [0, 255] is exactly one assignment of the 8 digits); the 0/1 outputs
of unpackbits are represented by their truth value.  An earlier version of this model used z3 integer
terms (sum(If(b,1,0)*2**k), div/mod): z3 needs > 60 s for the resulting multi-byte div/mod VCs, the
propositional form is decided in milliseconds.

Everything else (pad, reshape, slicing with negative strides, hstack, transpose, ...) is executed by
the REAL numpy on object arrays.  All functions defer to the real numpy when no argument is symbolic.
`self_test()` validates every model against the real numpy kernels (terms evaluated under random
valuations must equal what numpy computes on those values).
"""
from __future__ import annotations

import builtins
import types

import numpy as _np
import z3

from .ctx import Escape
from .sint import SBool, SInt

_DT = _np.ndarray.dtype
_CONC = (bool, _np.bool_, int, _np.integer)


def isobj(a) -> bool:
    return isinstance(a, _np.ndarray) and _DT.__get__(a) == object


def is_sym(x) -> bool:
    if isinstance(x, (SBool, SInt, SByte, SymBytes)):
        return True
    if isinstance(x, _np.ndarray):
        return isobj(x)
    if isinstance(x, (list, tuple)):
        return builtins.any(is_sym(e) for e in x)
    return False


# ------------------------------------------------------------------------------------------------
# symbolic bytes and byte strings
# ------------------------------------------------------------------------------------------------
class SByte:
    """uint8 value given by its 8 binary digits; bits[k] (SBool or bool) is the digit of value 2**k"""

    __slots__ = ('bits',)

    def __init__(self, bits):
        bits = tuple(bits)
        if len(bits) != 8:
            raise ValueError('SByte needs 8 bits')
        self.bits = tuple(_norm_bit(b) for b in bits)

    @staticmethod
    def make(bits):
        """int when every digit is concrete, else SByte"""
        b = SByte(bits)
        v = b.value()
        return b if v is None else v

    def bit(self, k):
        return self.bits[k]

    def value(self):
        v = 0
        for k, b in enumerate(self.bits):
            if isinstance(b, SBool):
                return None
            v |= int(bool(b)) << k
        return v

    def to_sint(self):
        terms = []
        for k, b in enumerate(self.bits):
            if isinstance(b, SBool):
                terms.append(z3.If(_bool_z3(b), z3.IntVal(1 << k), z3.IntVal(0)))
            elif b:
                terms.append(z3.IntVal(1 << k))
        return SInt(z3.Sum(terms)) if terms else 0

    def __int__(self):
        v = self.value()
        if v is None:
            raise TypeError('symx: symbolic byte needed as a concrete integer')
        return v

    __index__ = __int__

    def __eq__(self, other):
        """value equality as SBool (a Python `if` on it forks)"""
        if isinstance(other, (SByte, int, _np.integer)) and not isinstance(other, bool):
            if not isinstance(other, SByte) and not 0 <= int(other) <= 255:
                return False
            acc = SBool(True)
            for k in range(8):
                x, y = self.bits[k], byte_bit(other, k)
                if isinstance(x, SBool):
                    e = x == y
                elif isinstance(y, SBool):
                    e = y == x
                else:
                    e = SBool(x == y)
                acc = acc & e
            return acc
        return NotImplemented

    def __ne__(self, other):
        r = self.__eq__(other)
        if r is NotImplemented:
            return r
        return (not r) if isinstance(r, bool) else ~r

    def __hash__(self):
        v = self.value()
        if v is None:
            raise TypeError('symx: hash of a symbolic byte')
        return hash(v)

    def __repr__(self):
        return f'SByte({list(self.bits)!r})'


def _norm_bit(b):
    if isinstance(b, SBool):
        return bool(b.c) if isinstance(b.c, bool) else b
    if isinstance(b, _CONC):
        return bool(b)
    if isinstance(b, SInt):
        return _norm_bit(truth(b))
    raise Escape(f'symx: bit model given a non-bit element {type(b).__name__}')


def byte_bit(e, k):
    """digit of value 2**k of a byte element (SByte or int in [0,255]) as bool / SBool"""
    if isinstance(e, SByte):
        return e.bits[k]
    if isinstance(e, _CONC):
        v = int(e)
        if not 0 <= v <= 255:
            raise Escape('symx: byte model given a value outside uint8')
        return bool((v >> k) & 1)
    raise Escape(f'symx: byte model given {type(e).__name__}')


class SymBytes:
    """immutable byte string whose bytes are ints or SByte"""

    __slots__ = ('items',)

    def __init__(self, items):
        self.items = tuple(items)
        for e in self.items:
            if not isinstance(e, (SByte, int)):
                raise TypeError(f'SymBytes element {type(e).__name__}')

    def __len__(self):
        return len(self.items)

    def __iter__(self):
        return iter(self.items)

    def __getitem__(self, i):
        if isinstance(i, slice):
            return SymBytes(self.items[i])
        return self.items[i]

    def __add__(self, o):
        if isinstance(o, SymBytes):
            return SymBytes(self.items + o.items)
        if isinstance(o, (bytes, bytearray)):
            return SymBytes(self.items + tuple(o))
        return NotImplemented

    def __radd__(self, o):
        if isinstance(o, (bytes, bytearray)):
            return SymBytes(tuple(o) + self.items)
        return NotImplemented

    def __bool__(self):
        return bool(self.items)

    def __repr__(self):
        return f'SymBytes(len={len(self.items)})'


def byte_items(data):
    """list of the bytes (int or SByte) of bytes / SymBytes: harness-side accessor"""
    if isinstance(data, SymBytes):
        return list(data.items)
    if isinstance(data, (bytes, bytearray, memoryview)):
        return [int(b) for b in bytes(data)]
    raise TypeError(f'not a byte string: {type(data).__name__}')


# ------------------------------------------------------------------------------------------------
# element conversions
# ------------------------------------------------------------------------------------------------
def _bool_z3(b: SBool):
    c = b.c
    if isinstance(c, bool):
        return z3.BoolVal(c)
    if isinstance(c, tuple) and c[0] == 'z3':
        return c[1]
    return b.to_z3()


def truth(e):
    """astype(bool): element != 0, as SBool"""
    if isinstance(e, SBool):
        return e
    if isinstance(e, SInt):
        r = e != 0
        return r if isinstance(r, SBool) else SBool(bool(r))
    if isinstance(e, _CONC):
        return SBool(bool(e))
    if isinstance(e, SByte):
        acc = SBool(False)
        for b in e.bits:
            acc = acc | b
        return acc
    raise Escape(f'symx: astype(bool) of {type(e).__name__}')


def bit_int(e):
    """0/1 integer value of a bit element"""
    if isinstance(e, SBool):
        if isinstance(e.c, bool):
            return 1 if e.c else 0
        return SInt(z3.If(_bool_z3(e), z3.IntVal(1), z3.IntVal(0)))
    if isinstance(e, _CONC):
        return 1 if e else 0
    if isinstance(e, SInt):
        return bit_int(truth(e))
    raise Escape(f'symx: bit model given a non-bit element {type(e).__name__}')


def as_uint8(e):
    """astype(uint8) of a bit or byte element: a byte"""
    if isinstance(e, SByte):
        return e
    if isinstance(e, SBool):
        return SByte.make([e] + [False] * 7)
    if isinstance(e, _CONC):
        return int(e) & 0xFF
    raise Escape(f'symx: astype(uint8) of {type(e).__name__}')


def _byte_elem(e):
    if isinstance(e, SByte):
        return e
    if isinstance(e, SBool):  # a bool array has itemsize 1: True -> b'\x01'
        return SByte.make([e] + [False] * 7)
    if isinstance(e, _CONC):
        v = int(e)
        if not 0 <= v <= 255:
            raise Escape('symx: tobytes() of an integer outside uint8 in the byte model')
        return v
    raise Escape(f'symx: tobytes() of {type(e).__name__} in the byte model')


# ------------------------------------------------------------------------------------------------
# ndarray subclass for symbolic bit / byte arrays
# ------------------------------------------------------------------------------------------------
class BitArray(_np.ndarray):
    """object ndarray of symbolic bits or bytes (uint8 semantics for tobytes / astype).
    Deliberately independent of symx.proxy.SymArray (which presents complex semantics)."""

    __array_priority__ = 120.0

    def tobytes(self, order='C'):
        if isobj(self):
            flat = _np.asarray(self).reshape(-1, order='C' if order in ('C', None) else order)
            return SymBytes(_byte_elem(e) for e in flat)
        return _np.ndarray.tobytes(self, order)

    def astype(self, dtype, *a, **k):
        if isobj(self):
            if dtype is object:
                return self.copy()
            dt = _np.dtype(dtype)
            if dt.kind == 'b':
                return _vec(truth, self)
            if dt == _np.dtype('uint8'):
                return _vec(as_uint8, self)
            raise Escape(f'symx: astype({dtype}) of a symbolic bit/byte array')
        return _np.ndarray.astype(self, dtype, *a, **k)

    def view(self, *a, **k):
        # arr.view(np.bool_) of a uint8 0/1 array re-reads each byte as a bool: element != 0
        if isobj(self) and len(a) == 1 and not k and not (isinstance(a[0], type) and issubclass(a[0], _np.ndarray)):
            if _np.dtype(a[0]).kind == 'b':
                return _vec(truth, self)
            raise Escape(f'symx: view({a[0]}) of a symbolic bit/byte array')
        return _np.ndarray.view(self, *a, **k)

    # numpy's == on object arrays forces every element comparison to a concrete bool: keep it symbolic
    def __eq__(self, other):
        if isobj(self) or isobj(other):
            return _vec2(elem_eq, self, other)
        return _np.ndarray.__eq__(self, other)

    def __ne__(self, other):
        if isobj(self) or isobj(other):
            return _vec2(lambda x, y: _not(elem_eq(x, y)), self, other)
        return _np.ndarray.__ne__(self, other)

    __hash__ = None


def _not(b):
    return ~b if isinstance(b, SBool) else (not b)


def elem_eq(x, y):
    """x == y for bit elements (SBool / concrete numbers) as SBool or bool"""
    if isinstance(x, _CONC) and isinstance(y, _CONC):
        return bool(x == y)
    if isinstance(x, _CONC):
        x, y = y, x
    if isinstance(x, SBool):
        if isinstance(y, SBool):
            return x == y
        if isinstance(y, _CONC):
            return x if y == 1 else (~x if y == 0 else False)  # a bit equals only 0 or 1
    raise Escape(f'symx: == between {type(x).__name__} and {type(y).__name__} in the bit model')


def _vec2(f, a, b):
    A = _np.asarray(a, dtype=object)
    B = _np.asarray(b, dtype=object)
    A, B = _np.broadcast_arrays(A, B)
    out = _np.empty(A.shape, dtype=object)
    of = out.reshape(-1)
    for i, (x, y) in enumerate(zip(A.reshape(-1), B.reshape(-1))):
        of[i] = f(x, y)
    return out.view(BitArray)


def _fold(a, op, unit):
    acc = SBool(unit)
    for e in _np.asarray(a, dtype=object).reshape(-1):
        acc = op(acc, truth(e))
    return acc


def _vec(f, a):
    a = _np.asarray(a, dtype=object)
    out = _np.empty(a.shape, dtype=object)
    of = out.reshape(-1)
    for i, e in enumerate(a.reshape(-1)):
        of[i] = f(e)
    return out.view(BitArray)


def as_bitarray(a):
    a = _np.asarray(a, dtype=object) if not isinstance(a, _np.ndarray) else a
    if isobj(a) and type(a) is not BitArray:
        return _np.asarray(a).view(BitArray)
    return a


def _positions(bitorder):
    """digit (power of two) that input/output position i of a byte corresponds to"""
    if bitorder == 'big':
        return [7 - i for i in range(8)]
    if bitorder == 'little':
        return [i for i in range(8)]
    raise ValueError("'order' must be either 'little' or 'big'")


def packbits(a, axis=None, bitorder='big'):
    arr = _np.asarray(a, dtype=object) if not isinstance(a, _np.ndarray) else a
    if axis is None:
        arr = arr.reshape(-1)
        axis = 0
    if arr.ndim == 0:
        raise Escape('symx: packbits of a 0-d array')
    pos = _positions(bitorder)
    src = _np.moveaxis(_np.asarray(arr), axis, -1)
    n = src.shape[-1]
    nb = (n + 7) // 8
    out = _np.empty(src.shape[:-1] + (nb,), dtype=object)
    for idx in _np.ndindex(*src.shape[:-1]):
        row = src[idx]
        for j in range(nb):
            digits = [False] * 8  # positions beyond the end are the inserted zero bits
            for i in range(8):
                k = 8 * j + i
                if k < n:
                    digits[pos[i]] = _norm_bit(truth(row[k]))  # any non-zero element counts as 1
            out[idx + (j,)] = SByte.make(digits)
    return _np.moveaxis(out, -1, axis).view(BitArray)


def unpackbits(a, axis=None, count=None, bitorder='big'):
    arr = _np.asarray(a, dtype=object) if not isinstance(a, _np.ndarray) else a
    if axis is None:
        arr = arr.reshape(-1)
        axis = 0
    if arr.ndim == 0:
        raise Escape('symx: unpackbits of a 0-d array')
    pos = _positions(bitorder)
    src = _np.moveaxis(_np.asarray(arr), axis, -1)
    n = src.shape[-1]
    out = _np.empty(src.shape[:-1] + (8 * n,), dtype=object)
    for idx in _np.ndindex(*src.shape[:-1]):
        row = src[idx]
        for j in range(n):
            for i in range(8):
                b = byte_bit(row[j], pos[i])
                out[idx + (8 * j + i,)] = b if isinstance(b, SBool) else int(b)
    if count is not None:
        if isinstance(count, SInt):
            count = int(count)
        if count >= 0:
            if count > 8 * n:  # numpy doc: "counts larger than the available number of bits will add zero padding"
                padw = _np.empty(src.shape[:-1] + (count - 8 * n,), dtype=object)
                padw.fill(0)
                out = _np.concatenate([out, padw], axis=-1)
            else:
                out = out[..., :count]
        else:
            out = out[..., :count]
    return _np.moveaxis(out, -1, axis).view(BitArray)


def frombuffer(buffer, dtype=float, count=-1, offset=0):
    if not isinstance(buffer, SymBytes):
        return _np.frombuffer(buffer, dtype=dtype, count=count, offset=offset)
    if _np.dtype(dtype) != _np.dtype('uint8'):
        raise Escape(f'symx: frombuffer(dtype={dtype}) of symbolic bytes (only uint8 is modelled)')
    items = list(buffer.items)[offset:]
    if count is not None and count >= 0:
        if count > len(items):
            raise ValueError('buffer is smaller than requested size')
        items = items[:count]
    out = _np.empty(len(items), dtype=object)
    for i, e in enumerate(items):
        out[i] = e
    return out.view(BitArray)


# ------------------------------------------------------------------------------------------------
# module-global `np` proxy with the bit-level functions
# ------------------------------------------------------------------------------------------------
class BitNpProxy(types.ModuleType):
    """Stands for the module-global `np` of a Cirq module that packs / unpacks bits.  Everything not
    listed here is the REAL numpy (attribute fall-through); the overrides act only when an argument
    carries symbolic data and defer to the real numpy otherwise.  Arrays handed back are BitArray so
    that `.tobytes()` and `.astype(bool)` stay symbolic.  Independent of symx.proxy.NpProxy."""

    MODELLED = (
        'numpy.packbits (symbolic bits -> bytes as 8 binary digits, per numpy documentation)',
        'numpy.unpackbits (symbolic bytes -> their binary digits, per numpy documentation)',
        'numpy.frombuffer(SymBytes, dtype=uint8) (bytes in order)',
        'ndarray.tobytes() of a symbolic uint8 array (elements in C order) -> SymBytes',
        'ndarray.astype(bool/uint8), .view(bool) and np.asarray/np.array(dtype=bool) of symbolic bits (element != 0, no concretisation)',
        'array == scalar, np.logical_or/and/not, np.all/np.any on symbolic bits (element-wise symbolic; all/any ask the solver)',
    )

    def __init__(self):
        super().__init__('numpy')

    def __getattr__(self, name):
        return getattr(_np, name)

    def packbits(self, a, axis=None, bitorder='big'):
        if is_sym(a):
            return packbits(a, axis=axis, bitorder=bitorder)
        return _np.packbits(a, axis=axis, bitorder=bitorder)

    def unpackbits(self, a, axis=None, count=None, bitorder='big'):
        if is_sym(a) or isinstance(count, SInt):
            return unpackbits(a, axis=axis, count=count, bitorder=bitorder)
        return _np.unpackbits(a, axis=axis, count=count, bitorder=bitorder)

    def frombuffer(self, buffer, dtype=float, count=-1, offset=0, **k):
        if isinstance(buffer, SymBytes):
            return frombuffer(buffer, dtype=dtype, count=count, offset=offset)
        return _np.frombuffer(buffer, dtype=dtype, count=count, offset=offset, **k)

    # ---- real numpy does the work on object arrays; results are re-viewed as BitArray ------------
    def _rewrap(name):
        real = getattr(_np, name)

        def f(self, *a, **k):
            r = real(*a, **k)
            return as_bitarray(r) if isobj(r) else r

        f.__name__ = name
        return f

    for _n in ('pad', 'hstack', 'vstack', 'stack', 'concatenate', 'reshape', 'transpose', 'moveaxis', 'flip', 'ravel'):
        locals()[_n] = _rewrap(_n)
    del _rewrap, _n

    def logical_or(self, a, b, **k):
        if is_sym(a) or is_sym(b):
            return _vec2(lambda x, y: truth(x) | truth(y), a, b)
        return _np.logical_or(a, b, **k)

    def logical_and(self, a, b, **k):
        if is_sym(a) or is_sym(b):
            return _vec2(lambda x, y: truth(x) & truth(y), a, b)
        return _np.logical_and(a, b, **k)

    def logical_not(self, a, **k):
        if is_sym(a):
            return _vec(lambda x: ~truth(x), a)
        return _np.logical_not(a, **k)

    def all(self, a, axis=None, **k):
        if is_sym(a):
            if axis is not None:
                raise Escape('symx: np.all(axis=...) on symbolic bits')
            return bool(_fold(a, lambda x, y: x & y, True))  # decided by the solver (forks only if both outcomes are feasible)
        return _np.all(a, axis=axis, **k)

    def any(self, a, axis=None, **k):
        if is_sym(a):
            if axis is not None:
                raise Escape('symx: np.any(axis=...) on symbolic bits')
            return bool(_fold(a, lambda x, y: x | y, False))
        return _np.any(a, axis=axis, **k)

    def _convert(self, obj, dtype, k):
        if dtype is None or dtype is object:
            f = None
        else:
            dt = _np.dtype(dtype)
            if dt.kind == 'b':
                f = truth
            elif dt == _np.dtype('uint8'):
                f = as_uint8
            elif dt.kind == 'O':
                f = None
            else:
                raise Escape(f'symx: np.array(symbolic bits, dtype={dtype})')
        arr = _np.array(obj, dtype=object, **k)  # real numpy stacking, elements untouched
        return arr.view(BitArray) if f is None else _vec(f, arr)

    def array(self, obj, dtype=None, copy=True, **k):
        if is_sym(obj):
            return self._convert(obj, dtype, k)
        return _np.array(obj, dtype=dtype, copy=copy, **k)

    def asarray(self, obj, dtype=None, **k):
        if is_sym(obj):
            if isobj(obj) and (dtype is None or dtype is object):
                return as_bitarray(obj)
            return self._convert(obj, dtype, k)
        return _np.asarray(obj, dtype=dtype, **k)


BITNP = BitNpProxy()


def install(module_names):
    """replace the module-global `np` of the named modules by BITNP; returns the stub list"""
    import importlib

    done = []
    for mn in module_names:
        m = importlib.import_module(mn)
        d = m.__dict__
        if isinstance(d.get('np'), types.ModuleType) and d.get('np') is not BITNP:
            d['np'] = BITNP
            done.append(f'{mn}.np -> symx.bitmodel.BitNpProxy')
    for t in BitNpProxy.MODELLED:
        done.append('model: ' + t)
    return done


# ------------------------------------------------------------------------------------------------
# model validation against the real numpy kernels
# ------------------------------------------------------------------------------------------------
def _eval_bool(t, subs):
    if isinstance(t, SBool):
        if isinstance(t.c, bool):
            return t.c
        r = z3.simplify(z3.substitute(_bool_z3(t), *subs)) if subs else z3.simplify(_bool_z3(t))
        if z3.is_true(r):
            return True
        if z3.is_false(r):
            return False
        raise AssertionError(f'term did not evaluate: {r}')
    return bool(t)


def _eval_byte(t, subs):
    if isinstance(t, SByte):
        return sum(int(_eval_bool(b, subs)) << k for k, b in enumerate(t.bits))
    return int(t)


def self_test(seed=0, rounds=60):
    """Translator validation of the models: symbolic terms evaluated at random valuations must equal
    the result of the real numpy kernels on those values. Returns a list of mismatch descriptions."""
    rng = _np.random.RandomState(1000 + int(seed))
    bad = []
    for r in range(rounds):
        ndim = rng.randint(1, 4)
        shape = tuple(int(rng.randint(0 if ndim == 1 else 1, 12 if ndim == 1 else 5)) for _ in range(ndim))
        if ndim == 1 and r % 7 == 0:
            shape = (int(rng.randint(0, 40)),)
        axis = [None] + list(range(-ndim, ndim))
        axis = axis[rng.randint(len(axis))]
        order = ('big', 'little')[rng.randint(2)]
        # ---- packbits: symbolic bits
        vals = rng.randint(0, 2, size=shape).astype(bool)
        sym = _np.empty(shape, dtype=object)
        subs = []
        for i, idx in enumerate(_np.ndindex(*shape)):
            v = z3.Bool(f'st_b{r}_{i}')
            sym[idx] = SBool(('z3', v))
            subs.append((v, z3.BoolVal(bool(vals[idx]))))
        want = _np.packbits(vals, axis=axis, bitorder=order)
        got = packbits(sym, axis=axis, bitorder=order)
        if got.shape != want.shape:
            bad.append(f'packbits shape {got.shape} != {want.shape} for shape={shape} axis={axis}')
        else:
            g = _np.array([_eval_byte(t, subs) for t in _np.asarray(got).reshape(-1)], dtype=_np.int64).reshape(want.shape)
            if not _np.array_equal(g, want.astype(_np.int64)):
                bad.append(f'packbits values differ for shape={shape} axis={axis} order={order}')
            tb = got.tobytes()
            if bytes(_eval_byte(t, subs) for t in tb) != want.tobytes():
                bad.append(f'tobytes differs for shape={shape} axis={axis}')
        # packbits with python-0 padding elements (real np.pad) and non-contiguous (reversed) views
        if ndim == 1:
            padded = _np.pad(sym, (0, -len(sym) % 8), 'constant')
            pv = _np.pad(vals, (0, -len(vals) % 8), 'constant')
            got2 = packbits(padded.reshape((-1, 8))[:, ::-1], axis=1)
            want2 = _np.packbits(pv.reshape((-1, 8))[:, ::-1], axis=1)
            g2 = _np.array([_eval_byte(t, subs) for t in _np.asarray(got2).reshape(-1)], dtype=_np.int64).reshape(want2.shape)
            if got2.shape != want2.shape or not _np.array_equal(g2, want2.astype(_np.int64)):
                bad.append(f'packbits on padded/reversed view differs for n={len(sym)}')
            ab = BITNP.asarray(sym, dtype=bool)
            if [_eval_bool(t, subs) for t in ab] != [bool(v) for v in vals]:
                bad.append('asarray(dtype=bool) differs')
        # ---- unpackbits / frombuffer / astype(bool): symbolic bytes
        bvals = rng.randint(0, 256, size=shape).astype(_np.uint8)
        bsym = _np.empty(shape, dtype=object)
        bsubs = []
        flat_sym = []
        for i, idx in enumerate(_np.ndindex(*shape)):
            digits = []
            for k in range(8):
                v = z3.Bool(f'st_d{r}_{i}_{k}')
                digits.append(SBool(('z3', v)))
                bsubs.append((v, z3.BoolVal(bool((int(bvals[idx]) >> k) & 1))))
            bsym[idx] = SByte(digits)
            flat_sym.append(bsym[idx])
        nax = shape[axis] if axis is not None else int(_np.prod(shape))
        count = [None, None, int(rng.randint(0, 8 * nax + 1)), -int(rng.randint(0, 8 * nax + 1)), 8 * nax + int(rng.randint(1, 5))][rng.randint(5)]
        if nax == 0 and count is not None and count > 0:
            count = None  # numpy leaves the zero padding of an EMPTY input uninitialised: not comparable
        try:
            want = _np.unpackbits(bvals, axis=axis, count=count, bitorder=order)
        except ValueError:
            want = None
        if want is not None:
            got = unpackbits(bsym, axis=axis, count=count, bitorder=order)
            if got.shape != want.shape:
                bad.append(f'unpackbits shape {got.shape} != {want.shape} for shape={shape} axis={axis} count={count}')
            else:
                g = _np.array([_eval_bool(t, bsubs) for t in _np.asarray(got).reshape(-1)], dtype=bool).reshape(want.shape)
                if not _np.array_equal(g, want.astype(bool)):
                    bad.append(f'unpackbits values differ for shape={shape} axis={axis} count={count} order={order}')
                gb = got.astype(bool)
                g = _np.array([_eval_bool(t, bsubs) for t in _np.asarray(gb).reshape(-1)], dtype=bool).reshape(want.shape)
                if not _np.array_equal(g, want.astype(bool)):
                    bad.append(f'astype(bool) differs for shape={shape}')
        raw = bvals.tobytes()
        fb = frombuffer(SymBytes(flat_sym), dtype='uint8')
        wantfb = _np.frombuffer(raw, dtype='uint8')
        if fb.shape != wantfb.shape or [_eval_byte(t, bsubs) for t in fb] != [int(x) for x in wantfb]:
            bad.append(f'frombuffer differs for {len(raw)} bytes')
        if flat_sym and _eval_int(flat_sym[0].to_sint(), bsubs) != int(bvals.reshape(-1)[0]):
            bad.append('SByte.to_sint differs')
    return bad


def _eval_int(t, subs):
    if isinstance(t, SInt):
        r = z3.simplify(z3.substitute(t.e, *subs)) if subs else z3.simplify(t.e)
        if not z3.is_int_value(r):
            raise AssertionError(f'term did not evaluate: {r}')
        return r.as_long()
    return int(t)

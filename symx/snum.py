"""SNum: symbolic real/complex scalars ("exponential polynomials") for numpy object arrays.

A value is   sum_k  c_k * m_k * exp(i * A_k)   with
  c_k  complex128 coefficient,
  m_k  monomial in declared variables (tuple of (name, power)),
  A_k  angle = rational-linear form over angle atoms; an atom is (monomial, unit),
       unit 'pi' (the atom's value is pi*monomial) or 'rad' (value = monomial).
All variables are REAL (kinds 'real' or 'int'), so conj only flips angles/coefficients.

The ring is closed under + - *, conj, real, imag, exp/cos/sin of purely real "linear" arguments,
b**x for unit-modulus constant b.  Operations that leave the ring create ATOMS (fresh variables
with defining constraints recorded in the active context): sqrt, reciprocal, abs, floor/mod.
Comparisons return SBool conditions (symx.cond) decided by the explorer / solver.

Nothing here silently concretises: float()/complex()/int() of a non-constant SNum raise TypeError.
"""
from __future__ import annotations

import cmath
import math
import numbers
from fractions import Fraction
from typing import Dict, Tuple

from . import ctx as _ctx

Mono = Tuple[Tuple[str, int], ...]
AngAtom = Tuple[Mono, str]
Ang = Tuple[Tuple[AngAtom, Fraction], ...]
Key = Tuple[Mono, Ang]

_PI = math.pi
_SMALL = 0.0  # no coefficient pruning except exact zeros


def _nice_fraction(x: float) -> Fraction:
    """Exact Fraction of a float, snapped to a small rational when within 1e-12 relative."""
    if x == 0:
        return Fraction(0)
    f = Fraction(x)
    g = f.limit_denominator(1 << 12)
    if abs(float(g) - x) <= 4e-15 * max(1.0, abs(x)) * max(1, g.denominator):
        return g
    return f


def mono_mul(a: Mono, b: Mono) -> Mono:
    if not a:
        return b
    if not b:
        return a
    d = dict(a)
    for n, p in b:
        q = d.get(n, 0) + p
        if q:
            d[n] = q
        else:
            d.pop(n, None)
    return tuple(sorted(d.items()))


def ang_add(a: Ang, b: Ang, sb: int = 1) -> Ang:
    if not b:
        return a
    if not a and sb == 1:
        return b
    d = dict(a)
    for atom, q in b:
        r = d.get(atom, 0) + sb * q
        if r:
            d[atom] = r
        else:
            d.pop(atom, None)
    return _ang_norm(d)


def _ang_norm(d) -> Ang:
    out = {}
    for atom, q in d.items():
        if not q:
            continue
        mono, unit = atom
        # integer periodicity: exp(i*pi*q*k) with k an integer variable has period 2 in q
        if unit == 'pi' and len(mono) == 1 and mono[0][1] == 1 and _ctx.var_kind(mono[0][0]) == 'int':
            q = q % 2
            if not q:
                continue
        out[atom] = q
    return tuple(sorted(out.items()))


class SNum:
    __slots__ = ('t',)

    def __init__(self, terms: Dict[Key, complex]):
        self.t = terms

    # ---- construction ------------------------------------------------------
    @staticmethod
    def const(c) -> 'SNum':
        c = complex(c)
        if c == 0:
            return SNum({})
        return SNum({((), ()): c})

    @staticmethod
    def var(name: str) -> 'SNum':
        return SNum({(((name, 1),), ()): 1 + 0j})

    @staticmethod
    def coerce(x):
        if isinstance(x, SNum):
            return x
        if isinstance(x, (int, float, complex)) and not isinstance(x, bool):
            return SNum.const(x)
        if isinstance(x, bool):
            return SNum.const(int(x))
        from .sint import SInt, SBool

        if isinstance(x, SInt):
            return x.to_snum()
        if isinstance(x, SBool):
            return x.to_sint().to_snum()
        if isinstance(x, numbers.Number):
            try:
                return SNum.const(complex(x))
            except TypeError:
                return None
        return None

    # ---- inspection --------------------------------------------------------
    def is_const(self) -> bool:
        return all(k == ((), ()) for k in self.t)

    def const_value(self) -> complex:
        assert self.is_const()
        return self.t.get(((), ()), 0j)

    def is_zero(self) -> bool:
        return not self.t

    def variables(self):
        s = set()
        for mono, ang in self.t:
            for n, _ in mono:
                s.add(n)
            for (m, _u), _q in ang:
                for n, _ in m:
                    s.add(n)
        return s

    def is_syntactically_real(self) -> bool:
        c = self.conjugate()
        return c.t.keys() == self.t.keys() and all(abs(c.t[k] - v) <= 1e-15 * (1 + abs(v)) for k, v in self.t.items())

    def max_abs_coef(self) -> float:
        return max((abs(v) for v in self.t.values()), default=0.0)

    def eval(self, env) -> complex:
        tot = 0j
        for (mono, ang), c in self.t.items():
            v = c
            for n, p in mono:
                v *= env[n] ** p
            if ang:
                th = 0.0
                for (m, unit), q in ang:
                    mv = 1.0
                    for n, p in m:
                        mv *= env[n] ** p
                    th += float(q) * mv * (_PI if unit == 'pi' else 1.0)
                v *= cmath.exp(1j * th)
            tot += v
        return tot

    def substitute(self, name: str, value) -> 'SNum':
        """Replace a variable by a constant (value: float) and renormalise."""
        if name not in self.variables():
            return self
        out: Dict[Key, complex] = {}
        for (mono, ang), c in self.t.items():
            nm = []
            for n, p in mono:
                if n == name:
                    c = c * (value**p)
                else:
                    nm.append((n, p))
            na = {}
            for (m, unit), q in ang:
                mm = []
                f = Fraction(1)
                hit = False
                for n, p in m:
                    if n == name:
                        f *= _nice_fraction(float(value)) ** p
                        hit = True
                    else:
                        mm.append((n, p))
                if hit:
                    q = q * f
                mm = tuple(mm)
                if not mm:
                    c = c * _unit_phase(q, unit)
                else:
                    na[(mm, unit)] = na.get((mm, unit), 0) + q
            key = (tuple(nm), _ang_norm(na))
            r = out.get(key, 0j) + c
            if r == 0:
                out.pop(key, None)
            else:
                out[key] = r
        return SNum(out)

    def substitute_expr(self, name: str, expr: 'SNum') -> 'SNum':
        """Replace variable `name` by a polynomial SNum without exponentials (linear pins from the
        path condition, e.g. p := 2*k + 3).  Angles are expanded linearly."""
        if name not in self.variables():
            return self
        if expr.is_const():
            c = expr.const_value()
            if c.imag == 0:
                return self.substitute(name, c.real)
        for (_m, a) in expr.t:
            if a:
                raise TypeError('symx: substitute_expr with exponential')
        out = SNum({})
        for (mono, ang), c in self.t.items():
            term = SNum.const(c)
            rest = []
            for n, p in mono:
                if n == name:
                    term = term * (expr ** p)
                else:
                    rest.append((n, p))
            if rest:
                term = term * SNum({(tuple(rest), ()): 1 + 0j})
            if ang:
                na = {}
                phase = 1 + 0j
                for (m, unit), q in ang:
                    pw = dict(m).get(name, 0)
                    if pw == 0:
                        na[(m, unit)] = na.get((m, unit), 0) + q
                        continue
                    if pw != 1:
                        raise TypeError('symx: substitute_expr into non-linear angle atom')
                    m_rest = tuple((n, p) for n, p in m if n != name)
                    for (m2, _a2), c2 in expr.t.items():
                        if abs(c2.imag) > 0:
                            raise TypeError('symx: complex pin')
                        mm = mono_mul(m_rest, m2)
                        q2 = q * _nice_fraction(c2.real)
                        u2 = unit
                        if unit == 'rad':
                            rpi = _nice_fraction(float(q) * c2.real / _PI)
                            if rpi.denominator <= (1 << 12):
                                q2, u2 = rpi, 'pi'
                        if u2 != unit:
                            if not mm:
                                phase *= _unit_phase(q2, u2)
                            else:
                                na[(mm, u2)] = na.get((mm, u2), 0) + q2
                            continue
                        if not mm:
                            phase *= _unit_phase(q2, unit)
                        else:
                            na[(mm, unit)] = na.get((mm, unit), 0) + q2
                term = term * SNum({((), _ang_norm(na)): phase})
            out = out + term
        return out

    # ---- ring --------------------------------------------------------------
    def __add__(self, o):
        o2 = SNum.coerce(o)
        if o2 is None:
            return NotImplemented
        if not o2.t:
            return self
        if not self.t:
            return o2
        d = dict(self.t)
        for k, v in o2.t.items():
            r = d.get(k, 0j) + v
            if r == 0:
                d.pop(k, None)
            else:
                d[k] = r
        return SNum(d)

    __radd__ = __add__

    def __neg__(self):
        return SNum({k: -v for k, v in self.t.items()})

    def __pos__(self):
        return self

    def __sub__(self, o):
        o2 = SNum.coerce(o)
        if o2 is None:
            return NotImplemented
        return self + (-o2)

    def __rsub__(self, o):
        o2 = SNum.coerce(o)
        if o2 is None:
            return NotImplemented
        return o2 + (-self)

    def __mul__(self, o):
        o2 = SNum.coerce(o)
        if o2 is None:
            return NotImplemented
        if not self.t or not o2.t:
            return SNum({})
        if len(o2.t) == 1 and ((), ()) in o2.t:
            c = o2.t[((), ())]
            return SNum({k: v * c for k, v in self.t.items()})
        if len(self.t) == 1 and ((), ()) in self.t:
            c = self.t[((), ())]
            return SNum({k: v * c for k, v in o2.t.items()})
        d: Dict[Key, complex] = {}
        need_reduce = False
        for (m1, a1), c1 in self.t.items():
            for (m2, a2), c2 in o2.t.items():
                mm = mono_mul(m1, m2)
                if mm:
                    for n, p in mm:
                        if p >= 2 and n.startswith('_sqrt'):
                            need_reduce = True
                k = (mm, ang_add(a1, a2))
                r = d.get(k, 0j) + c1 * c2
                if r == 0:
                    d.pop(k, None)
                else:
                    d[k] = r
        out = SNum(d)
        if need_reduce:
            out = _reduce_sqrt_powers(out)
        return out

    __rmul__ = __mul__

    def conjugate(self):
        d = {}
        for (mono, ang), c in self.t.items():
            na = _ang_norm({atom: -q for atom, q in ang})
            k = (mono, na)
            r = d.get(k, 0j) + c.conjugate()
            if r == 0:
                d.pop(k, None)
            else:
                d[k] = r
        return SNum(d)

    conj = conjugate

    @property
    def real(self):
        return (self + self.conjugate()) * 0.5

    @property
    def imag(self):
        return (self - self.conjugate()) * (-0.5j)

    def __truediv__(self, o):
        o2 = SNum.coerce(o)
        if o2 is None:
            return NotImplemented
        if o2.is_const():
            c = o2.const_value()
            if c == 0:
                raise ZeroDivisionError('SNum division by zero')
            return self * (1.0 / c)
        return self * o2.reciprocal()

    def __rtruediv__(self, o):
        o2 = SNum.coerce(o)
        if o2 is None:
            return NotImplemented
        return o2 * self.reciprocal()

    def reciprocal(self):
        if self.is_const():
            return SNum.const(1.0 / self.const_value())
        # single term: exact inverse inside the ring when monomial-free
        if len(self.t) == 1:
            ((mono, ang), c), = self.t.items()
            if not mono:
                return SNum({((), _ang_norm({a: -q for a, q in ang})): 1.0 / c})
        return _ctx.cur().atom_reciprocal(self)

    def __pow__(self, p):
        if isinstance(p, SNum) and p.is_const():
            p = p.const_value()
            p = p.real if p.imag == 0 else p
        if isinstance(p, (int, float)) and float(p).is_integer():
            n = int(p)
            if n < 0:
                return self.reciprocal() ** (-n)
            r = SNum.const(1)
            b = self
            while n:
                if n & 1:
                    r = r * b
                n >>= 1
                if n:
                    b = b * b
            return r
        if isinstance(p, (int, float)) and p == 0.5:
            return self.sqrt()
        if self.is_const():
            o2 = SNum.coerce(p)
            if o2 is not None:
                return o2.__rpow__(self.const_value())
        raise TypeError(f'symx: unsupported power SNum ** {p!r}')

    def __rpow__(self, base):
        """constant ** SNum; supported for unit-modulus bases (1j, -1, 1, exp(i*phi))."""
        if self.is_const():
            return SNum.const(complex(base) ** self.const_value())
        b = complex(base)
        r = abs(b)
        if abs(r - 1.0) > 1e-15:
            if b.imag == 0 and b.real > 0:
                # integer-valued exponent over (bounded) integer variables: fork over their values
                vs = sorted(self.variables())
                if vs and all(_ctx.var_kind(v) == 'int' for v in vs) and not any(a for (_m, a) in self.t):
                    import z3

                    from .sint import SInt

                    val = self
                    for v in vs:
                        k = _ctx.cur().concretize_int(SInt(z3.Int(v)))
                        val = val.substitute(v, float(k))
                    return SNum.const(b.real ** val.const_value().real)
                raise TypeError('symx: real base ** symbolic exponent leaves the ring (Escape)')
            raise TypeError('symx: non-unit base ** symbolic exponent')
        # option fork_unit_pow: a root of unity raised to an integer-valued expression over integer variables is
        # concretised by forking over (exponent mod period): the value becomes a constant on every path (feasibility of
        # each residue is a cheap integer query) instead of an if-chain inside a product (expensive non-linear VC)
        if _ctx._CUR[0] is not None and _ctx._CUR[0].opts.get('fork_unit_pow') and _ctx._CUR[0].mode == 'sym':
            per = next((q for q in range(1, 9) if abs(b**q - 1) < 1e-12), None)
            vs = sorted(self.variables())
            if per and vs and all(_ctx.var_kind(v) == 'int' for v in vs) and not any(a for (_m, a) in self.t):
                import z3

                from .sint import SInt

                e, ok = z3.IntVal(0), True
                for (mono, _a), c in self.t.items():
                    if abs(c.imag) > 1e-12 or abs(c.real - round(c.real)) > 1e-12 or any(pw != 1 for _n, pw in mono) or len(mono) > 1:
                        ok = False
                        break
                    e = e + (z3.IntVal(int(round(c.real))) * z3.Int(mono[0][0]) if mono else z3.IntVal(int(round(c.real))))
                if ok:
                    k = _ctx.cur().concretize_int(SInt(e % per))
                    return SNum.const(b**k)
        phi = cmath.phase(b)  # base = exp(i*phi)
        return (self * (1j * phi)).exp()

    # ---- transcendental ----------------------------------------------------
    def exp(self):
        """exp of a purely imaginary linear argument  i*(sum coef*mono)  (+ complex constant)."""
        if self.is_const():
            return SNum.const(cmath.exp(self.const_value()))
        factor = 1 + 0j
        ang = {}
        for (mono, a), c in self.t.items():
            if a:
                raise TypeError('symx: exp of an exponential (Escape)')
            if not mono:
                factor *= cmath.exp(c)
                continue
            if abs(c.real) > 1e-15 * max(1.0, abs(c.imag)):
                raise TypeError('symx: exp with symbolic real part leaves the ring (Escape)')
            x = c.imag
            qpi = _nice_fraction(x / _PI)
            if qpi.denominator <= (1 << 12):
                atom, q = (mono, 'pi'), qpi
            else:
                atom, q = (mono, 'rad'), _nice_fraction(x)
            ang[atom] = ang.get(atom, 0) + q
        return SNum({((), _ang_norm(ang)): factor}) if factor != 0 else SNum({})

    def cos(self):
        return ((self * 1j).exp() + (self * (-1j)).exp()) * 0.5

    def sin(self):
        return ((self * 1j).exp() - (self * (-1j)).exp()) * (-0.5j)

    def pruned(self, eps=1e-13):
        """drop float-rounding-level residue terms (|coef| < eps) before a value is used in a
        branch decision or as the argument of an atom; the real code carries the same 1e-16 noise"""
        if all(abs(v) >= eps for v in self.t.values()):
            return self
        return SNum({k: v for k, v in self.t.items() if abs(v) >= eps})

    def sqrt(self):
        if self.is_const():
            return SNum.const(cmath.sqrt(self.const_value()))
        p = self.pruned()
        if p.is_const():
            return SNum.const(cmath.sqrt(p.const_value()))
        return _ctx.cur().atom_sqrt(p)

    def __abs__(self):
        if self.is_const():
            return SNum.const(abs(self.const_value()))
        # |c * exp(i A)| = |c|
        p = self.pruned()
        if p.is_const():
            return SNum.const(abs(p.const_value()))
        if len(p.t) == 1:
            ((mono, ang), c), = p.t.items()
            if not mono:
                return SNum.const(abs(c))
        return _ctx.cur().atom_abs(p)

    def __floor__(self):
        if self.is_const():
            return math.floor(self.const_value().real)
        return _ctx.cur().atom_floor(self)

    def __ceil__(self):
        if self.is_const():
            return math.ceil(self.const_value().real)
        return -((-self).__floor__())

    def floor(self):
        return self.__floor__()

    def __mod__(self, p):
        if isinstance(p, SNum) and p.is_const():
            p = p.const_value().real
        if not isinstance(p, (int, float)):
            raise TypeError('symx: symbolic modulus')
        if self.is_const():
            return SNum.const(self.const_value().real % p)
        k = (self * (1.0 / p)).__floor__()
        return self - SNum.coerce(k) * p

    def __floordiv__(self, p):
        if isinstance(p, SNum) and p.is_const():
            p = p.const_value().real
        if not isinstance(p, (int, float)):
            raise TypeError('symx: symbolic floordiv')
        return (self * (1.0 / p)).__floor__()

    def __round__(self, n=None):
        if self.is_const():
            return round(self.const_value().real, n)
        if n is None or n == 0:
            return (self + 0.5).__floor__()
        raise TypeError('symx: round(symbolic, ndigits) concretises')

    def is_integer(self):
        if self.is_const():
            c = self.const_value()
            return c.imag == 0 and float(c.real).is_integer()
        return (self - SNum.coerce(self.__floor__())) == 0

    # ---- comparisons -> conditions ------------------------------------------
    def _cmp(self, o, op):
        from .cond import cmp_cond

        o2 = SNum.coerce(o)
        if o2 is None:
            return NotImplemented
        return cmp_cond(op, self - o2)

    def __lt__(self, o):
        return self._cmp(o, 'lt')

    def __le__(self, o):
        return self._cmp(o, 'le')

    def __gt__(self, o):
        o2 = SNum.coerce(o)
        if o2 is None:
            return NotImplemented
        return o2._cmp(self, 'lt')

    def __ge__(self, o):
        o2 = SNum.coerce(o)
        if o2 is None:
            return NotImplemented
        return o2._cmp(self, 'le')

    def __eq__(self, o):
        o2 = SNum.coerce(o)
        if o2 is None:
            return NotImplemented
        return self._cmp(o2, 'eq')

    def __ne__(self, o):
        o2 = SNum.coerce(o)
        if o2 is None:
            return NotImplemented
        return self._cmp(o2, 'ne')

    def __bool__(self):
        return bool(self != 0)

    def __hash__(self):
        if self.is_const():
            c = self.const_value()
            return hash(c.real) if c.imag == 0 else hash(c)
        return 0x5EED

    # ---- loud concretisation ------------------------------------------------
    def __float__(self):
        if self.is_const():
            c = self.const_value()
            if abs(c.imag) > 0:
                raise TypeError("symx: float() of complex constant")
            return c.real
        raise TypeError('symx: float() of a symbolic value would concretise (Escape)')

    def __complex__(self):
        if self.is_const():
            return self.const_value()
        raise TypeError('symx: complex() of a symbolic value would concretise (Escape)')

    def __int__(self):
        if self.is_const():
            return int(self.const_value().real)
        raise TypeError('symx: int() of a symbolic value would concretise (Escape)')

    __index__ = None  # not an index

    def __repr__(self):
        if not self.t:
            return 'S(0)'
        parts = []
        for (mono, ang), c in sorted(self.t.items(), key=lambda kv: repr(kv[0]))[:6]:
            s = f'{c:.6g}'
            for n, p in mono:
                s += f'*{n}' + (f'^{p}' if p != 1 else '')
            if ang:
                s += '*E[' + '+'.join(f'{q}*{"π" if u == "pi" else ""}{"*".join(n + (f"^{p}" if p != 1 else "") for n, p in m)}' for (m, u), q in ang) + ']'
            parts.append(s)
        more = '' if len(self.t) <= 6 else f' +...({len(self.t)} terms)'
        return 'S(' + ' + '.join(parts) + more + ')'


def _reduce_sqrt_powers(x: 'SNum') -> 'SNum':
    """normal form: (sqrt-atom)^2 is replaced by the atom's argument (r*r == arg by definition)"""
    c = _ctx._CUR[0]
    if c is None:
        return x
    args = getattr(c, 'sqrt_args', None)
    if not args:
        return x
    for _ in range(8):
        hit = None
        for (mono, ang) in x.t:
            for n, p in mono:
                if p >= 2 and n in args:
                    hit = n
                    break
            if hit:
                break
        if hit is None:
            return x
        arg = args[hit]
        out = SNum({})
        for (mono, ang), co in x.t.items():
            pw = dict(mono).get(hit, 0)
            if pw < 2:
                r = out.t.get((mono, ang), 0j) + co
                if r == 0:
                    out.t.pop((mono, ang), None)
                else:
                    out.t[(mono, ang)] = r
                continue
            rest = tuple((n, p) for n, p in mono if n != hit)
            if pw % 2:
                rest = tuple(sorted(rest + ((hit, 1),)))
            term = SNum({(rest, ang): co})
            for _k in range(pw // 2):
                term = term * arg
            out = out + term
        x = out
    return x


def _unit_phase(q: Fraction, unit: str) -> complex:
    if unit == 'pi':
        q4 = (q * 2) % 4
        if q4.denominator == 1:
            return (1, 1j, -1, -1j)[int(q4)]
        return cmath.exp(1j * _PI * float(q % 2))
    return cmath.exp(1j * float(q))


numbers.Complex.register(SNum)


# ---- mode-agnostic helpers for oracles (work on floats, complex, SNum, arrays) --------------
def _lift(fn_name, np_fn):
    import numpy as np

    def f(x):
        if isinstance(x, SNum):
            return getattr(x, fn_name)()
        if isinstance(x, np.ndarray) and np.ndarray.dtype.__get__(x) == object:
            return np.vectorize(lambda e: getattr(SNum.coerce(e), fn_name)(), otypes=[object])(x)
        return np_fn(x)

    return f


def _mk():
    import numpy as np

    return (
        _lift('exp', np.exp),
        _lift('cos', np.cos),
        _lift('sin', np.sin),
        _lift('sqrt', lambda v: np.sqrt(v + 0j) if np.any(np.asarray(v) < 0) else np.sqrt(v)),
        _lift('conjugate', np.conj),
    )


exp, cos, sin, sqrt, conj = _mk()

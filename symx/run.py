"""Check driver: concrete validation -> parallel symbolic exploration -> replay -> evidence."""
from __future__ import annotations

import importlib
import json
import multiprocessing as mp
import os
import sys
import time
import traceback

from . import ctx as C
from .ctx import ConcreteCtx, Infeasible

VERIF = os.path.dirname(os.path.dirname(os.path.abspath(__file__)))
EXIT_OK, EXIT_VIOLATION, EXIT_INCONCLUSIVE = 0, 1, 2


def assert_repo_cirq():
    import cirq

    f = os.path.realpath(cirq.__file__)
    root = os.path.realpath(os.environ.get('VERIF_REPO', '/repo'))
    if not f.startswith(root + '/cirq-core/'):
        print(f'HARNESS-ERROR: cirq imported from {f}, not from /repo working tree')
        sys.exit(EXIT_INCONCLUSIVE)


def run_concrete(ob, model, body=None, auto_fill=None):
    """run an obligation body in concrete mode (real numpy, no shims). Returns (failures, cx, exc)."""
    opts = dict(ob.opts)
    if auto_fill:
        opts['auto_fill'] = auto_fill
    cx = ConcreteCtx(model, opts)
    C.set_cur(cx)
    exc = None
    try:
        (body or ob.body)(cx)
    except Infeasible:
        exc = 'infeasible'
    except ob.expected as e:
        exc = f'expected:{type(e).__name__}'
    except Exception as e:
        exc = f'EXC:{type(e).__name__}: {str(e)[:300]}'
        cx.failures.append(f'unexpected-exception: {type(e).__name__}: {str(e)[:300]}')
        cx.tb = traceback.format_exc(limit=-5)
    finally:
        C.set_cur(None)
    return cx.failures, cx, exc


_WORKER = {}


def _worker_init(modname, tier, stub_modules):
    from . import proxy

    mod = importlib.import_module(modname)
    stubs = proxy.install(stub_modules)
    if hasattr(mod, 'worker_setup'):
        stubs = list(stubs) + list(mod.worker_setup() or [])
    _WORKER['obs'] = {o.name: o for o in mod.obligations(tier)}
    _WORKER['stubs'] = stubs


def _worker_task(task):
    from .explore import explore

    name, which, val_points = task
    ob = _WORKER['obs'][name]
    body = ob.body if which == 'main' else ob.twin
    opts = dict(ob.opts)
    if 'cross_check_every' not in opts:
        opts['cross_check_every'] = int(os.environ.get('VERIF_CROSSCHECK_EVERY', '25' if os.environ.get('VERIF_TIER_RUNNING') == 'thorough' else '200'))
    if os.environ.get('VERIF_MAX_SECONDS'):
        opts['max_seconds'] = float(os.environ['VERIF_MAX_SECONDS'])
    if which == 'twin':
        opts['max_paths'] = min(opts.get('max_paths', 20000), 400)
    try:
        r = explore(body, opts, expected=ob.expected, name=name, measure_functions=(which == 'main'), val_points=val_points if which == 'main' else None)
    except BaseException as e:  # harness failure inside worker
        r = {'name': name, 'harness_error': f'{type(e).__name__}: {e}', 'tb': traceback.format_exc(limit=-8)}
    r['which'] = which
    r['stubs'] = _WORKER['stubs']
    return r


def _worker_loop(conn, modname, tier, stub_modules, z3_seed):
    from . import loadscale

    try:
        if z3_seed:
            import z3

            z3.set_param('smt.random_seed', int(z3_seed))
            z3.set_param('sat.random_seed', int(z3_seed))
        _worker_init(modname, tier, stub_modules)
        loadscale.start_watchdog()
        while True:
            task = conn.recv()
            if task is None:
                break
            conn.send(_worker_task(task))
    except (EOFError, KeyboardInterrupt):
        pass
    finally:
        conn.close()


def _run_pool(tasks, procs, modname, tier, stub_modules):
    """persistent forked workers, one task at a time each.  Unlike multiprocessing.Pool this survives the death of a
    worker (the solver watchdog of symx/loadscale.py exits a worker whose z3 call ignores its timeout): the task is
    re-run once in a fresh worker with another z3 seed, then reported as a harness error (check inconclusive)."""
    from multiprocessing.connection import wait as mp_wait

    ctxm = mp.get_context('fork')
    pending = [(t, 0) for t in tasks]
    results = []
    workers = {}  # conn -> [process, current (task, attempt) or None]

    def spawn(seed=0):
        a, b = ctxm.Pipe(duplex=True)
        p = ctxm.Process(target=_worker_loop, args=(b, modname, tier, stub_modules, seed), daemon=True)
        p.start()
        b.close()
        workers[a] = [p, None]
        return a

    def feed(conn):
        if pending:
            job = pending.pop(0)
            workers[conn][1] = job
            conn.send(job[0])
            return True
        return False

    for _ in range(min(procs, len(pending))):
        feed(spawn())
    while any(w[1] is not None for w in workers.values()):
        busy = [c for c, w in workers.items() if w[1] is not None]
        for conn in mp_wait(busy, timeout=5.0):
            proc, job = workers[conn]
            try:
                r = conn.recv()
            except (EOFError, ConnectionResetError, OSError):
                r = None
            if r is not None:
                results.append(r)
                workers[conn][1] = None
                feed(conn)
                continue
            # the worker died while running `job`
            proc.join(timeout=5)
            code = proc.exitcode
            del workers[conn]
            try:
                conn.close()
            except Exception:
                pass
            task, attempt = job
            if attempt < 1:
                print(f'symx: worker running {task[0]}[{task[1]}] exited with code {code}; re-running it once with another solver seed', flush=True)
                pending.insert(0, (task, attempt + 1))
                feed(spawn(seed=12345 + attempt))
            else:
                results.append({'name': task[0], 'which': task[1], 'stubs': [], 'harness_error': f'worker died twice (exit code {code}) while running this obligation: a solver call ignored its timeout (watchdog) or the worker crashed', 'tb': ''})
                if pending:
                    feed(spawn())
    for conn, (proc, _job) in list(workers.items()):
        try:
            conn.send(None)
            conn.close()
        except Exception:
            pass
    for conn, (proc, _job) in list(workers.items()):
        proc.join(timeout=10)
        if proc.is_alive():
            proc.terminate()
    return results


def load_known_findings(pid):
    p = os.path.join(VERIF, 'known_findings.json')
    if not os.path.exists(p):
        return []
    try:
        data = json.load(open(p))
    except Exception:
        return []
    return [e for e in data.get('findings', []) if e.get('property') == pid]


def match_known(entry_list, ob_name, label, model=None):
    """an open entry matches a replayed violation of the same obligation (and label, when the entry gives
    one); entries with a `models` list only match those specific failing inputs, so that a different
    input failing in the same obligation is still reported as a VIOLATION"""
    for e in entry_list:
        if e.get('status') == 'open' and e.get('obligation') == ob_name and (not e.get('label') or e.get('label') == label):
            if e.get('models') is not None:
                keys = e.get('model_keys') or sorted({k for m in e['models'] for k in m})
                proj = {k: (model or {}).get(k) for k in keys}
                if proj not in [{k: m.get(k) for k in keys} for m in e['models']]:
                    continue
            return e
    return None


def run_check(pid, tier, modname, stub_modules, level_text, assumptions, bounds, seed=0, replay=None, procs=None, only=None):
    t0 = time.time()
    os.environ['VERIF_TIER_RUNNING'] = tier
    assert_repo_cirq()
    mod = importlib.import_module(modname)
    obs = mod.obligations(tier)
    if only:
        obs = [o for o in obs if any(s in o.name for s in only)]
    obmap = {o.name: o for o in obs}
    os.makedirs(os.path.join(VERIF, 'evidence', 'replays'), exist_ok=True)

    # ---------------- replay mode ------------------------------------------------------
    if replay:
        data = json.load(open(replay))
        ob = obmap.get(data['obligation'])
        if ob is None:
            obs_all = {o.name: o for o in mod.obligations('thorough')}
            ob = obs_all.get(data['obligation'])
        if ob is None:
            print(f'HARNESS-ERROR: unknown obligation {data["obligation"]}')
            return EXIT_INCONCLUSIVE
        fails, cx, exc = run_concrete(ob, data['model'])
        print(f'replay {data["obligation"]} model={data["model"]}')
        for f in fails:
            print('  FAIL', f)
        if fails:
            print(f'VIOLATION property={pid} replay={replay}')
            return EXIT_VIOLATION
        print('replay: no failure reproduced')
        return EXIT_OK

    violations = []  # (ob name, label, detail, model, source)
    inconclusive = []
    known = load_known_findings(pid)

    # ---------------- phase A: concrete validation points (real code vs oracle, no shims) ------
    val = {}
    n_points = 0
    for ob in obs:
        pts = []
        # obligations without explicit points get auto-filled ones (every variable / selector drawn from its declared
        # range with a VERIF_SEED-dependent generator): the real code runs unproxied on real numpy there, which also
        # exposes behaviour the proxies cannot show (e.g. numpy scalars vs zero-dimensional arrays)
        for pi, env in enumerate(ob.points or [{} for _ in range(int(ob.opts.get('auto_points', 3)))]):
            fails, cx, exc = run_concrete(ob, env, auto_fill=f'{seed}:{pi}')
            n_points += 1
            env = dict(env)
            for n_, v_ in cx.vars.items():
                env.setdefault(n_, v_['value'])
            if exc == 'infeasible' or (exc and exc.startswith('expected:')):
                continue
            if fails:
                violations.append((ob.name, fails[0].split(':')[0], fails[0], env, 'concrete-validation-point'))
                continue
            pts.append({'env': env, 'values': cx.value_log})
        val[ob.name] = pts

    # ---------------- phase B: symbolic exploration ---------------------------------------
    tasks = [(o.name, 'main', val.get(o.name)) for o in obs] + [(o.name, 'twin', None) for o in obs if o.twin is not None]
    # heavier obligations first
    tasks.sort(key=lambda t: -obmap[t[0]].opts.get('weight', 1))
    procs = procs or int(os.environ.get('VERIF_PROCS', min(16, os.cpu_count() or 4)))
    results = []
    if procs <= 1 or len(tasks) <= 1:
        _worker_init(modname, tier, stub_modules)
        for t in tasks:
            results.append(_worker_task(t))
    else:
        results = _run_pool(tasks, procs, modname, tier, stub_modules)

    # ---------------- phase C: triage + replay ----------------------------------------------
    cc = {'cc_total': 0, 'cc_agree': 0, 'cc_error': 0, 'cc_s': 0.0}
    agg = {k: 0 for k in ('paths', 'ok', 'expected_exc', 'infeasible', 'vcs', 'vcs_trivial', 'vcs_linear', 'vcs_exact', 'entries', 'queries', 'decisions', 'unknown', 'tv_compared')}
    solver_s = 0.0
    functions = set()
    stubs = set()
    escapes = []
    twins_refuted = 0
    twins_total = 0
    tv_mismatch = []
    samples = []
    per_ob = {}
    harness_errors = []
    for r in results:
        if 'harness_error' in r:
            harness_errors.append(f"{r['name']}[{r['which']}]: {r['harness_error']}\n{r.get('tb','')}")
            continue
        stubs.update(r.get('stubs', []))
        ob = obmap[r['name']]
        if r['which'] == 'twin':
            twins_total += 1
            refuted = False
            for v in r['violations']:
                if v.get('model') is None:
                    continue
                fails, _, _ = run_concrete(ob, v['model'], body=ob.twin)
                if fails:
                    refuted = True
                    break
            if refuted:
                twins_refuted += 1
            else:
                inconclusive.append(f"{r['name']}: vacuity twin NOT refuted (violations={len(r['violations'])}, inconclusive={r['inconclusive'][:1]}, escapes={r['escapes'][:1]})")
            continue
        for k in agg:
            agg[k] += r.get(k, 0)
        solver_s += r['solver_s']
        for k in cc:
            cc[k] += r.get(k, 0)
        functions.update(r['functions'])
        per_ob[r['name']] = {'paths': r['paths'], 'vcs': r['vcs'], 'escapes': len(r['escapes']), 'wall_s': round(r['wall_s'], 2)}
        for e in r['escapes']:
            escapes.append(f"{r['name']}: {e}")
        for i in r['inconclusive']:
            inconclusive.append(f"{r['name']}: {i}")
        tv_mismatch.extend(r['tv_mismatch'])
        if len(samples) < 8 and r['sample_paths']:
            samples.append({'obligation': r['name'], 'desc': ob.desc, 'path': r['sample_paths'][0]})
        for v in r['violations']:
            violations.append((r['name'], v['label'], v['detail'], v.get('model'), 'solver'))

    exit_code = EXIT_OK
    confirmed = []
    known_hits = []
    for i, (obn, label, detail, model, source) in enumerate(violations):
        ob = obmap[obn]
        if model is None:
            inconclusive.append(f'{obn}/{label}: violation candidate without model: {detail}')
            continue
        fails, cx, exc = run_concrete(ob, model)
        if not fails:
            inconclusive.append(f'{obn}/{label}: solver counterexample {model} did not reproduce on the real code ({detail})')
            continue
        kf = match_known(known, obn, label, model)
        if kf is not None:
            known_hits.append((kf, obn, label, fails[0]))
            continue
        path = os.path.join(VERIF, 'evidence', 'replays', f'{pid}-{len(confirmed)}.json')
        json.dump({'property': pid, 'obligation': obn, 'label': label, 'model': model, 'failure': fails[:3], 'found_by': source}, open(path, 'w'), indent=1, default=str)
        confirmed.append((obn, label, fails[0], path))

    seen_kf = {}
    for kf, obn, label, f in known_hits:
        key = kf.get('what', obn + '/' + label)
        seen_kf[key] = seen_kf.get(key, 0) + 1
    for key, cnt in seen_kf.items():
        print(f"KNOWN-FINDING: property={pid} {key}" + (f" [{cnt} failing inputs, all listed]" if cnt > 1 else ''))
    for obn, label, f, path in confirmed:
        print(f'  violation in {obn}: {f}')
        print(f'VIOLATION property={pid} replay={path}')
    if confirmed:
        exit_code = EXIT_VIOLATION
    elif inconclusive or harness_errors or tv_mismatch or escapes:
        # an escape = the code left the symbolic domain on some path: that path was not decided
        exit_code = EXIT_INCONCLUSIVE

    for h in harness_errors:
        print('HARNESS-ERROR:', h)
    for s_ in inconclusive[:20]:
        print('INCONCLUSIVE:', s_[:600])
    for s_ in escapes[:10]:
        print('INCONCLUSIVE: escape:', s_[:400])
    for s_ in tv_mismatch[:10]:
        print('TRANSLATOR-MISMATCH:', s_)

    n_ob = len(obs)
    n_esc_ob = len({e.split(':')[0] for e in escapes})
    wall = time.time() - t0
    ev = {
        'property_id': pid,
        'tier': tier,
        'seed': int(seed),
        'level': 'other',
        'coverage': {
            'explanation': level_text,
            'obligations': n_ob,
            'discharged': n_ob - len({s.split(':')[0] for s in inconclusive}) - len({c[0] for c in confirmed}),
            'evaluations': agg['paths'],
            'distinct_nontrivial': agg['ok'] + agg['expected_exc'],
            'rule': 'one evaluation = one feasible path (distinct decision trace) of one obligation executed symbolically through the real code; '
            'non-trivial = path reached its assertions or a declared precondition exception (infeasible/escaped paths not counted)',
            'paths': agg,
            'vcs_issued': agg['vcs'],
            'vcs_discharged': agg['vcs_trivial'] + agg['vcs_linear'] + agg['vcs_exact'],
            'vcs_by_stage': {'identical_terms': agg['vcs_trivial'], 'linear_abstraction_unsat': agg['vcs_linear'], 'exact_unsat': agg['vcs_exact']},
            'solver_queries': agg['queries'],
            'solver_seconds': round(solver_s, 3),
            'solver': 'z3 ' + _z3_version(),
            'second_solver': {'name': 'cvc5 (python wheel)', 'vcs_re_decided': cc['cc_total'], 'agreed': cc['cc_agree'], 'errors_or_unknown': cc['cc_total'] - cc['cc_agree'], 'seconds': round(cc['cc_s'], 2), 'policy': 'every N-th VC of the linear-abstraction and trig-free exact stages is dumped as SMT-LIB2 and re-decided; a definite disagreement makes the VC inconclusive'},
            'functions_encoded': sorted(functions),
            'functions_encoded_count': len(functions),
            'bounds': bounds,
            'stubs_installed': sorted(stubs),
            'not_encodable': escapes[:60],
            'not_encodable_obligations': n_esc_ob,
            'twins': {'total': twins_total, 'refuted': twins_refuted},
            'translator_validation': {'concrete_points_run': n_points, 'term_vs_concrete_comparisons': agg['tv_compared'], 'mismatches': len(tv_mismatch)},
            'known_findings_reported': [k[0].get('what') for k in known_hits],
            'per_obligation': per_ob,
            'samples': samples,
            'exhaustive': False,
        },
        'assumptions': assumptions,
        'wall_s': round(wall, 2),
        'violations': len(confirmed),
    }
    os.makedirs(os.path.join(VERIF, 'evidence'), exist_ok=True)
    # a run restricted with --only writes <id>.partial.json: <id>.json always describes a full run of a tier
    suffix = os.environ.get('VERIF_EVIDENCE_SUFFIX', '') or ('.partial' if only else '')
    with open(os.path.join(VERIF, 'evidence', f"{pid}{suffix}.json"), 'w') as f:
        json.dump(ev, f, indent=1, default=str)
    print(
        f'{pid} [{tier}] obligations={n_ob} paths={agg["paths"]} vcs={agg["vcs"]} (identical={agg["vcs_trivial"]} linear={agg["vcs_linear"]} exact={agg["vcs_exact"]}) '
        f'queries={agg["queries"]} solver_s={solver_s:.1f} twins={twins_refuted}/{twins_total} escapes={len(escapes)} '
        f'tv={agg["tv_compared"]} functions={len(functions)} wall={wall:.1f}s exit={exit_code}'
    )
    return exit_code


def _z3_version():
    import z3

    return z3.get_version_string()

"""Verification conditions:  pc AND atoms AND not(assertion), decided by z3.

stage 1  linear abstraction (QF_LRA): every distinct monomial*trig product of the difference is a
         fresh variable ranging over its interval bound; path condition dropped (weakening).
         unsat  => discharged.
stage 2  witness search: exact non-linear encoding with angles restricted to a pi/L lattice
         (under-approximation) together with the full path condition. sat => candidate model,
         returned for concrete replay against the real code.
stage 3  exact non-linear over-approximation (unit-circle pairs) with the path condition.
         unsat => discharged; otherwise the VC is inconclusive.
"""
from __future__ import annotations

import math
import time
from fractions import Fraction

import numpy as np
import z3

from .loadscale import guarded, scaled

from .ctx import Escape, Violation
from .encode import Encoder, rv
from .snum import SNum


class Inconclusive(Exception):
    pass


def _pins(ctx):
    """linear equalities of the path condition turned into substitutions  var := expr.
    Real variables are eliminated in favour of integer ones (so integer periodicity applies)."""
    pins = []
    # floor atoms  k = floor(a*v + b)  with v a real variable:  v := (k + f - b)/a  with a fresh fraction
    # f in [0,1]; exposes integer periodicity of exp(i*pi*h*v) and leaves a small-range real atom f
    for key, katom in list(ctx.atoms.items()):
        if key[0] != 'floor' or ('frac', key) in ctx.atoms and ctx.atoms[('frac', key)] is None:
            continue
        terms = dict(key[1])
        lin = [(m, c) for (m, a), c in terms.items() if m and not a]
        if len(lin) != 1 or any(a for (m, a) in terms if a) or len(terms) > 2:
            ctx.atoms[('frac', key)] = None
            continue
        (mono, co) = lin[0]
        if len(mono) != 1 or mono[0][1] != 1 or co.imag != 0 or co.real == 0:
            ctx.atoms[('frac', key)] = None
            continue
        v = mono[0][0]
        if ctx.vars.get(v, {}).get('kind') != 'real' or any(v == n for n, _ in pins):
            continue
        b = terms.get(((), ()), 0j)
        if b.imag != 0:
            continue
        fk = ('frac', key)
        if fk not in ctx.atoms:
            fname = ctx.fresh('fr')
            ctx.vars[fname] = {'kind': 'real', 'lo': 0.0, 'hi': 1.0}
            ctx.atoms[fk] = fname
        fname = ctx.atoms[fk]
        kname = str(katom.e)
        expr = (SNum.var(kname) + SNum.var(fname) - b.real) * (1.0 / co.real)
        pins.append((v, expr))
    ctx._frac_defs = [('cmp', 'eq', SNum.var(v) - e) for v, e in pins]
    for c in list(ctx.pc) + list(ctx.atom_defs):
        if not (isinstance(c, tuple) and c[0] == 'cmp' and c[1] == 'eq'):
            continue
        d = c[2]
        for n, e in pins:
            d = d.substitute_expr(n, e)
        lin = []
        ok = True
        for (mono, ang), co in d.t.items():
            if ang or co.imag != 0:
                ok = False
                break
            if len(mono) > 1 or (mono and mono[0][1] != 1):
                ok = False
                break
            if mono:
                lin.append((mono[0][0], co.real))
        if not ok or not lin:
            continue
        # choose the variable to eliminate: prefer real user variables, then real atoms
        def rank(item):
            n, _ = item
            k = ctx.vars.get(n, {}).get('kind')
            return (0 if k == 'real' and not n.startswith('_') else 1 if k == 'real' else 2, n)

        lin.sort(key=rank)
        n0, a0 = lin[0]
        if ctx.vars.get(n0, {}).get('kind') == 'int' and (len(lin) > 1):
            # all-integer relation: eliminate a variable with coefficient +-1 (stays integer valued)
            if not all(ctx.vars.get(n, {}).get('kind') == 'int' and float(a).is_integer() for n, a in lin):
                continue
            c0 = d.t.get(((), ()), 0j)
            if c0.imag != 0 or not float(c0.real).is_integer():
                continue
            unit = [(n, a) for n, a in lin if abs(a) == 1]
            if not unit:
                continue
            n0, a0 = unit[0]
        rest = d - SNum({(((n0, 1),), ()): complex(a0)})
        pins.append((n0, rest * (-1.0 / a0)))
    return pins


def _mono_bound(ctx, mono):
    """(lo, hi) interval of a monomial from the declared boxes; None if unbounded"""
    lo, hi = 1.0, 1.0
    for n, p in mono:
        v = ctx.vars.get(n)
        if v is None or v['lo'] is None or v['hi'] is None:
            return None
        a, b = float(v['lo']), float(v['hi'])
        for _ in range(p):
            cands = [lo * a, lo * b, hi * a, hi * b]
            lo, hi = min(cands), max(cands)
    return lo, hi


def _model_to_inputs(ctx, model, enc=None):
    out = {}
    for name, v in ctx.vars.items():
        if name.startswith('_'):
            continue
        k = v['kind']
        if k == 'choice':
            out[name] = v.get('value', 0)
        elif k == 'bool':
            out[name] = bool(z3.is_true(model.eval(z3.Bool(name), model_completion=True)))
        elif k == 'int':
            out[name] = model.eval(z3.Int(name), model_completion=True).as_long()
        else:
            val = model.eval(z3.Real(name), model_completion=True)
            out[name] = _z3_to_float(val)
    return out


def _z3_to_float(val):
    if z3.is_rational_value(val):
        return float(Fraction(val.numerator_as_long(), val.denominator_as_long()))
    if z3.is_algebraic_value(val):
        return float(val.approx(20).as_fraction())
    try:
        return float(val.as_decimal(20).rstrip('?'))
    except Exception:
        return 0.0


def _base_solver(ctx, enc, timeout_ms):
    s = z3.Solver()
    s.set('timeout', scaled(timeout_ms))
    for name, v in ctx.vars.items():
        if v['kind'] in ('real', 'int'):
            zv = z3.Int(name) if v['kind'] == 'int' else z3.Real(name)
            if v['lo'] is not None:
                s.add(zv >= (z3.IntVal(int(v['lo'])) if v['kind'] == 'int' else rv(v['lo'])))
            if v['hi'] is not None:
                s.add(zv <= (z3.IntVal(int(v['hi'])) if v['kind'] == 'int' else rv(v['hi'])))
    return s


def witness(ctx, extra=None):
    """a model of the path condition (lattice first, then over-approximation)"""
    from .cond import c_snums

    sn = []
    for c in list(ctx.pc) + list(ctx.atom_defs) + ([extra] if extra is not None else []):
        c_snums(c, sn)
    for L in ctx.opts.get('lattices', (4, 6)):
        enc = Encoder(ctx, 'lattice', L)
        enc.prepare(sn)
        s = _base_solver(ctx, enc, ctx.opts.get('vc_timeout_ms', 30000))
        for c in list(ctx.pc) + list(ctx.atom_defs):
            s.add(enc.cond(c))
        if extra is not None:
            s.add(enc.cond(extra))
        for sc in enc.side:
            s.add(sc)
        t0 = time.time()
        with guarded(scaled(ctx.opts.get('vc_timeout_ms', 30000))):
            r = s.check()
        ctx.stats.solver_s += time.time() - t0
        ctx.stats.queries += 1
        if r == z3.sat:
            return _model_to_inputs(ctx, s.model())
    enc = Encoder(ctx, 'over')
    s = _base_solver(ctx, enc, ctx.opts.get('vc_timeout_ms', 30000))
    for c in list(ctx.pc) + list(ctx.atom_defs):
        s.add(enc.cond(c))
    if extra is not None:
        s.add(enc.cond(extra))
    for sc in enc.side:
        s.add(sc)
    with guarded(scaled(ctx.opts.get('vc_timeout_ms', 30000))):
        r_ = s.check()
    if r_ == z3.sat:
        return _model_to_inputs(ctx, s.model())
    return None


def _clear_inverses(ctx, d, max_rounds=6):
    """multiply d by the arguments of the reciprocal atoms it contains until none is left"""
    inv = ctx.inv_args
    for _ in range(max_rounds):
        name, deg = None, 0
        for (mono, _ang) in d.t:
            for n, p in mono:
                if n in inv and p > deg:
                    name, deg = n, p
        if name is None:
            return d
        P = inv[name]
        if len(d.t) * (len(P.t) ** deg) > 20000:
            return None
        powers = [SNum.const(1)]
        for _k in range(deg):
            powers.append(powers[-1] * P)
        out = SNum({})
        for (mono, ang), co in d.t.items():
            pw = dict(mono).get(name, 0)
            rest = tuple((n, p) for n, p in mono if n != name)
            out = out + SNum({(rest, ang): co}) * powers[deg - pw]
        d = out
    return None


def _flatten(x):
    if isinstance(x, np.ndarray):
        return x.shape, list(x.ravel())
    if isinstance(x, (list, tuple)):
        arr = np.empty(len(x), dtype=object) if not x else None
        a = np.array(x, dtype=object)
        return a.shape, list(a.ravel())
    return (), [x]


def check_close(ctx, a, b, tol, label):
    st = ctx.stats
    st.vcs += 1
    sa, fa = _flatten(a)
    sb, fb = _flatten(b)
    if sa != sb:
        raise Violation(label, f'shape mismatch {sa} vs {sb}', witness(ctx))
    pins = _pins(ctx)
    diffs = []
    for i, (x, y) in enumerate(zip(fa, fb)):
        xs, ys = SNum.coerce(x), SNum.coerce(y)
        if xs is None or ys is None:
            raise Escape(f'symx: non-numeric entry in close(): {type(x).__name__}, {type(y).__name__}')
        d = xs - ys
        for n, v in pins:
            d = d.substitute_expr(n, v)
        st.entries += 1
        if d.t:
            diffs.append((i, d))
    # reciprocal atoms: d = sum_j d_j * inv^j with inv * P = 1  =>  d * P^deg is a polynomial; if that
    # polynomial vanishes identically (up to float residue) then d = 0 wherever P != 0 (which the path
    # condition guarantees: the division was executed)
    if diffs and getattr(ctx, 'inv_args', None):
        kept = []
        for i, d in diffs:
            d2 = _clear_inverses(ctx, d)
            if d2 is not None and not d2.pruned(1e-11).t:
                continue
            kept.append((i, d))
        diffs = kept
    rec = {'label': label, 'entries': len(fa), 'nontrivial_entries': len(diffs), 'tol': tol}
    if not diffs:
        st.vcs_trivial += 1
        rec['stage'] = 'identical-terms'
        ctx.vc_log.append(rec)
        return
    # ---- stage 1: linear abstraction -------------------------------------------------
    t0 = time.time()
    s = z3.Solver()
    s.set('timeout', scaled(ctx.opts.get('vc_timeout_ms', 30000)))
    uw = {}
    viol = []
    T = rv(tol)
    bcache = {}
    n_slack = 0
    for i, d in diffs:
        re, im = [], []
        slack = 0.0
        for (mono, ang), co in d.t.items():
            key = (mono, ang)
            if key not in bcache:
                bnd = _mono_bound(ctx, mono)
                bcache[key] = None if bnd is None else max(abs(bnd[0]), abs(bnd[1]))
            B = bcache[key]
            # float-rounding residue: |coef|*bound <= 1e-10 goes into one interval slack per entry
            if B is not None and abs(co) * B <= 1e-10:
                slack += abs(co) * B
                continue
            if key not in uw:
                n = len(uw)
                bnd = _mono_bound(ctx, mono)
                if ang:
                    u, w = z3.Real(f'u{n}'), z3.Real(f'w{n}')
                    if bnd is not None:
                        s.add(u >= rv(-B), u <= rv(B), w >= rv(-B), w <= rv(B))
                    uw[key] = (u, w)
                else:
                    if not mono:
                        uw[key] = (z3.RealVal(1), z3.RealVal(0))
                    else:
                        u = z3.Real(f'u{n}')
                        if bnd is not None:
                            s.add(u >= rv(bnd[0]), u <= rv(bnd[1]))
                        uw[key] = (u, z3.RealVal(0))
            u, w = uw[key]
            cr, ci = co.real, co.imag
            if cr:
                re.append(rv(cr) * u)
                im.append(rv(cr) * w)
            if ci:
                re.append(rv(-ci) * w)
                im.append(rv(ci) * u)
        if slack:
            n_slack += 1
            er, ei = z3.Real(f'er{i}'), z3.Real(f'ei{i}')
            S = rv(slack)
            s.add(er >= -S, er <= S, ei >= -S, ei <= S)
            re.append(er)
            im.append(ei)
        zre = (z3.Sum(re) if len(re) > 1 else re[0]) if re else z3.RealVal(0)
        zim = (z3.Sum(im) if len(im) > 1 else im[0]) if im else z3.RealVal(0)
        viol.append(z3.Or(zre > T, zre < -T, zim > T, zim < -T))
    s.add(z3.Or(viol))
    with guarded(scaled(ctx.opts.get('vc_timeout_ms', 30000))):
        r = s.check()
    st.queries += 1
    st.solver_s += time.time() - t0
    _maybe_cross_check(ctx, s, r, 'QF_LRA', label)
    if r == z3.unsat:
        st.vcs_linear += 1
        rec['stage'] = 'linear-abstraction-unsat'
        rec['max_coef'] = max(d.max_abs_coef() for _, d in diffs)
        ctx.vc_log.append(rec)
        return
    # ---- stage 2: lattice witness search with the full path condition ----------------
    _exact_stages(ctx, [('close', i, d) for i, d in diffs], tol, label, rec)


def _viol_formula(enc, items, tol):
    T = rv(tol)
    out = []
    for it in items:
        if it[0] == 'close':
            re, im = enc.snum(it[2])
            out.append(z3.Or(re > T, re < -T, im > T, im < -T))
        else:
            out.append(z3.Not(enc.cond(it[1])))
    return z3.Or(out) if len(out) > 1 else out[0]


def _subst_cond(c, pins):
    if isinstance(c, bool) or not pins:
        return c
    k = c[0]
    if k == 'cmp':
        d = c[2]
        for n, e in pins:
            d = d.substitute_expr(n, e)
        d = d.pruned()  # float residue of non-dyadic pin coefficients must not decide a literal
        if d.is_const():
            v = d.const_value()
            op = c[1]
            return {'lt': v.real < 0, 'le': v.real <= 0, 'eq': v == 0, 'ne': v != 0}[op]
        return ('cmp', c[1], d)
    if k in ('and', 'or'):
        a, b = _subst_cond(c[1], pins), _subst_cond(c[2], pins)
        from .cond import c_and, c_or

        return c_and(a, b) if k == 'and' else c_or(a, b)
    if k == 'not':
        from .cond import c_not

        return c_not(_subst_cond(c[1], pins))
    return c


def _pc_conds(ctx, pins):
    """path condition + atom definitions; conditions other than the pin equalities themselves are
    rewritten with the pins so that angle atoms of pinned variables coincide"""
    out = list(getattr(ctx, '_frac_defs', []))
    for c in list(ctx.pc) + list(ctx.atom_defs):
        out.append(c)
        c2 = _subst_cond(c, pins)
        # a literal that turns into the constant False under the pins (after pruning float residue) shows
        # that the path condition is contradictory in exact arithmetic: the path was only explored because
        # the over-approximation could not see it; its VCs are vacuous
        if c2 is not c and not (isinstance(c2, bool) and c2):
            out.append(c2)
    return out


_CC = [0]


def _maybe_cross_check(ctx, solver, verdict, logic, label):
    """every N-th decided VC is re-decided by cvc5 (hygiene item: two solvers); a definite disagreement
    makes the VC inconclusive"""
    n = int(ctx.opts.get('cross_check_every', 0) or 0)
    if n <= 0:
        return
    _CC[0] += 1  # per worker process, so sparse VCs per path are sampled too
    if _CC[0] % n:
        return
    from .crosscheck import cvc5_decide

    t0 = time.time()
    v2 = cvc5_decide(solver, timeout_ms=ctx.opts.get('cross_check_timeout_ms', 5000), logic=logic)
    ctx.stats.cc_s = getattr(ctx.stats, 'cc_s', 0.0) + time.time() - t0
    ctx.stats.cc_total = getattr(ctx.stats, 'cc_total', 0) + 1
    v1 = str(verdict)
    if v2 in ('sat', 'unsat') and v1 in ('sat', 'unsat'):
        if v1 == v2:
            ctx.stats.cc_agree = getattr(ctx.stats, 'cc_agree', 0) + 1
        else:
            raise Inconclusive(f'{label}: solver disagreement z3={v1} cvc5={v2}')
    elif v2.startswith('error'):
        ctx.stats.cc_error = getattr(ctx.stats, 'cc_error', 0) + 1


def _has_trig(ctx, sn):
    for s_ in sn:
        for (_m, ang) in s_.t:
            for atom, _q in ang:
                mono, unit = atom
                if not (unit == 'pi' and len(mono) == 1 and mono[0][1] == 1 and ctx.vars.get(mono[0][0], {}).get('kind') == 'int'):
                    return True
    return False


def _query(ctx, mode, L, items, tol, sn, pcs=None):
    enc = Encoder(ctx, mode, L)
    if mode == 'lattice':
        enc.prepare(sn)
    s = _base_solver(ctx, enc, ctx.opts.get('vc_timeout_ms', 30000))
    for c in (pcs if pcs is not None else list(ctx.pc) + list(ctx.atom_defs)):
        s.add(enc.cond(c))
    s.add(_viol_formula(enc, items, tol))
    for lem in enc.lipschitz_lemmas():
        s.add(lem)
    for sc in enc.side:
        s.add(sc)
    t0 = time.time()
    with guarded(scaled(ctx.opts.get('vc_timeout_ms', 30000))):
        r = s.check()
    ctx.stats.queries += 1
    ctx.stats.solver_s += time.time() - t0
    return r, s


def _exact_stages(ctx, items, tol, label, rec, proof_first=False):
    from .cond import c_snums

    st = ctx.stats
    sn = [it[2] for it in items if it[0] == 'close']
    for it in items:
        if it[0] == 'cond':
            c_snums(it[1], sn)
    pcs = _pc_conds(ctx, _pins(ctx))
    for c in pcs:
        c_snums(c, sn)
    if not _has_trig(ctx, sn):
        # no abstraction involved: one exact query decides
        r, s = _query(ctx, 'over', 0, items, tol, sn, pcs)
        _maybe_cross_check(ctx, s, r, None, label)
        if r == z3.unsat:
            st.vcs_exact += 1
            rec['stage'] = 'exact-unsat'
            ctx.vc_log.append(rec)
            return
        rec['stage'] = f'exact-{r}'
        ctx.vc_log.append(rec)
        if r == z3.sat:
            raise Violation(label, 'solver model (exact encoding)', _model_to_inputs(ctx, s.model()))
        raise Inconclusive(f'{label}: exact VC unknown')

    def proof():
        r, s = _query(ctx, 'over', 0, items, tol, sn, pcs)
        if r == z3.unsat:
            st.vcs_exact += 1
            rec['stage'] = 'exact-nra-unsat'
            ctx.vc_log.append(rec)
            return True, None
        return False, (_model_to_inputs(ctx, s.model()) if r == z3.sat else None)

    def search():
        for L in ctx.opts.get('lattices', (4, 6)):
            r, s = _query(ctx, 'lattice', L, items, tol, sn, pcs)
            if r == z3.sat:
                model = _model_to_inputs(ctx, s.model())
                rec['stage'] = f'lattice-{L}-sat'
                ctx.vc_log.append(rec)
                raise Violation(label, f'solver witness on pi/{L} lattice', model)

    cand = None
    if proof_first:
        ok, cand = proof()
        if ok:
            return
        search()
    else:
        search()
        ok, cand = proof()
        if ok:
            return
    rec['stage'] = 'inconclusive'
    ctx.vc_log.append(rec)
    raise Inconclusive(f'{label}: over-approximation sat/unknown, no lattice witness; candidate {cand}')


def check_cond(ctx, cond, label):
    from .sint import SBool

    st = ctx.stats
    st.vcs += 1
    if isinstance(cond, (bool, np.bool_)):
        if cond:
            st.vcs_trivial += 1
            ctx.vc_log.append({'label': label, 'stage': 'concrete-true'})
            return
        raise Violation(label, 'condition is concretely false on this path', witness(ctx))
    if isinstance(cond, SBool) and isinstance(cond.c, bool):
        if cond.c:
            st.vcs_trivial += 1
            ctx.vc_log.append({'label': label, 'stage': 'concrete-true'})
            return
        raise Violation(label, 'condition is concretely false on this path', witness(ctx))
    if not isinstance(cond, SBool):
        raise Escape(f'symx: check() of {type(cond).__name__}')
    rec = {'label': label}
    _exact_stages(ctx, [('cond', cond.c)], 0.0, label, rec, proof_first=True)

"""np proxy variant used by C14: keeps symbolic INTEGER data symbolic under integer dtypes, and
gives scalar results of np.trace the `.shape == ()` interface of numpy scalars.

symx.proxy.NpProxy.array(obj, dtype=<integer dtype>) concretises symbolic entries (one path per
value).  For `cirq.ops.dense_pauli_string._vectorized_pauli_mul_phase` the Pauli masks themselves
are meant to be solver integers, so `np.array(mask, dtype=np.int8)` and `np.sum(t, dtype=np.uint8)`
must keep object arrays of SInt (the int8/uint8 wrap-around is irrelevant there: the values stay in
[-2n, 2n] and only `& 3` of the sum is used, which is the same for the exact sum and the sum
mod 256).
`PauliString._expectation_from_density_matrix_no_validation` loops `while any(result.shape)` over
repeated `np.trace`; on complex arrays the last trace is a numpy scalar (shape ()), on object arrays
numpy hands back the bare element, so the element is re-wrapped in an SNum subclass with shape ().
Installed per module from the check's worker_setup(); symx/proxy.py is unchanged.
"""
from __future__ import annotations

import importlib

import numpy as _np

from .proxy import NpProxy, _real_dtype
from .sint import SBool, SInt
from .snum import SNum


class SNumScalar(SNum):
    """an SNum that answers the numpy-scalar attributes .shape / .ndim"""

    __slots__ = ()
    shape = ()
    ndim = 0


def _has_sint(obj) -> bool:
    if isinstance(obj, (SInt, SBool)):
        return True
    if isinstance(obj, _np.ndarray):
        return obj.dtype == object and any(isinstance(e, (SInt, SBool)) for e in obj.reshape(-1))
    if isinstance(obj, (list, tuple)):
        return any(_has_sint(e) for e in obj)
    return False


def _is_int_dtype(dtype) -> bool:
    try:
        return dtype is not None and _np.dtype(dtype).kind in 'iu'
    except TypeError:
        return False


class NpProxyIntSym(NpProxy):
    def array(self, obj, dtype=None, copy=True, **k):
        if _is_int_dtype(_real_dtype(dtype)) and _has_sint(obj):
            a = _np.array(obj, dtype=object)
            out = _np.empty(a.shape, dtype=object)
            of = out.reshape(-1)
            for i, e in enumerate(a.reshape(-1)):
                of[i] = e.to_sint() if isinstance(e, SBool) else e
            return out
        return NpProxy.array(self, obj, dtype=dtype, copy=copy, **k)

    def sum(self, a, *r, **k):
        if _has_sint(a) and _is_int_dtype(_real_dtype(k.get('dtype'))):
            k = dict(k)
            k.pop('dtype')
            res = _np.sum(_np.asarray(a, dtype=object), *r, **k)
            if not isinstance(res, _np.ndarray):
                box = _np.empty((), dtype=object)  # numpy scalars have .item(); keep that interface
                box[()] = res
                return box
            return res
        return NpProxy.sum(self, a, *r, **k)


    def trace(self, a, *r, **k):
        res = NpProxy.trace(self, a, *r, **k)
        if isinstance(res, SNum) and not isinstance(res, SNumScalar):
            return SNumScalar(res.t)
        return res


NP_INTSYM = NpProxyIntSym()


def install_intsym(module_names):
    done = []
    for mn in module_names:
        m = importlib.import_module(mn)
        m.__dict__['np'] = NP_INTSYM
        done.append(f'{mn}.np(symbolic integers kept under integer dtypes)')
    return done

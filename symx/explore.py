"""Re-execution DFS explorer for one obligation."""
from __future__ import annotations

import sys
import time
import traceback
from typing import Any, Callable, Dict, List, Optional

from . import ctx as C
from .ctx import Ctx, DepthLimit, Escape, Infeasible, Violation
from .vc import Inconclusive, witness


class Obligation:
    def __init__(
        self,
        name: str,
        body: Callable,
        expected=(),
        opts: Optional[dict] = None,
        twin: Optional[Callable] = None,
        points: Optional[List[dict]] = None,
        desc: str = '',
        kind: str = 'symbolic',
    ):
        self.name = name
        self.body = body
        self.expected = tuple(expected)
        self.opts = opts or {}
        self.twin = twin
        self.points = points or []
        self.desc = desc
        self.kind = kind


import os as _os

REPO_PREFIX = _os.path.realpath(_os.environ.get('VERIF_REPO', '/repo')) + '/'
_TOOL_ID = 3


def _start_monitor(seen: set):
    mon = getattr(sys, 'monitoring', None)
    if mon is None:
        return False
    try:
        mon.use_tool_id(_TOOL_ID, 'symx')
    except ValueError:
        return False

    def on_start(code, _off):
        fn = code.co_filename
        if fn.startswith(REPO_PREFIX):
            seen.add(f'{fn[len(REPO_PREFIX):]}:{code.co_qualname}')
        return mon.DISABLE

    mon.register_callback(_TOOL_ID, mon.events.PY_START, on_start)
    mon.set_events(_TOOL_ID, mon.events.PY_START)
    return True


def _stop_monitor():
    mon = getattr(sys, 'monitoring', None)
    if mon is None:
        return
    try:
        mon.set_events(_TOOL_ID, 0)
        mon.register_callback(_TOOL_ID, mon.events.PY_START, None)
        mon.free_tool_id(_TOOL_ID)
    except Exception:
        pass


def explore(body, opts: dict, expected=(), name='', measure_functions=True, val_points=None) -> Dict[str, Any]:
    """Explore every feasible path of body(cx). Returns a result dict (picklable)."""
    t_start = time.time()
    max_paths = opts.get('max_paths', 20000)
    max_seconds = opts.get('max_seconds', 1e9)
    stack: List[List[Any]] = [[]]
    res: Dict[str, Any] = {
        'name': name,
        'paths': 0,
        'ok': 0,
        'expected_exc': 0,
        'infeasible': 0,
        'violations': [],
        'inconclusive': [],
        'escapes': [],
        'vcs': 0,
        'vcs_trivial': 0,
        'vcs_linear': 0,
        'vcs_exact': 0,
        'entries': 0,
        'queries': 0,
        'decisions': 0,
        'solver_s': 0.0,
        'unknown': 0,
        'functions': [],
        'sample_paths': [],
        'sample_vcs': [],
        'tv_compared': 0,
        'tv_mismatch': [],
        'exhausted': True,
        'cc_total': 0,
        'cc_agree': 0,
        'cc_error': 0,
        'cc_s': 0.0,
    }
    seen_fn: set = set()
    first = True
    while stack:
        if res['paths'] >= max_paths or time.time() - t_start > max_seconds:
            res['exhausted'] = False
            res['inconclusive'].append(f'path/time budget hit with {len(stack)} prefixes pending')
            break
        trace = stack.pop()
        cx = Ctx(trace, opts)
        cx.record_terms = bool(val_points)
        cx.term_log = []
        C.set_cur(cx)
        mon = first and measure_functions and _start_monitor(seen_fn)
        outcome = 'ok'
        detail = None
        try:
            body(cx)
        except Infeasible:
            outcome = 'infeasible'
        except DepthLimit:
            outcome = 'inconclusive'
            detail = 'decision depth limit (unwinding assertion) hit'
        except Violation as v:
            outcome = 'violation'
            detail = {'label': v.label, 'detail': v.detail, 'model': v.model, 'trace': list(cx.new_trace)}
        except Inconclusive as e:
            outcome = 'inconclusive'
            detail = str(e)[:500]
        except Escape as e:
            outcome = 'escape'
            detail = str(e)[:300]
        except expected as e:  # documented precondition failure of the code under test
            outcome = 'expected_exc'
            detail = f'{type(e).__name__}: {str(e)[:120]}'
        except Exception as e:
            msg = str(e)
            tb = traceback.format_exc(limit=-6)
            if 'symx:' in msg:
                outcome = 'escape'
                detail = f'{type(e).__name__}: {msg[:300]} @ {_where(e)}'
            else:
                outcome = 'violation'
                try:
                    model = witness(cx)
                except Exception:
                    model = None
                detail = {
                    'label': 'unexpected-exception',
                    'detail': f'{type(e).__name__}: {msg[:300]} @ {_where(e)}',
                    'model': model,
                    'trace': list(cx.new_trace),
                    'tb': tb[-1500:],
                }
        finally:
            if mon:
                _stop_monitor()
            C.set_cur(None)
        first = False
        res['paths'] += 1
        st = cx.stats
        for k in ('vcs', 'vcs_trivial', 'vcs_linear', 'vcs_exact', 'entries', 'queries', 'decisions', 'unknown'):
            res[k] += getattr(st, k)
        res['solver_s'] += st.solver_s
        for k in ('cc_total', 'cc_agree', 'cc_error', 'cc_s'):
            res[k] += getattr(st, k, 0)
        if outcome in ('ok', 'expected_exc', 'infeasible'):
            res[outcome] += 1
        elif outcome == 'violation':
            res['violations'].append(detail)
        elif outcome == 'inconclusive':
            res['inconclusive'].append(detail)
        elif outcome == 'escape':
            res['escapes'].append(detail)
        if len(res['sample_paths']) < 3 and outcome in ('ok', 'expected_exc'):
            from .cond import c_repr

            res['sample_paths'].append(
                {
                    'decisions': [str(d) for d in cx.new_trace][:30],
                    'path_condition': [c_repr(c)[:160] for c in cx.pc][:12],
                    'outcome': outcome if detail is None else f'{outcome}: {detail}',
                    'vcs': cx.vc_log[:6],
                }
            )
        if len(res['sample_vcs']) < 4:
            res['sample_vcs'].extend(cx.vc_log[: 4 - len(res['sample_vcs'])])
        # translator validation: symbolic terms evaluated at the points vs concrete-mode values
        if val_points and outcome == 'ok':
            _translator_validate(cx, val_points, res)
        stack.extend(cx.pending)
        if res['violations'] and opts.get('stop_on_violation', True):
            res['exhausted'] = not stack
            break
    res['functions'] = sorted(seen_fn)
    res['wall_s'] = time.time() - t_start
    return res


def _where(e):
    tb = e.__traceback__
    last = None
    while tb is not None:
        fn = tb.tb_frame.f_code.co_filename
        if fn.startswith(REPO_PREFIX):
            last = f'{fn[len(REPO_PREFIX):]}:{tb.tb_lineno}'
        tb = tb.tb_next
    return last or '?'


def _cond_holds(cx, cond, env) -> Optional[bool]:
    import z3

    if isinstance(cond, bool):
        return cond
    k = cond[0]
    if k == 'cmp':
        v = cond[2].eval(env)
        op = cond[1]
        if op == 'lt':
            return v.real < 0
        if op == 'le':
            return v.real <= 0
        if op == 'eq':
            return abs(v) == 0
        if op == 'ne':
            return abs(v) != 0
    if k == 'and':
        a, b = _cond_holds(cx, cond[1], env), _cond_holds(cx, cond[2], env)
        return None if a is None or b is None else (a and b)
    if k == 'or':
        a, b = _cond_holds(cx, cond[1], env), _cond_holds(cx, cond[2], env)
        return None if a is None or b is None else (a or b)
    if k == 'not':
        a = _cond_holds(cx, cond[1], env)
        return None if a is None else not a
    if k == 'z3':
        subs = []
        for n, v in cx.vars.items():
            if n not in env:
                continue
            if v['kind'] == 'int':
                subs.append((z3.Int(n), z3.IntVal(int(env[n]))))
            elif v['kind'] == 'bool':
                subs.append((z3.Bool(n), z3.BoolVal(bool(env[n]))))
        r = z3.simplify(z3.substitute(cond[1], *subs))
        if z3.is_true(r):
            return True
        if z3.is_false(r):
            return False
        return None
    return None


def _translator_validate(cx, val_points, res):
    import numpy as np

    for pt in val_points:
        env = pt['env']
        # choices must match this path
        okc = True
        for n, v in cx.vars.items():
            if v['kind'] == 'choice' and env.get(n, 0) != v.get('value', 0):
                okc = False
        if not okc or cx.atoms:
            continue
        if any(n not in env for n, v in cx.vars.items() if v['kind'] in ('real', 'int', 'bool') and not n.startswith('_')):
            continue
        holds = [_cond_holds(cx, c, env) for c in cx.pc]
        if not all(h is True for h in holds):
            continue
        conc = pt['values']
        if len(conc) != len(cx.term_log):
            res['tv_mismatch'].append(f"{res['name']}: {len(cx.term_log)} symbolic close() calls vs {len(conc)} concrete at {env}")
            continue
        for (lab, terms), (lab2, vals) in zip(cx.term_log, conc):
            sv = np.array([t.eval(env) for t in terms], dtype=complex)
            cv = np.asarray(vals, dtype=complex).ravel()
            res['tv_compared'] += 1
            if lab != lab2 or sv.shape != cv.shape or (sv.size and np.max(np.abs(sv - cv)) > 1e-9):
                res['tv_mismatch'].append(f"{res['name']}/{lab}: symbolic terms != concrete run at {env}")

"""Wall-clock solver timeouts scaled by machine load.

z3 timeouts are wall-clock.  On an oversubscribed machine (load average above the core count) every solver call
gets a fraction of a core, and a query that needs 1 s of CPU can take 5 s of wall time: fixed timeouts then turn
proofs into `unknown` (reported as inconclusive, exit 2).  Every timeout handed to a solver is therefore multiplied
by max(1, load/cores) (capped).  This never changes a verdict: a longer budget can only turn `unknown` into
sat/unsat; VERIF_TIMEOUT_SCALE overrides the factor.
"""
import os
import time

_cache = [0.0, 1.0]


def factor():
    ov = os.environ.get('VERIF_TIMEOUT_SCALE')
    if ov:
        try:
            return max(0.1, float(ov))
        except ValueError:
            pass
    now = time.time()
    if now - _cache[0] > 5.0:
        try:
            f = os.getloadavg()[0] / max(1, os.cpu_count() or 1)
        except OSError:
            f = 1.0
        _cache[0], _cache[1] = now, min(8.0, max(1.0, f))
    return _cache[1]


def scaled(ms):
    return int(ms * factor())

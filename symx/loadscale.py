"""Wall-clock solver timeouts scaled by machine load.

z3 timeouts are wall-clock.  On an oversubscribed machine (load average above the core count) every solver call
gets a fraction of a core, and a query that needs 1 s of CPU can take 5 s of wall time: fixed timeouts then turn
proofs into `unknown` (reported as inconclusive, exit 2).  Every timeout handed to a solver is therefore multiplied
by max(1, load/cores) (capped).  This never changes a verdict: a longer budget can only turn `unknown` into
sat/unsat; VERIF_TIMEOUT_SCALE overrides the factor.
"""
import os
import time

_cache = [0.0, 1.0]


def factor():
    ov = os.environ.get('VERIF_TIMEOUT_SCALE')
    if ov:
        try:
            return max(0.1, float(ov))
        except ValueError:
            pass
    now = time.time()
    if now - _cache[0] > 5.0:
        try:
            f = os.getloadavg()[0] / max(1, os.cpu_count() or 1)
        except OSError:
            f = 1.0
        _cache[0], _cache[1] = now, min(8.0, max(1.0, f))
    return _cache[1]


def scaled(ms):
    return int(ms * factor())


# ---- hard watchdog for solver calls -----------------------------------------------------------------------------------
# z3's timeout is cooperative; a few internal loops (observed: nla::core::patch_monomial -> mpz is_perfect_square on huge
# rationals, 12 CPU-minutes under a 3 s timeout) never look at the cancel flag.  Every solver call is bracketed by
# guarded(); a daemon thread in each worker process exits the PROCESS (code 97) when one call overruns its timeout by a
# wide margin; the parent scheduler (symx/run.py) restarts the worker and re-runs the task once with another z3 seed, and
# reports the obligation as inconclusive if that fails too.  A killed call is never counted as a verdict.
import threading

_CALL = {'t0': None, 'limit': None, 'started': False}
WATCHDOG_EXIT = 97


class guarded:
    def __init__(self, timeout_ms):
        self.limit = max(90.0, 6.0 * float(timeout_ms) / 1000.0)

    def __enter__(self):
        _CALL['limit'] = self.limit
        _CALL['t0'] = time.time()

    def __exit__(self, *a):
        _CALL['t0'] = None
        return False


def start_watchdog():
    if _CALL['started']:
        return
    _CALL['started'] = True

    def loop():
        while True:
            time.sleep(2.0)
            t0 = _CALL['t0']
            if t0 is not None and time.time() - t0 > (_CALL['limit'] or 90.0):
                try:
                    os.write(2, b'symx watchdog: a solver call ignored its timeout; worker exits\n')
                finally:
                    os._exit(WATCHDOG_EXIT)

    threading.Thread(target=loop, daemon=True).start()

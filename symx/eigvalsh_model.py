"""Over-approximating model of numpy.linalg.eigvalsh on a SYMBOLIC Hermitian matrix.

numpy doc: "Compute the eigenvalues of a complex Hermitian or real symmetric matrix ... Returns w (..., M)
ndarray: the eigenvalues in ascending order, each repeated according to its multiplicity."

LAPACK cannot take symbolic entries, and an exact encoding (roots of the characteristic polynomial) is out of
reach of the solver for 4x4 .. 16x16 symbolic matrices.  The model returns M FRESH real solver variables
w_0 <= ... <= w_(M-1) constrained only by the facts that are linear in the entries:

    sum_i w_i = Re trace(a)                (trace = sum of eigenvalues)

The variables are cached per matrix (the same matrix validated twice gets the same eigenvalues).
This is an OVER-approximation: every real eigenvalue vector satisfies the constraints, but so do vectors that are
not eigenvalues.  Consequences, which the checks using it must state:

* code that only BRANCHES on the eigenvalues (Cirq: `if not np.all(np.linalg.eigvalsh(rho) > -atol): raise
  ValueError('... not positive semidefinite')` in cirq.qis.validate_density_matrix) is explored on BOTH branches;
  everything proved on the accepting branch holds for every matrix the real code accepts (sound for proofs);
* the rejecting branch is reachable in the model also for matrices that ARE positive semidefinite, so the
  obligation has to declare that ValueError as an expected (precondition) outcome, and "a valid state is never
  rejected by the PSD test" is NOT decided symbolically (the check asserts it on its concrete validation points,
  where the real LAPACK runs);
* a counterexample that depends on the value of a w_i could be spurious: like every model-derived
  counterexample it is replayed on the real code with real numpy before it is reported.

All-constant symbolic matrices and numeric matrices go to the real numpy.linalg.eigvalsh.
`install()` adds the model to symx.proxy.LinalgProxy (worker processes only; listed in the evidence as a stub).
"""
from __future__ import annotations

import numpy as _np

from . import ctx as _ctx
from .snum import SNum


def eigvalsh(a, UPLO='L'):
    from .proxy import _all_const, _coerce, is_sym, wrap

    if not is_sym(a):
        return _np.linalg.eigvalsh(a, UPLO=UPLO)
    c = _all_const(a)
    if c is not None:
        return _np.linalg.eigvalsh(c, UPLO=UPLO)
    A = _np.asarray(a, dtype=object)
    if A.ndim != 2 or A.shape[0] != A.shape[1]:
        raise _ctx.Escape('symx: eigvalsh model needs one square matrix')
    n = A.shape[0]
    cx = _ctx.cur()
    key = ('eigvalsh', tuple(cx._atom_key('e', _coerce(e)) for e in A.reshape(-1)))
    if key in cx.atoms:
        return cx.atoms[key].copy()
    tr = SNum.const(0)
    for i in range(n):
        tr = tr + _coerce(A[i, i])
    tr = (tr + tr.conjugate()) * 0.5
    out = _np.empty(n, dtype=object)
    tot = SNum.const(0)
    for i in range(n):
        name = cx.fresh('eig')
        cx._declare(name, 'real', None, None)
        out[i] = SNum.var(name)
        tot = tot + out[i]
        if i:
            cx._add_def(out[i - 1] <= out[i])
    cx._add_def(tot == tr)
    out = wrap(out)
    cx.atoms[key] = out
    return out.copy()


def install():
    from . import proxy

    proxy.LinalgProxy.eigvalsh = staticmethod(eigvalsh)
    return ['numpy.linalg.eigvalsh OVER-APPROXIMATED on symbolic matrices (symx/eigvalsh_model.py: fresh ordered reals with sum = Re trace; both outcomes of a PSD test are explored)']

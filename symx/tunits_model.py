"""Harness-side MODEL of `tunits.Value` for symbolic magnitudes (tunits is a Cython extension: its values cannot hold
solver terms).  Installed by checks as the module-global `tunits` of the Cirq modules under analysis, in symbolic worker
processes only.

A `SymValue(mag, unit)` is the quantity  mag * unit  where `mag` is a symbolic (or plain) real and `unit` is a REAL
tunits unit value (e.g. tunits.ns); everything that concerns units is delegated to the real library on concrete data:

    v.unit            the real unit value
    v.value           mag
    v[u]              mag * (unit[u])            conversion factor computed by the real tunits on the unit
    v * c, c * v      SymValue(mag * c, unit)    (c a real number, symbolic or not)
    v + w             SymValue(mag + w[unit], unit)
    v.to_proto(msg)   the real `unit.to_proto` (units, real_value 1.0) followed by  msg.real_value = mag
    Value.from_proto  the real `Value.from_proto` on a copy whose real_value is 1.0 gives the unit; the magnitude is
                      the message's real_value (symbolic or not)

`ProxyModule.Value` answers isinstance for real tunits values and for SymValue.  All other attributes of the module
are the real tunits.
"""
from __future__ import annotations

import types

import tunits as _tunits


def _is_sym(x):
    from .sint import SBool, SInt
    from .snum import SNum

    return isinstance(x, (SBool, SInt, SNum))


class SymValue:
    __slots__ = ('mag', 'unit')

    def __init__(self, mag, unit):
        assert isinstance(unit, _tunits.Value)
        self.mag = mag
        self.unit = unit

    @property
    def value(self):
        return self.mag

    def __getitem__(self, u):
        if isinstance(u, SymValue):
            u = u.unit * u.mag
        f = self.unit[u]  # real tunits: raises for incompatible dimensions, like the real value would
        return self.mag * f

    def __mul__(self, c):
        if isinstance(c, (SymValue, _tunits.Value)):
            return NotImplemented
        return SymValue(self.mag * c, self.unit)

    __rmul__ = __mul__

    def __add__(self, o):
        if isinstance(o, _tunits.Value):
            return SymValue(self.mag + o[self.unit], self.unit)
        if isinstance(o, SymValue):
            return SymValue(self.mag + o[self.unit], self.unit)
        return NotImplemented

    __radd__ = __add__

    def __neg__(self):
        return SymValue(-self.mag, self.unit)

    def __sub__(self, o):
        return self + (-o)

    def to_proto(self, msg=None):
        ret = self.unit.to_proto(msg)
        ret.real_value = self.mag
        return ret

    def __eq__(self, o):
        if isinstance(o, (SymValue, _tunits.Value)):
            try:
                return self.mag == o[self.unit]
            except Exception:
                return False
        return NotImplemented

    def __hash__(self):
        return 0x7C1175

    def __repr__(self):
        return f'SymValue({self.mag!r} {self.unit})'


class _ValueMeta(type):
    def __instancecheck__(cls, x):
        return isinstance(x, (_tunits.Value, SymValue))


class _Value(metaclass=_ValueMeta):
    """stands for tunits.Value in `isinstance` tests and for `Value.from_proto`"""

    @staticmethod
    def from_proto(msg):
        mag = msg.real_value if msg.WhichOneof('value') == 'real_value' else None
        if mag is None:
            return _tunits.Value.from_proto(msg)
        unit_msg = type(msg)()
        unit_msg.CopyFrom(msg)
        unit_msg.real_value = 1.0
        unit = _tunits.Value.from_proto(unit_msg)
        return SymValue(mag, unit)


class ProxyModule(types.ModuleType):
    def __init__(self):
        super().__init__('tunits')
        self.Value = _Value

    def __getattr__(self, name):
        return getattr(_tunits, name)


PROXY = ProxyModule()


def install(module_names):
    import importlib

    done = []
    for mn in module_names:
        m = importlib.import_module(mn)
        if m.__dict__.get('tunits') is _tunits:
            m.__dict__['tunits'] = PROXY
            done.append(f'{mn}.tunits (symx/tunits_model.py: tunits.Value modelled as symbolic magnitude x real tunits unit; conversions, unit messages and dimension checks by the real tunits on the unit)')
    return done

"""HInt: an SInt whose hash is constant, so that dict / Counter / set probes are decided by `==`
(which forks on the symbolic equality) instead of enumerating every feasible VALUE of the integer.

Python only requires  a == b  =>  hash(a) == hash(b); a constant hash satisfies that for any two
HInt.  An HInt never equals-by-hash a plain int key, therefore harnesses that use HInt keep every key
that can meet another key in one container symbolic (or compare containers by `==` formulas, see
checks/C18.py `counter_matches`).  All arithmetic results stay HInt (results that simplify to a
constant are plain Python ints, exactly as for SInt).

Nothing in symx core is modified: this is a subclass used only by the harnesses that ask for it.
"""
from __future__ import annotations

from .sint import SInt

_CONST_HASH = 0x5EED


class HInt(SInt):
    __slots__ = ()

    def __hash__(self):
        c = self.concrete()
        if c is not None:
            return hash(c)
        return _CONST_HASH

    def __repr__(self):
        return 'H' + SInt.__repr__(self)


def _rewrap(r):
    if type(r) is SInt:
        return HInt(r.e)
    if type(r) is tuple:
        return tuple(_rewrap(x) for x in r)
    return r


def _mk(name):
    base = getattr(SInt, name)

    def f(self, *a):
        return _rewrap(base(self, *a))

    f.__name__ = name
    return f


for _n in (
    '__add__', '__radd__', '__sub__', '__rsub__', '__mul__', '__rmul__', '__neg__', '__pos__', '__abs__',
    '__floordiv__', '__mod__', '__divmod__', '__rshift__', '__lshift__', '__and__', '__rand__', '__pow__',
):
    setattr(HInt, _n, _mk(_n))
del _n


def hint(cx, name, lo, hi):
    """declare a symbolic integer variable with constant hash (concrete mode: plain int)"""
    v = cx.int(name, lo, hi)
    if isinstance(v, SInt):
        return HInt(v.e)
    return v

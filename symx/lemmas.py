"""Harness-side sound abstraction of exp(i*w*d) for a SMALL symbolic offset d  (tolerance bands).

Code that special-cases a tolerance band around a constant (`abs((e - t + 1) % 2 - 1) <= atol` in the
IonQ serializer) accepts every exponent e = a + d with |d| <= atol and emits the payload of the constant
a.  The obligation "payload == circuit up to tolerance" then contains terms  coef * exp(i*w*d)  with d
only known to lie in a tiny interval.  The proof encoding of symx abstracts exp(i*w*d) by an arbitrary
point of the unit circle, which is too weak there, and the exact non-linear encoding with a Lipschitz
lemma times out in z3.  This module performs the over-approximation on the TERM level instead, by the
first-order Taylor enclosure

        exp(i*w*d)  =  1 + i*w*d + eps,     |Re eps|, |Im eps| <= (w*D)^2 / 2,    D = max |d| over d's box

(true for every real d in the box because |exp(ix) - 1 - ix| <= x^2/2).  Every factor exp(i*w*d) is
replaced by 1 + i*w*d + er + i*ei with two FRESH box-bounded real variables (er, ei) per distinct (d, w).
The resulting term is a polynomial in d and box-bounded variables, free of trigonometric atoms, and is
decided by z3 through symx's ordinary VC stages together with the path condition (which knows how small d
is on the path).  The replacement is an over-approximation: a proof for all (er, ei) in the square is a
proof for the true value; a counterexample may be spurious and, like every counterexample, is only
reported after concrete replay on the real code.  With D = 1e-5 the enclosure error is below 5e-10.

Nothing is changed in concrete mode, and no symx core file is modified.
"""
from __future__ import annotations

import math
from fractions import Fraction

import numpy as np

from .snum import SNum, _ang_norm


def _eps(cx, dname, unit, q, D):
    key = ('c17eps', dname, unit, q)
    got = cx.atoms.get(key)
    if got is None:
        w = float(q) * (math.pi if unit == 'pi' else 1.0)
        B = 0.5 * (w * D) ** 2 * (1 + 1e-9) + 1e-18
        tag = f'{dname}_{unit}_{q.numerator}_{q.denominator}'.replace('-', 'm')
        er = cx.real(f'_epsr_{tag}', -B, B)
        ei = cx.real(f'_epsi_{tag}', -B, B)
        got = SNum.const(1) + SNum.var(dname) * (1j * w) + er + 1j * ei
        cx.atoms[key] = got
    return got


def small_angle_abstract(cx, x, small):
    """x: SNum / number / (nested) list / ndarray of them.  small: {variable name: D} with |variable| <= D.
    Returns x with every factor exp(i*w*variable) replaced by 1 + eps (see module docstring)."""
    if cx.mode != 'sym':
        return x
    if isinstance(x, np.ndarray):
        out = np.empty(x.shape, dtype=object)
        of = out.reshape(-1)
        for i, e in enumerate(x.reshape(-1)):
            of[i] = small_angle_abstract(cx, e, small)
        return out
    if isinstance(x, (list, tuple)):
        return [small_angle_abstract(cx, e, small) for e in x]
    if not isinstance(x, SNum):
        return x
    total = SNum({})
    for (mono, ang), c in x.t.items():
        keep = {}
        factor = None
        for (am, unit), q in ang:
            if len(am) == 1 and am[0][1] == 1 and am[0][0] in small:
                f = _eps(cx, am[0][0], unit, Fraction(q), small[am[0][0]])
                factor = f if factor is None else factor * f
            else:
                keep[(am, unit)] = q
        if factor is None:
            total = total + SNum({(mono, ang): c})
        else:
            total = total + SNum({(mono, _ang_norm(keep)): c}) * factor
    return total

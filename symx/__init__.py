"""symx: re-execution symbolic executor for numpy-centric Python (see DESIGN.md section 2)."""

"""Per-path execution context: variables, atoms, path condition, decisions, VC emission."""
from __future__ import annotations

import time
from typing import Any, Dict, List, Optional

import z3

from .loadscale import guarded, scaled

_CUR: List[Any] = [None]


def cur():
    c = _CUR[0]
    if c is None:
        raise RuntimeError('symx: no active context (symbolic value used outside an obligation)')
    return c


def set_cur(c):
    _CUR[0] = c


def var_kind(name: str) -> str:
    c = _CUR[0]
    if c is None:
        return 'real'
    v = c.vars.get(name)
    return v['kind'] if v else 'real'


class Escape(Exception):
    """The code left what can be executed symbolically (C boundary, unsupported op). Not a verdict."""


class Infeasible(BaseException):
    """Path condition became unsatisfiable: path is abandoned silently."""


class DepthLimit(BaseException):
    """Unwinding assertion: too many decisions on one path -> inconclusive."""


class Violation(Exception):
    def __init__(self, label, detail, model=None):
        super().__init__(f'{label}: {detail}')
        self.label = label
        self.detail = detail
        self.model = model


class PathStats:
    def __init__(self):
        self.vcs = 0
        self.vcs_linear = 0
        self.vcs_exact = 0
        self.vcs_trivial = 0
        self.entries = 0
        self.solver_s = 0.0
        self.queries = 0
        self.decisions = 0
        self.unknown = 0


class Ctx:
    """Symbolic context for ONE path (re-created for every re-execution)."""

    mode = 'sym'

    def __init__(self, trace, opts):
        from .encode import Encoder

        self.trace = list(trace)  # decisions to replay: list of values (bool or int)
        self.pos = 0
        self.new_trace: List[Any] = []
        self.pending: List[List[Any]] = []  # alternative prefixes discovered on this path
        self.vars: Dict[str, dict] = {}
        self.atoms: Dict[Any, Any] = {}
        self.atom_defs: List[Any] = []  # Cond nodes that define atoms
        self.pc: List[Any] = []  # Cond nodes (decisions + assumptions)
        self.opts = opts
        self.stats = PathStats()
        self.enc = Encoder(self, 'over')
        self.solver = z3.Solver()
        self.solver.set('timeout', scaled(opts.get('decide_timeout_ms', 3000)))
        self._n_side = 0
        self.counter = 0
        self.depth_limit = opts.get('depth_limit', 400)
        self.vc_log: List[dict] = []
        self.prng_log: List[Any] = []
        self.notes: List[str] = []

    # ---- variables -----------------------------------------------------------
    def _declare(self, name, kind, lo, hi):
        if name in self.vars:
            raise RuntimeError(f'symx: variable {name} declared twice on one path')
        self.vars[name] = {'kind': kind, 'lo': lo, 'hi': hi}
        zv = z3.Int(name) if kind == 'int' else z3.Real(name)
        if lo is not None:
            self.solver.add(zv >= _rv(lo, kind))
        if hi is not None:
            self.solver.add(zv <= _rv(hi, kind))
        return zv

    def real(self, name, lo=None, hi=None):
        from .snum import SNum

        self._declare(name, 'real', lo, hi)
        return SNum.var(name)

    def int(self, name, lo=None, hi=None):
        from .sint import SInt

        zv = self._declare(name, 'int', lo, hi)
        return SInt(zv)

    def bool(self, name):
        from .sint import SBool

        self.vars[name] = {'kind': 'bool', 'lo': None, 'hi': None}
        return SBool(('z3', z3.Bool(name)))

    def fresh(self, prefix):
        self.counter += 1
        return f'_{prefix}{self.counter}'

    def choose(self, name, n):
        """finite selector: returns a concrete int in range(n); every value is a separate path"""
        if n <= 0:
            raise Infeasible()
        if self.pos < len(self.trace):
            v = self.trace[self.pos]
        else:
            v = 0
            for alt in range(1, n):
                self.pending.append(self.new_trace + [alt])
        self.pos += 1
        self.new_trace.append(v)
        self.vars.setdefault('choose:' + name, {'kind': 'choice', 'lo': 0, 'hi': n - 1})['value'] = v
        return v

    # ---- decisions -----------------------------------------------------------
    def _sync_side(self):
        sc = self.enc.side
        while self._n_side < len(sc):
            self.solver.add(sc[self._n_side])
            self._n_side += 1

    def _check(self, *assumptions):
        t0 = time.time()
        with guarded(scaled(self.opts.get('decide_timeout_ms', 3000))):
            r = self.solver.check(*assumptions)
        self.stats.solver_s += time.time() - t0
        self.stats.queries += 1
        if r == z3.unknown:
            self.stats.unknown += 1
        return r

    def decide(self, cond) -> bool:
        from .cond import c_not

        if isinstance(cond, bool):
            return cond
        self.stats.decisions += 1
        if self.stats.decisions > self.depth_limit:
            raise DepthLimit()
        e = self.enc.cond(cond)
        self._sync_side()
        if self.pos < len(self.trace):
            d = self.trace[self.pos]
        else:
            rt = self._check(e)
            rf = self._check(z3.Not(e))
            ft, ff = rt != z3.unsat, rf != z3.unsat
            if ft and ff:
                d = True
                self.pending.append(self.new_trace + [False])
            elif ft:
                d = True
            elif ff:
                d = False
            else:
                raise Infeasible()
        self.pos += 1
        self.new_trace.append(d)
        self.solver.add(e if d else z3.Not(e))
        self.pc.append(cond if d else c_not(cond))
        return d

    def assume(self, cond, check=True):
        """restrict the inputs (documented precondition); infeasible -> path dropped"""
        from .sint import SBool

        if isinstance(cond, SBool):
            cond = cond.c
        if isinstance(cond, bool):
            if not cond:
                raise Infeasible()
            return
        e = self.enc.cond(cond)
        self._sync_side()
        self.solver.add(e)
        self.pc.append(cond)
        if check and self.pos >= len(self.trace):  # only check on the frontier path
            if self._check() == z3.unsat:
                raise Infeasible()

    def concretize_int(self, si) -> int:
        """fork over the feasible values of a symbolic integer (bounded)"""
        limit = self.opts.get('int_fork_limit', 64)
        if self.pos < len(self.trace):
            v = self.trace[self.pos]
        else:
            self._sync_side()
            vals = []
            self.solver.push()
            try:
                while len(vals) <= limit:
                    r = self._check()
                    if r == z3.unknown:
                        raise Escape('symx: solver unknown while enumerating integer values')
                    if r != z3.sat:
                        break
                    v = self.solver.model().eval(si.e, model_completion=True).as_long()
                    vals.append(v)
                    self.solver.add(si.e != v)
            finally:
                self.solver.pop()
            if len(vals) > limit:
                raise Escape('symx: unbounded symbolic integer needed as a concrete value')
            if not vals:
                raise Infeasible()
            vals.sort()
            v = vals[0]
            for alt in vals[1:]:
                self.pending.append(self.new_trace + [alt])
        self.pos += 1
        self.new_trace.append(v)
        self.solver.add(si.e == v)
        self.pc.append(('z3', si.e == v))
        return v

    def sint_to_snum(self, si):
        from .snum import SNum

        e = si.e
        if z3.is_const(e) and e.decl().kind() == z3.Z3_OP_UNINTERPRETED:
            return SNum.var(str(e))
        key = ('sint', e.get_id())
        if key not in self.atoms:
            name = self.fresh('iv')
            zv = self._declare(name, 'int', None, None)
            self.solver.add(zv == e)
            self.atom_defs.append(('z3', zv == e))
            self.atoms[key] = SNum.var(name)
        return self.atoms[key]

    # ---- atoms -----------------------------------------------------------------
    def _atom_key(self, kind, s):
        return (kind, tuple(sorted((k, v) for k, v in s.t.items())))

    def _add_def(self, cond):
        from .sint import SBool

        if isinstance(cond, SBool):
            cond = cond.c
        if isinstance(cond, bool):
            return
        self.atom_defs.append(cond)
        self.solver.add(self.enc.cond(cond))
        self._sync_side()

    def atom_sqrt(self, s):
        from .snum import SNum

        k = self._atom_key('sqrt', s)
        if k in self.atoms:
            return self.atoms[k]
        if not s.is_syntactically_real():
            raise Escape('symx: sqrt of a complex symbolic value')
        name = self.fresh('sqrt')
        self._declare(name, 'real', 0, None)
        r = SNum.var(name)
        self.atoms[k] = r
        if not hasattr(self, 'sqrt_args'):
            self.sqrt_args = {}
        self._add_def(SNum({(((name, 2),), ()): 1 + 0j}) == s)
        self.sqrt_args[name] = s
        return r

    def atom_reciprocal(self, s):
        from .snum import SNum

        k = self._atom_key('recip', s)
        if k in self.atoms:
            return self.atoms[k]
        if not s.is_syntactically_real():
            n2 = s * s.conjugate()
            return s.conjugate() * n2.reciprocal()
        if bool(s == 0):
            raise ZeroDivisionError('symx: division by a symbolic value that can be zero')
        name = self.fresh('inv')
        self._declare(name, 'real', None, None)
        r = SNum.var(name)
        self.atoms[k] = r
        if not hasattr(self, 'inv_args'):
            self.inv_args = {}
        self.inv_args[name] = s
        self._add_def((r * s) == 1)
        return r

    def atom_abs(self, s):
        from .snum import SNum

        k = self._atom_key('abs', s)
        if k in self.atoms:
            return self.atoms[k]
        if not s.is_syntactically_real():
            return (s * s.conjugate()).sqrt()
        name = self.fresh('abs')
        self._declare(name, 'real', 0, None)
        r = SNum.var(name)
        self.atoms[k] = r
        from .sint import SBool
        from .cond import c_or

        a, b = (r == s), (r == -s)
        ca = a.c if isinstance(a, SBool) else a
        cb = b.c if isinstance(b, SBool) else b
        self._add_def(c_or(ca, cb))
        return r

    def atom_floor(self, s):
        from .sint import SInt
        from .snum import SNum

        k = self._atom_key('floor', s)
        if k in self.atoms:
            return self.atoms[k]
        if not s.is_syntactically_real():
            raise Escape('symx: floor of complex')
        name = self.fresh('fl')
        zv = self._declare(name, 'int', None, None)
        kv = SNum.var(name)
        self._add_def(kv <= s)
        self._add_def(s < kv + 1)
        r = SInt(zv)
        self.atoms[k] = r
        return r

    # ---- assertions (VCs) ------------------------------------------------------
    def close(self, a, b, tol=1e-7, label=''):
        from .vc import check_close, _flatten

        if getattr(self, 'record_terms', False):
            from .snum import SNum

            self.term_log.append((label, [SNum.coerce(x) for x in _flatten(a)[1]]))
        check_close(self, a, b, tol, label)

    def check(self, cond, label=''):
        from .vc import check_cond

        check_cond(self, cond, label)

    def note(self, s):
        self.notes.append(s)


def _rv(x, kind):
    if kind == 'int':
        return z3.IntVal(int(x))
    from fractions import Fraction

    f = Fraction(x)
    return z3.RealVal(f'{f.numerator}/{f.denominator}')


class ConcreteCtx:
    """Replay / translator-validation context: plain Python numbers, real numpy, no shims."""

    mode = 'concrete'

    def __init__(self, model: Dict[str, Any], opts=None):
        self.model = model
        self.vars: Dict[str, dict] = {}
        self.failures: List[str] = []
        self.opts = opts or {}
        self.stats = PathStats()
        self.prng_log: List[Any] = []
        self.notes: List[str] = []
        self.used_default = []
        self.value_log = []

    def _get(self, name, default, lo=None, hi=None, kind='real'):
        if name in self.model:
            return self.model[name]
        self.used_default.append(name)
        if self.opts.get('auto_fill') and kind in ('real', 'int'):
            # deterministic pseudo-random value inside the box (translator-validation points)
            import zlib

            h = zlib.crc32((name + '|' + str(self.opts.get('auto_fill'))).encode()) / 0xFFFFFFFF
            a = -2.0 if lo is None else float(lo)
            b = 2.0 if hi is None else float(hi)
            v = a + (b - a) * h
            return round(v) if kind == 'int' else round(v, 3)
        return default

    def real(self, name, lo=None, hi=None):
        d = 0.0 if (lo is None or lo <= 0) and (hi is None or hi >= 0) else (lo if lo is not None else hi)
        v = float(self._get(name, d, lo, hi, 'real'))
        self.vars[name] = {'kind': 'real', 'value': v}
        return v

    def int(self, name, lo=None, hi=None):
        d = 0 if (lo is None or lo <= 0) and (hi is None or hi >= 0) else (lo if lo is not None else hi)
        v = int(self._get(name, d, lo, hi, 'int'))
        self.vars[name] = {'kind': 'int', 'value': v}
        return v

    def bool(self, name):
        v = bool(self._get(name, False))
        self.vars[name] = {'kind': 'bool', 'value': v}
        return v

    def choose(self, name, n):
        v = int(self._get('choose:' + name, 0))
        if not 0 <= v < n:
            v = 0
        self.vars['choose:' + name] = {'kind': 'choice', 'value': v}
        return v

    def assume(self, cond, check=True):
        if not bool(cond):
            raise Infeasible()

    def close(self, a, b, tol=1e-7, label=''):
        import numpy as np

        a = np.asarray(a, dtype=complex)
        b = np.asarray(b, dtype=complex)
        self.value_log.append((label, [complex(v) for v in a.ravel()]))
        if a.shape != b.shape:
            self.failures.append(f'{label}: shape {a.shape} != {b.shape}')
            return
        if a.size and not np.all(np.abs(a - b) <= tol):
            i = int(np.argmax(np.abs(a - b)))
            self.failures.append(
                f'{label}: max |a-b| = {float(np.max(np.abs(a - b))):.3g} > {tol} at flat index {i}: '
                f'got {a.ravel()[i]:.6g} expected {b.ravel()[i]:.6g}'
            )

    def check(self, cond, label=''):
        if not bool(cond):
            self.failures.append(f'{label}: condition is false')

    def note(self, s):
        self.notes.append(s)

"""Tolerance comparisons of the code under test:  `abs(x) <= tol`  /  `isclose(x, y)`.

The VC back end turns *syntactic* linear equalities of the path condition into substitutions
("pins", symx.vc._pins) so that e.g. `exponent == 1` makes cos(pi*exponent/2) collapse.  Code that
decides with a tolerance (`abs(canonicalize_half_turns(p)) <= atol`, `np.isclose(n, np.round(n))`)
leaves no such equality in the path condition, and the encoding has no Lipschitz reasoning for the
unit-circle abstraction, so these paths would end "inconclusive".

`settle(cx)` is called by a harness right before its assertions.  For every |s| atom created on the
path and every path-condition literal of the form   c*|s| <= tiny   (tiny: constant <= 1e-6 plus
<= 1e-4 * other |.| atoms, i.e. an absolute/relative tolerance) taken on its TRUE side it

  * adds  s == 0  as an ASSUMPTION when tiny > 0  ("tolerance sliver excluded": inputs for which
    the compared quantity is inside the code's tolerance but not exactly at the special value are
    outside the claim; recorded in cx.notes and stated in the bounds of the check), or
  * adds  s == 0  as a derived fact when the literal is `|s| <= 0` (then it is implied).

Homogeneous squares  (a*v + b*w)^2 <= eps^2  produced by the numpy proxy for isclose(x, const) are
treated the same way.  Nothing in symx core is modified; the added literal is an ordinary 'eq'
condition in cx.pc, which the existing pin machinery picks up.
"""
from __future__ import annotations

import itertools
import math

from .snum import SNum

TINY_CONST = 1e-6
TINY_REL = 1e-4


def _atom_expr(key):
    return SNum(dict(key[1]))


def _abs_atoms(cx):
    out = {}
    for key, var in cx.atoms.items():
        if isinstance(key, tuple) and key and key[0] == 'abs' and isinstance(var, SNum):
            ((mono, _ang), _c), = var.t.items()
            out[mono[0][0]] = _atom_expr(key)
    return out


def _sqrt_atoms(cx):
    """|z| of a complex z is represented as sqrt(z*conj(z)): name -> radicand"""
    out = {}
    for key, var in cx.atoms.items():
        if isinstance(key, tuple) and key and key[0] == 'sqrt' and isinstance(var, SNum):
            ((mono, _ang), _c), = var.t.items()
            out[mono[0][0]] = _atom_expr(key)
    return out


def _single_var(mono):
    return len(mono) == 1 and mono[0][1] == 1


def _match_abs_le(d, absn):
    """d <= 0 (or < 0) with d = c*A - tiny: returns list of atom names A with positive coefficient if
    everything else is a tolerance, else None"""
    pos = []
    for (mono, ang), co in d.t.items():
        if ang or abs(co.imag) > 0:
            return None
        c = co.real
        if not mono:
            if c > 0 or c < -TINY_CONST:
                return None
            continue
        if not _single_var(mono) or mono[0][0] not in absn:
            return None
        if c > 0:
            pos.append((mono[0][0], c))
        elif c < -TINY_REL:
            return None
    if not pos:
        return None
    cmin = min(c for _, c in pos)
    if cmin < 0.01:  # the compared quantity itself must not be scaled down to tolerance level
        return None
    return [n for n, _ in pos]


def _match_square_le(d):
    """d = L^2 - eps^2 with L a real homogeneous linear form: returns L or None"""
    c0 = d.t.get(((), ()), 0j)
    if c0.imag != 0 or c0.real > 0 or c0.real < -TINY_CONST:
        return None
    quad = {}
    names = set()
    for (mono, ang), co in d.t.items():
        if not mono:
            continue
        if ang or abs(co.imag) > 0:
            return None
        deg = sum(p for _, p in mono)
        if deg != 2:
            return None
        quad[mono] = co.real
        for n, _ in mono:
            names.add(n)
    if not quad or len(names) > 3:
        return None
    names = sorted(names)
    diag = {}
    for n in names:
        a = quad.get(((n, 2),), 0.0)
        if a <= 0:
            return None
        diag[n] = math.sqrt(a)
    for signs in itertools.product((1, -1), repeat=len(names) - 1):
        L = SNum({})
        for n, s in zip(names, (1,) + signs):
            L = L + SNum.var(n) * (s * diag[n])
        r = L * L
        diff = r - (d - SNum.const(c0))
        if diff.max_abs_coef() <= 1e-12:
            return L
    return None


def settle(cx):
    """see module docstring; no-op in concrete mode"""
    if getattr(cx, 'mode', 'sym') != 'sym':
        return
    done = getattr(cx, '_slivers_done', None)
    if done is None:
        done = cx._slivers_done = set()
    absn = _abs_atoms(cx)
    sq = _sqrt_atoms(cx)
    absn.update(sq)
    for c in list(cx.pc):
        if not (isinstance(c, tuple) and c[0] == 'cmp' and c[1] in ('le', 'lt')):
            continue
        if id(c) in done:
            continue
        done.add(id(c))
        d = c[2]
        names = _match_abs_le(d, absn) if absn else None
        if names:
            for n in names:
                s = absn[n]
                eq = s == 0
                if isinstance(eq, bool):
                    continue
                cx.assume(eq)
                cx.notes.append('tolerance sliver excluded / derived: ' + repr(s)[:80] + ' == 0')
            continue
        L = _match_square_le(d)
        if L is not None:
            eq = L == 0
            if not isinstance(eq, bool):
                cx.assume(eq)
                cx.notes.append('tolerance sliver excluded (isclose): ' + repr(L)[:80] + ' == 0')

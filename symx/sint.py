"""SBool / SInt: symbolic Booleans and (unbounded, mathematical) integers.

SBool wraps a condition AST (symx.cond).  bool(SBool) asks the explorer, which forks.
SInt wraps a z3 Int term.  int()/index() of an SInt forks over its feasible values (bounded).
Neither is a subclass of bool/int: anything reaching a C boundary raises TypeError.
"""
from __future__ import annotations

import numbers

import z3

from . import ctx as _ctx
from .cond import c_and, c_not, c_or, c_xor


def _as_cond(x):
    if isinstance(x, SBool):
        return x.c
    if isinstance(x, (bool,)):
        return bool(x)
    import numpy as np

    if isinstance(x, np.bool_):
        return bool(x)
    if isinstance(x, (int, np.integer)) and x in (0, 1):
        return bool(x)
    return None


def mk_bool(c):
    # always wrapped: object arrays of bits must never contain Python bools (~True == -2)
    return SBool(c)


class SBool:
    __slots__ = ('c',)

    def __init__(self, c):
        self.c = c

    @staticmethod
    def z3(e):
        e = z3.simplify(e) if False else e
        if z3.is_true(e):
            return True
        if z3.is_false(e):
            return False
        return SBool(('z3', e))

    def __bool__(self):
        if isinstance(self.c, bool):
            return self.c
        return _ctx.cur().decide(self.c)

    def is_const(self):
        return isinstance(self.c, bool)

    def __invert__(self):
        return mk_bool(c_not(self.c))

    def logical_not(self):
        return mk_bool(c_not(self.c))

    def __and__(self, o):
        oc = _as_cond(o)
        if oc is None:
            return NotImplemented
        return mk_bool(c_and(self.c, oc))

    __rand__ = __and__

    def __or__(self, o):
        oc = _as_cond(o)
        if oc is None:
            return NotImplemented
        return mk_bool(c_or(self.c, oc))

    __ror__ = __or__

    def __xor__(self, o):
        oc = _as_cond(o)
        if oc is None:
            return NotImplemented
        return mk_bool(c_xor(self.c, oc))

    __rxor__ = __xor__

    def __eq__(self, o):
        oc = _as_cond(o)
        if oc is None:
            return NotImplemented
        return mk_bool(c_not(c_xor(self.c, oc)))

    def __ne__(self, o):
        oc = _as_cond(o)
        if oc is None:
            return NotImplemented
        return mk_bool(c_xor(self.c, oc))

    def __hash__(self):
        return hash(bool(self))

    def __int__(self):
        return 1 if bool(self) else 0

    __index__ = __int__

    def __rpow__(self, base):
        """base ** bit  ==  base if bit else 1"""
        if isinstance(self.c, bool):
            return base ** int(self.c)
        if isinstance(base, int) and not isinstance(base, bool):
            return SInt(z3.If(self.to_z3(), z3.IntVal(base), z3.IntVal(1)))
        return self.to_sint().to_snum().__rpow__(base)

    def to_z3(self):
        if isinstance(self.c, bool):
            return z3.BoolVal(self.c)
        return _ctx.cur().enc.cond(self.c)

    def to_sint(self):
        return SInt(z3.If(self.to_z3(), z3.IntVal(1), z3.IntVal(0)))

    # arithmetic on bools (sum of bits etc.)
    def __add__(self, o):
        return self.to_sint() + o

    __radd__ = __add__

    def __sub__(self, o):
        return self.to_sint() - o

    def __rsub__(self, o):
        return o - self.to_sint()

    def __mul__(self, o):
        return self.to_sint() * o

    __rmul__ = __mul__

    def __int__(self):
        return 1 if bool(self) else 0

    __index__ = __int__

    def __repr__(self):
        from .cond import c_repr

        return f'SBool({c_repr(self.c)})'


def _as_int_term(x):
    import numpy as np

    if isinstance(x, SInt):
        return x.e
    if isinstance(x, (bool, np.bool_)):
        return z3.IntVal(int(x))
    if isinstance(x, (int, np.integer)):
        return z3.IntVal(int(x))
    if isinstance(x, SBool):
        return x.to_sint().e
    if isinstance(x, float) and x.is_integer():
        return None  # floats go through SNum
    return None


class SInt:
    __slots__ = ('e',)

    def __init__(self, e):
        self.e = e

    @staticmethod
    def lift(e):
        e2 = z3.simplify(e)
        if z3.is_int_value(e2):
            return e2.as_long()
        return SInt(e)

    def concrete(self):
        e2 = z3.simplify(self.e)
        return e2.as_long() if z3.is_int_value(e2) else None

    def to_snum(self):
        return _ctx.cur().sint_to_snum(self)

    def _bin(self, o, f, swap=False):
        t = _as_int_term(o)
        if t is None:
            from .snum import SNum

            s = SNum.coerce(o) if not isinstance(o, (SInt, SBool)) else None
            if s is None:
                return NotImplemented
            return None  # signal: go via SNum
        return SInt.lift(f(t, self.e) if swap else f(self.e, t))

    def _arith(self, o, f, snum_f, swap=False):
        r = self._bin(o, f, swap)
        if r is None:
            from .snum import SNum

            a, b = self.to_snum(), SNum.coerce(o)
            return snum_f(b, a) if swap else snum_f(a, b)
        return r

    def __add__(self, o):
        return self._arith(o, lambda a, b: a + b, lambda a, b: a + b)

    def __radd__(self, o):
        return self._arith(o, lambda a, b: a + b, lambda a, b: a + b, swap=True)

    def __sub__(self, o):
        return self._arith(o, lambda a, b: a - b, lambda a, b: a - b)

    def __rsub__(self, o):
        return self._arith(o, lambda a, b: a - b, lambda a, b: a - b, swap=True)

    def __mul__(self, o):
        return self._arith(o, lambda a, b: a * b, lambda a, b: a * b)

    def __rmul__(self, o):
        return self._arith(o, lambda a, b: a * b, lambda a, b: a * b, swap=True)

    def __neg__(self):
        return SInt.lift(-self.e)

    def __pos__(self):
        return self

    def __abs__(self):
        return SInt.lift(z3.If(self.e >= 0, self.e, -self.e))

    def __truediv__(self, o):
        from .snum import SNum

        return self.to_snum() / SNum.coerce(o)

    def __rtruediv__(self, o):
        from .snum import SNum

        return SNum.coerce(o) / self.to_snum()

    # Python floor semantics: for positive constant divisor z3 div/mod coincide with // and %.
    def _divmod_const(self, o):
        if isinstance(o, SInt):
            c = o.concrete()
            if c is None:
                # fork on sign of divisor is not needed by any harness: refuse loudly
                raise TypeError('symx: SInt // symbolic divisor')
            o = c
        import numpy as np

        if not isinstance(o, (int, np.integer)) or isinstance(o, bool):
            raise TypeError('symx: SInt //,% non-int')
        o = int(o)
        if o == 0:
            raise ZeroDivisionError
        return o

    def __floordiv__(self, o):
        o = self._divmod_const(o)
        if o > 0:
            return SInt.lift(self.e / o)
        return SInt.lift((-self.e) / (-o))

    def __mod__(self, o):
        o = self._divmod_const(o)
        if o > 0:
            return SInt.lift(self.e % o)
        return SInt.lift(-((-self.e) % (-o)))

    def __rmod__(self, o):
        raise TypeError('symx: const % SInt')

    def __divmod__(self, o):
        return self // o, self % o

    def __rshift__(self, k):
        if isinstance(k, SInt):
            k = k.concrete_or_fork()
        return self // (1 << int(k))

    def __lshift__(self, k):
        if isinstance(k, SInt):
            k = k.concrete_or_fork()
        return self * (1 << int(k))

    def __rlshift__(self, o):
        k = self.concrete_or_fork()
        return o << k

    def __rrshift__(self, o):
        k = self.concrete_or_fork()
        return o >> k

    def __and__(self, o):
        # only & with (2^k - 1) masks and single-bit tests are needed; general & forks
        import numpy as np

        if isinstance(o, (int, np.integer)) and o >= 0 and (o + 1) & o == 0:
            return self % (int(o) + 1)
        if isinstance(o, (int, np.integer)) and o > 0 and o & (o - 1) == 0:
            return ((self // int(o)) % 2) * int(o)
        return self.concrete_or_fork() & (o.concrete_or_fork() if isinstance(o, SInt) else o)

    __rand__ = __and__

    def __xor__(self, o):
        return self.concrete_or_fork() ^ (o.concrete_or_fork() if isinstance(o, SInt) else o)

    __rxor__ = __xor__

    def __or__(self, o):
        return self.concrete_or_fork() | (o.concrete_or_fork() if isinstance(o, SInt) else o)

    __ror__ = __or__

    def __pow__(self, p):
        if isinstance(p, int) and p >= 0:
            r = 1
            for _ in range(p):
                r = r * self
            return r
        return self.to_snum() ** p

    def __rpow__(self, base):
        return self.to_snum().__rpow__(base)

    def _cmp(self, o, f, snum_op, swap=False):
        t = _as_int_term(o)
        if t is None:
            from .snum import SNum

            s = SNum.coerce(o)
            if s is None:
                return NotImplemented
            a = self.to_snum()
            return getattr(a, snum_op)(s)
        return SBool.z3(z3.simplify(f(self.e, t)))

    def __lt__(self, o):
        return self._cmp(o, lambda a, b: a < b, '__lt__')

    def __le__(self, o):
        return self._cmp(o, lambda a, b: a <= b, '__le__')

    def __gt__(self, o):
        return self._cmp(o, lambda a, b: a > b, '__gt__')

    def __ge__(self, o):
        return self._cmp(o, lambda a, b: a >= b, '__ge__')

    def __eq__(self, o):
        if o is None:
            return False
        return self._cmp(o, lambda a, b: a == b, '__eq__')

    def __ne__(self, o):
        if o is None:
            return True
        return self._cmp(o, lambda a, b: a != b, '__ne__')

    def __bool__(self):
        return bool(self != 0)

    def concrete_or_fork(self) -> int:
        c = self.concrete()
        if c is not None:
            return c
        return _ctx.cur().concretize_int(self)

    def __int__(self):
        return self.concrete_or_fork()

    __index__ = __int__

    def __hash__(self):
        return hash(self.concrete_or_fork())

    def __float__(self):
        c = self.concrete()
        if c is not None:
            return float(c)
        raise TypeError('symx: float() of a symbolic integer would concretise')

    def __repr__(self):
        s = str(self.e)
        return f'SInt({s if len(s) < 120 else s[:120] + "..."})'


numbers.Integral.register(SInt)

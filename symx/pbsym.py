"""Symbolic scalars inside protobuf messages of the PURE-PYTHON protobuf backend (harness side).

With PROTOCOL_BUFFERS_PYTHON_IMPLEMENTATION=python every scalar store of a message goes through a Python
type checker object (google/protobuf/internal/type_checkers.py).  `install()` replaces the `CheckValue`
methods of those checker classes (in the symbolic worker processes only) by versions that

* behave EXACTLY as the original for every ordinary Python value (concrete mode, replays and the
  concrete validation points never see a difference: the original method is called), and
* for a symbolic scalar (symx SInt / SBool / SNum) store a symbolic value that models what the real
  checker would have stored:

  int32/int64/uint32/uint64   the same integer; the range check of the real checker is executed on the
                              symbolic value (out of range -> ValueError as in the real checker); a symbolic
                              REAL offered to an integer field raises TypeError like a float does
  bool                        bool(v): SBool unchanged, SInt -> (v != 0)
  double                      the same real number (exact real arithmetic: the rounding of IEEE doubles is
                              the stated model gap of DESIGN.md section 3)
  float (float32)             round-to-nearest single precision, modelled by
                                  stored = x * (1 + e),   |e| <= 2**-24
                              with a fresh solver variable e per store (standard model of IEEE-754 rounding:
                              relative error <= u = 2**-24; it covers x = 0 and the whole NORMAL range
                              2**-126 <= |x| < 2**128; non-zero values of magnitude below 2**-126 (subnormal
                              results, absolute error up to 2**-150) are OUTSIDE the claim); for a symbolic
                              INTEGER with |x| <= 2**24 the value is stored exactly (every such integer is a
                              float32), decided by a fork; |x| must stay below the float32 overflow threshold
                              (checked: escape otherwise); `monotone_at(c, ...)` adds the monotonicity of
                              rounding at float32-representable constants (x <= c => fl(x) <= c, x >= c =>
                              fl(x) >= c) where the code under test validates a range (probabilities in [0,1])

Everything else in the message classes (oneof bookkeeping, presence, implicit-presence clearing of default
values, repeated and map containers, MergeFrom / CopyFrom, WhichOneof / HasField) is the unmodified
pure-Python protobuf runtime, which only moves the stored Python objects around.  Wire encoding
(SerializeToString) of a message that holds symbolic values fails loudly (struct.pack TypeError).
"""
from __future__ import annotations

import os
import sys

U32 = 2.0**-24  # unit roundoff of binary32
TINY32 = 2.0**-150  # half of the smallest subnormal of binary32
F32_EXACT_INT = 1 << 24

_installed = []


def ensure_python_backend():
    """must run before google.protobuf is imported; returns the active backend name"""
    if 'google.protobuf' not in sys.modules and 'google.protobuf.internal.api_implementation' not in sys.modules:
        os.environ['PROTOCOL_BUFFERS_PYTHON_IMPLEMENTATION'] = 'python'
    from google.protobuf.internal import api_implementation

    return api_implementation.Type()


def backend():
    from google.protobuf.internal import api_implementation

    return api_implementation.Type()


def f32_model(x):
    """symbolic model of rounding the real x to single precision (see module docstring)"""
    from . import ctx as C
    from .ctx import Escape
    from .sint import SInt
    from .snum import SNum

    cx = C.cur()
    if isinstance(x, SInt):
        if bool((x >= -F32_EXACT_INT) & (x <= F32_EXACT_INT)):
            return x
        x = x.to_snum()
    if not isinstance(x, SNum):
        raise TypeError('symx: f32_model of a non-symbolic value')
    if not x.is_const() and _int_valued(cx, x):
        # float(symbolic int) is an integer-valued polynomial of integer variables
        if bool((x >= -F32_EXACT_INT) & (x <= F32_EXACT_INT)):
            return x
    if x.is_const():
        import struct

        return struct.unpack('<f', struct.pack('<f', float(x)))[0]
    if not x.is_syntactically_real():
        raise Escape('symx: complex symbolic value offered to a float32 field')
    # overflow guard: the box of every monomial must keep |x| far below 3.4e38
    from .vc import _mono_bound

    tot = 0.0
    for (mono, ang), co in x.t.items():
        b = _mono_bound(cx, mono)
        if b is None:
            # unbounded variable: decide |x| < 2**100 by the solver (fork; the overflow side escapes)
            if not bool((x < 2.0**100) & (x > -(2.0**100))):
                raise Escape('symx: symbolic value may overflow float32')
            tot = 0.0
            break
        tot += abs(co) * max(abs(b[0]), abs(b[1]))
    if tot > 1e30:
        raise Escape('symx: symbolic value may overflow float32')
    ename = cx.fresh('f32e')
    e = cx.real(ename, -U32, U32)
    # registered as an atom: the translator validation (which evaluates path conditions at concrete points) skips
    # paths that hold internal variables it has no value for
    cx.atoms[('f32', ename)] = e
    r = x * (1 + e)
    # rounding is monotone and exact on representable numbers: for the float32 constants c the harness names
    # (monotone_at), x <= c => fl(x) <= c and x >= c => fl(x) >= c are TRUE facts added to the path
    for c in _LEMMA_CONSTS:
        cx._add_def(~(x <= c) | (r <= c))
        cx._add_def(~(x >= c) | (r >= c))
    return r


_LEMMA_CONSTS: list = []


class monotone_at:
    """with monotone_at(1.0): ...   adds, for every float32 store inside the block, the monotonicity facts of
    IEEE rounding at the given constants (which must be exactly representable in binary32)"""

    def __init__(self, *consts):
        import struct

        for c in consts:
            assert struct.unpack('<f', struct.pack('<f', c))[0] == c, 'monotone_at: constant is not a float32'
        self.consts = list(consts)

    def __enter__(self):
        _LEMMA_CONSTS.extend(self.consts)
        return self

    def __exit__(self, *a):
        del _LEMMA_CONSTS[len(_LEMMA_CONSTS) - len(self.consts) :]
        return False


def _int_valued(cx, x):
    for (mono, ang), co in x.t.items():
        if ang or co.imag != 0 or not float(co.real).is_integer():
            return False
        for n, _p in mono:
            if cx.vars.get(n, {}).get('kind') != 'int':
                return False
    return True


def install():
    """patch the checker classes (idempotent); returns the list of stubs for the evidence file"""
    if _installed:
        return list(_installed)
    if backend() != 'python':
        raise RuntimeError('symx.pbsym: protobuf backend is not pure Python: symbolic values cannot enter messages')
    from google.protobuf.internal import type_checkers as T

    from .sint import SBool, SInt
    from .snum import SNum

    SYM = (SInt, SBool, SNum)

    int_orig = T.IntValueChecker.CheckValue

    def int_check(self, v):
        if isinstance(v, SYM):
            if isinstance(v, SBool):
                v = v.to_sint()
            if isinstance(v, SNum):
                if v.is_const() and v.const_value().imag == 0 and float(v.const_value().real).is_integer():
                    return int_orig(self, int(v.const_value().real))
                raise TypeError(f'{v!r} has type symbolic real, but expected one of: int')
            if not bool((v >= self._MIN) & (v <= self._MAX)):
                raise ValueError('Value out of range: symbolic integer')
            return v
        return int_orig(self, v)

    T.IntValueChecker.CheckValue = int_check

    bool_orig = T.BoolValueChecker.CheckValue

    def bool_check(self, v):
        if isinstance(v, SYM):
            if isinstance(v, SBool):
                return v
            if isinstance(v, SInt):
                return v != 0
            raise TypeError(f'{v!r} has type symbolic real, but expected one of: bool, int')
        return bool_orig(self, v)

    T.BoolValueChecker.CheckValue = bool_check

    dbl_orig = T.DoubleValueChecker.CheckValue

    def dbl_check(self, v):
        if isinstance(v, SYM):
            if isinstance(v, SBool):
                v = v.to_sint()
            if isinstance(v, SNum) and v.is_const():
                return dbl_orig(self, float(v))
            return v
        return dbl_orig(self, v)

    T.DoubleValueChecker.CheckValue = dbl_check

    flt_orig = T.FloatValueChecker.CheckValue

    def flt_check(self, v):
        if isinstance(v, SYM):
            if isinstance(v, SBool):
                v = v.to_sint()
            r = f32_model(v)
            return r
        return flt_orig(self, v)

    T.FloatValueChecker.CheckValue = flt_check

    from google.protobuf.internal import decoder as D

    isdef_orig = D.IsDefaultScalarValue

    def is_default(value):
        if isinstance(value, SYM):
            # implicit-presence fields are cleared when the stored value equals the default 0 / False
            # (the real function also keeps -0.0, which does not exist in the real-number model)
            if isinstance(value, SBool):
                return not bool(value)
            return bool(value == 0)
        return isdef_orig(value)

    D.IsDefaultScalarValue = is_default

    _installed.extend(
        [
            'protobuf decoder.IsDefaultScalarValue (implicit-presence clearing of proto3 scalars): for a symbolic value the decision value == 0 is taken by the solver (fork); -0.0 is not modelled',
            'protobuf(pure-Python backend) type_checkers.IntValueChecker.CheckValue: symbolic integers are range-checked symbolically and stored unchanged (original checker for concrete values)',
            'protobuf type_checkers.BoolValueChecker.CheckValue: symbolic Booleans stored unchanged, symbolic integers as (v != 0)',
            'protobuf type_checkers.DoubleValueChecker.CheckValue: symbolic reals stored unchanged (exact real arithmetic; double rounding is the stated model gap)',
            'protobuf type_checkers.FloatValueChecker.CheckValue: float32 rounding of a symbolic real x modelled as x*(1+e) with a fresh |e|<=2**-24 (x = 0 or normal range; subnormal results outside the claim), plus monotonicity of rounding at the float32 constants named by the harness; symbolic integers with |x|<=2**24 stored exactly; overflow range excluded (escape)',
        ]
    )
    return list(_installed)

"""Harness-side interposition: module-global `np`, `math`, `cmath` proxies and builtin shim types.

Installed ONLY inside symbolic worker processes, and only into the Cirq modules listed by a check
(recorded in evidence as stubs).  Every proxy function falls back to the real library when none of
its arguments carries symbolic data, so concrete computations inside Cirq are unchanged.
"""
from __future__ import annotations

import builtins
import cmath as _cmath
import importlib
import math as _math
import types

import numpy as _np

from .ctx import Escape
from .sint import SBool, SInt
from .snum import SNum

SYM = (SNum, SInt, SBool)


_DT = _np.ndarray.dtype


def isobj(a) -> bool:
    """true dtype of the buffer is object (SymArray reports a nominal complex128 dtype)"""
    return _DT.__get__(a) == object


def is_sym(x) -> bool:
    if isinstance(x, SYM):
        return True
    if isinstance(x, _np.ndarray):
        return isobj(x)
    if isinstance(x, (list, tuple)):
        return any(is_sym(e) for e in x)
    return False


def any_sym(*args) -> bool:
    return any(is_sym(a) for a in args)


# --------------------------------------------------------------------------------------------
# ndarray subclass giving object arrays complex semantics
# --------------------------------------------------------------------------------------------
class SymArray(_np.ndarray):
    """object ndarray holding symbolic scalars, presenting complex semantics: the Python-visible
    `.dtype` is the nominal complex128 (Cirq compares `state.dtype != dtype`), `.real/.imag/.astype`
    act element-wise on the symbolic entries."""

    __array_priority__ = 100.0

    @property
    def dtype(self):
        d = _DT.__get__(self)
        if d == object:
            return _np.dtype(_np.complex128)
        return d

    def astype(self, dtype, *a, **k):
        if isobj(self):
            dt = _np.dtype(dtype) if dtype is not object else _np.dtype(object)
            if dt.kind in 'fcO':
                return self.copy()
            if dt.kind in 'iub':
                out = _np.empty(self.shape, dtype=dt)
                flat = out.reshape(-1)
                for i, e in enumerate(self.reshape(-1)):
                    flat[i] = _concrete(e)
                return out
        return _np.ndarray.astype(self, dtype, *a, **k)

    @property
    def real(self):
        if isobj(self):
            return _vec(lambda e: _coerce(e).real, self)
        return _np.ndarray.real.__get__(self)

    @property
    def imag(self):
        if isobj(self):
            return _vec(lambda e: _coerce(e).imag, self)
        return _np.ndarray.imag.__get__(self)


def _concrete(e):
    if isinstance(e, SNum):
        if e.is_const():
            c = e.const_value()
            return c.real if c.imag == 0 else c
        raise TypeError('symx: symbolic entry needed as a concrete number')
    if isinstance(e, SInt):
        return int(e)
    if isinstance(e, SBool):
        return bool(e)
    return e


def _coerce(e):
    if isinstance(e, SNum):
        return e
    s = SNum.coerce(e)
    if s is None:
        raise Escape(f'symx: non-numeric object {type(e).__name__} in symbolic array')
    return s


def wrap(a):
    if isinstance(a, _np.ndarray) and isobj(a) and not isinstance(a, SymArray):
        return a.view(SymArray)
    return a


def _vec(f, a):
    a = _np.asarray(a, dtype=object)
    out = _np.empty(a.shape, dtype=object)
    of = out.reshape(-1)
    for i, e in enumerate(a.reshape(-1)):
        of[i] = f(e)
    return out.view(SymArray)


def obj_full(shape, value):
    out = _np.empty(shape, dtype=object)
    out.fill(value)
    return out.view(SymArray)


def to_obj(a):
    """numeric ndarray -> object SymArray of SNum constants"""
    a = _np.asarray(a)
    if isobj(a):
        return _vec(_coerce_keep, a)
    out = _np.empty(a.shape, dtype=object)
    of = out.reshape(-1)
    for i, e in enumerate(a.reshape(-1)):
        of[i] = SNum.const(complex(e))
    return out.view(SymArray)


def _coerce_keep(e):
    if isinstance(e, (SInt, SBool)):
        return e
    return _coerce(e)


_INEXACT = {_np.complex64, _np.complex128, _np.float32, _np.float64, complex, float, object}


def _is_inexact_dtype(dtype) -> bool:
    if dtype is None:
        return False
    try:
        if dtype in _INEXACT:
            return True
    except TypeError:
        pass
    if isinstance(dtype, (FloatShim.__class__, )):
        return False
    try:
        return _np.dtype(dtype).kind in 'fcO'
    except TypeError:
        return dtype in (FloatShim, ComplexShim)


def _real_dtype(dtype):
    if dtype is FloatShim:
        return builtins.float
    if dtype is ComplexShim:
        return builtins.complex
    if dtype is IntShim:
        return builtins.int
    return dtype


# --------------------------------------------------------------------------------------------
# numpy proxy
# --------------------------------------------------------------------------------------------
class NpProxy(types.ModuleType):
    """stands for the module-global `np` inside selected Cirq modules"""

    def __init__(self, sym_alloc=True):
        super().__init__('numpy')
        self._sym_alloc = sym_alloc
        self.linalg = LinalgProxy()

    def __getattr__(self, name):
        return getattr(_np, name)

    # ---- allocation ---------------------------------------------------------------
    def zeros(self, shape, dtype=float, **k):
        dtype = _real_dtype(dtype)
        if self._sym_alloc and _is_inexact_dtype(dtype):
            return obj_full(shape, SNum.const(0))
        return _np.zeros(shape, dtype=dtype, **k)

    def ones(self, shape, dtype=float, **k):
        dtype = _real_dtype(dtype)
        if self._sym_alloc and _is_inexact_dtype(dtype):
            return obj_full(shape, SNum.const(1))
        return _np.ones(shape, dtype=dtype, **k)

    def empty(self, shape, dtype=float, **k):
        dtype = _real_dtype(dtype)
        if self._sym_alloc and _is_inexact_dtype(dtype):
            return obj_full(shape, SNum.const(0))
        return _np.empty(shape, dtype=dtype, **k)

    def full(self, shape, fill_value, dtype=None, **k):
        dtype = _real_dtype(dtype)
        if is_sym(fill_value) or (self._sym_alloc and _is_inexact_dtype(dtype)):
            return obj_full(shape, _coerce_keep(fill_value))
        return _np.full(shape, fill_value, dtype=dtype, **k)

    def eye(self, N, M=None, k=0, dtype=float, **kw):
        dtype = _real_dtype(dtype)
        if self._sym_alloc and _is_inexact_dtype(dtype):
            return to_obj(_np.eye(N, M, k))
        return _np.eye(N, M, k, dtype=dtype, **kw)

    def identity(self, n, dtype=float):
        return self.eye(n, dtype=dtype)

    def zeros_like(self, a, dtype=None, **k):
        dtype = _real_dtype(dtype)
        if is_sym(a) and dtype is None or (self._sym_alloc and _is_inexact_dtype(dtype)):
            return obj_full(_np.shape(a), SNum.const(0))
        return _np.zeros_like(a, dtype=dtype, **k)

    def ones_like(self, a, dtype=None, **k):
        dtype = _real_dtype(dtype)
        if is_sym(a) and dtype is None or (self._sym_alloc and _is_inexact_dtype(dtype)):
            return obj_full(_np.shape(a), SNum.const(1))
        return _np.ones_like(a, dtype=dtype, **k)

    def empty_like(self, a, dtype=None, **k):
        return self.zeros_like(a, dtype=dtype)

    def array(self, obj, dtype=None, copy=True, **k):
        dtype = _real_dtype(dtype)
        if is_sym(obj) or (isinstance(obj, (list, tuple)) and _deep_sym(obj)):
            if dtype is not None and not _is_inexact_dtype(dtype):
                return _np.array(_deep_concrete(obj), dtype=dtype, **k)
            a = _np.array(obj, dtype=object, **k)
            return _vec(_coerce_keep, a)
        if self._sym_alloc and dtype is not None and _is_inexact_dtype(dtype) and dtype is not object:
            return to_obj(_np.array(obj, dtype=dtype, **k))
        return _np.array(obj, dtype=dtype, copy=copy, **k)

    def asarray(self, obj, dtype=None, **k):
        dtype = _real_dtype(dtype)
        if isinstance(obj, _np.ndarray) and isobj(obj):
            return wrap(obj)
        if is_sym(obj) or (isinstance(obj, (list, tuple)) and _deep_sym(obj)):
            return self.array(obj, dtype=dtype)
        if self._sym_alloc and dtype is not None and _is_inexact_dtype(dtype) and dtype is not object:
            return to_obj(_np.asarray(obj, dtype=dtype, **k))
        return _np.asarray(obj, dtype=dtype, **k)

    asanyarray = asarray

    def copy(self, a, **k):
        return wrap(_np.copy(a, **k))

    def copyto(self, dst, src, **k):
        if isinstance(dst, _np.ndarray) and not isobj(dst) and is_sym(src):
            raise Escape('symx: copyto of symbolic data into a numeric buffer')
        if isinstance(dst, _np.ndarray) and isobj(dst) and not is_sym(src):
            src = to_obj(src)
        return _np.copyto(dst, src, **k)

    # ---- dtype queries ------------------------------------------------------------
    def dtype(self, x, *a, **k):
        x = _real_dtype(x)
        if x is object or (isinstance(x, _np.dtype) and x == object):
            return _np.dtype(_np.complex128)
        return _np.dtype(x, *a, **k)

    def finfo(self, x):
        x = _real_dtype(x)
        if x is object or (isinstance(x, _np.dtype) and x == object):
            return _np.finfo(_np.complex128)
        return _np.finfo(x)

    def can_cast(self, a, b, *r, **k):
        a, b = _real_dtype(a), _real_dtype(b)
        if isinstance(a, _np.dtype) and a == object or a is object:
            a = _np.complex128
        if isinstance(b, _np.dtype) and b == object or b is object:
            b = _np.complex128
        return _np.can_cast(a, b, *r, **k)

    def result_type(self, *args):
        args = [(_np.complex128 if (a is object or (isinstance(a, _np.dtype) and a == object)) else _real_dtype(a)) for a in args]
        args = [(_np.dtype(_np.complex128) if (isinstance(a, _np.ndarray) and isobj(a)) else a) for a in args]
        return _np.result_type(*args)

    def iscomplexobj(self, x):
        if is_sym(x):
            return True
        return _np.iscomplexobj(x)

    def isrealobj(self, x):
        return not self.iscomplexobj(x)

    # ---- elementwise math -----------------------------------------------------------
    def _ufunc1(name, meth, post=None):
        real = getattr(_np, name)

        def f(self, x, *a, **k):
            out = k.get('out', a[0] if a else None)
            if isinstance(out, tuple):
                out = out[0]
            if isinstance(x, SYM):
                return getattr(_coerce(x), meth)()
            if isinstance(x, _np.ndarray) and isobj(x):
                r = _vec(lambda e: getattr(_coerce(e), meth)(), x)
                if out is not None:  # in-place form, e.g. np.conjugate(t, out=t)
                    out[...] = r
                    return out
                return r
            if isinstance(x, (list, tuple)) and _deep_sym(x):
                return _vec(lambda e: getattr(_coerce(e), meth)(), _np.array(x, dtype=object))
            if out is not None and isinstance(out, _np.ndarray) and isobj(out):
                out[...] = to_obj(real(x))
                return out
            return real(x, *a, **k)

        f.__name__ = name
        return f

    exp = _ufunc1('exp', 'exp')
    cos = _ufunc1('cos', 'cos')
    sin = _ufunc1('sin', 'sin')
    sqrt = _ufunc1('sqrt', 'sqrt')
    conj = _ufunc1('conj', 'conjugate')
    conjugate = _ufunc1('conjugate', 'conjugate')
    abs = _ufunc1('abs', '__abs__')
    absolute = _ufunc1('absolute', '__abs__')
    floor = _ufunc1('floor', '__floor__')
    ceil = _ufunc1('ceil', '__ceil__')
    del _ufunc1

    def real(self, x):
        if isinstance(x, SYM):
            return _coerce(x).real
        if isinstance(x, _np.ndarray) and isobj(x):
            return _vec(lambda e: _coerce(e).real, x)
        return _np.real(x)

    def imag(self, x):
        if isinstance(x, SYM):
            return _coerce(x).imag
        if isinstance(x, _np.ndarray) and isobj(x):
            return _vec(lambda e: _coerce(e).imag, x)
        return _np.imag(x)

    def square(self, x):
        if is_sym(x):
            return x * x
        return _np.square(x)

    def angle(self, x, *a, **k):
        if is_sym(x):
            cx = _all_const(x)
            if cx is None:
                if not a and not k:
                    if isinstance(x, SNum):
                        return _angle_of_phase(x)
                    arr = _np.asarray(x, dtype=object)
                    if arr.ndim == 1:
                        res = _np.empty(arr.shape, dtype=object)
                        for i, e in enumerate(arr):
                            res[i] = _angle_of_phase(_coerce(e))
                        return wrap(res)
                raise Escape('symx: np.angle of a symbolic value (inverse trigonometric)')
            return _np.angle(cx, *a, **k)
        return _np.angle(x, *a, **k)

    def _inverse(name):
        real = getattr(_np, name)

        def f(self, x, *a, **k):
            if is_sym(x):
                cx = _all_const(x)
                if cx is None:
                    raise Escape(f'symx: np.{name} of a symbolic value')
                return real(cx.real if _np.all(_np.imag(cx) == 0) else cx, *a, **k)
            return real(x, *a, **k)

        return f

    arccos = _inverse('arccos')
    arcsin = _inverse('arcsin')
    arctan = _inverse('arctan')
    log = _inverse('log')
    log2 = _inverse('log2')
    sign = _inverse('sign')
    del _inverse

    def arctan2(self, y, x):
        if any_sym(y, x):
            raise Escape('symx: np.arctan2 of symbolic values')
        return _np.arctan2(y, x)

    def power(self, a, b):
        if any_sym(a, b):
            if isinstance(a, _np.ndarray) or isinstance(b, _np.ndarray):
                return wrap(_np.asarray(a, dtype=object) ** b) if not isinstance(b, _np.ndarray) else _vec2(lambda x, y: _coerce(x) ** y, a, b)
            return a**b
        return _np.power(a, b)

    float_power = power

    def mod(self, a, b):
        if any_sym(a, b):
            return a % b
        return _np.mod(a, b)

    def round(self, x, decimals=0):
        if is_sym(x):
            if isinstance(x, _np.ndarray):
                return _vec(lambda e: e if not isinstance(e, SNum) or not e.is_const() else SNum.const(_np.round(e.const_value(), decimals)), x) if _all_const(x) is not None else (_ for _ in ()).throw(Escape('symx: np.round of symbolic array'))
            if isinstance(x, SNum) and x.is_const():
                return _np.round(x.const_value().real, decimals)
            if decimals == 0:
                return builtins.round(x)
            raise Escape('symx: np.round(symbolic, decimals)')
        return _np.round(x, decimals)

    around = round

    # ---- predicates / comparisons -----------------------------------------------------
    def isclose(self, a, b, rtol=1e-05, atol=1e-08, equal_nan=False):
        if any_sym(a, b):
            return _vec2_or_scalar(lambda x, y: _isclose(x, y, rtol, atol), a, b)
        return _np.isclose(a, b, rtol=rtol, atol=atol, equal_nan=equal_nan)

    def allclose(self, a, b, rtol=1e-05, atol=1e-08, equal_nan=False):
        if any_sym(a, b):
            r = _vec2_or_scalar(lambda x, y: _isclose(x, y, rtol, atol), a, b)
            return _all(r)
        return _np.allclose(a, b, rtol=rtol, atol=atol, equal_nan=equal_nan)

    def array_equal(self, a, b, **k):
        if any_sym(a, b):
            if _np.shape(a) != _np.shape(b):
                return False
            return _all(_vec2_or_scalar(lambda x, y: x == y, a, b))
        return _np.array_equal(a, b, **k)

    def all(self, a, axis=None, **k):
        if is_sym(a) and axis is None:
            return _all(a)
        return _np.all(a, axis=axis, **k)

    def any(self, a, axis=None, **k):
        if is_sym(a) and axis is None:
            return _any(a)
        return _np.any(a, axis=axis, **k)

    def isnan(self, x):
        if is_sym(x):
            return _vec(lambda e: False, x) if isinstance(x, _np.ndarray) else False
        return _np.isnan(x)

    def isfinite(self, x):
        if is_sym(x):
            return _vec(lambda e: True, x) if isinstance(x, _np.ndarray) else True
        return _np.isfinite(x)

    def isscalar(self, x):
        if isinstance(x, SYM):
            return True
        return _np.isscalar(x)

    def iscomplex(self, x):
        if is_sym(x):
            return _vec2_or_scalar(lambda e, _z: _coerce(e).imag != 0, x, 0)
        return _np.iscomplex(x)

    def where(self, cond, *args):
        if is_sym(cond):
            if args:
                a, b = args
                return _vec2_or_scalar3(cond, a, b)
            flat = [bool(c) for c in _np.asarray(cond, dtype=object).reshape(-1)]
            return _np.where(_np.array(flat, dtype=bool).reshape(_np.shape(cond)))
        if args and any_sym(*args):
            a, b = args
            c = _np.asarray(cond, dtype=bool)
            A = _np.broadcast_to(_np.asarray(a, dtype=object), c.shape)
            B = _np.broadcast_to(_np.asarray(b, dtype=object), c.shape)
            out = _np.empty(c.shape, dtype=object)
            out[c] = A[c]
            out[~c] = B[~c]
            return wrap(out)
        return _np.where(cond, *args)

    def argmax(self, a, *r, **k):
        if is_sym(a):
            raise Escape('symx: argmax of symbolic data')
        return _np.argmax(a, *r, **k)

    def sort(self, a, *r, **k):
        """1-d symbolic data: insertion sort with real comparisons (each one is a fork decided by the solver)"""
        if is_sym(a):
            xs = list(_np.asarray(a, dtype=object).ravel())
            if r or k or _np.asarray(a, dtype=object).ndim != 1:
                raise Escape('symx: np.sort of symbolic data with options / ndim != 1')
            out = []
            for x in xs:
                i = len(out)
                while i > 0 and bool(x < out[i - 1]):
                    i -= 1
                out.insert(i, x)
            res = _np.empty(len(out), dtype=object)
            for i, x in enumerate(out):
                res[i] = x
            return wrap(res)
        return _np.sort(a, *r, **k)

    def max(self, a, *r, **k):
        if is_sym(a):
            raise Escape('symx: max of symbolic data')
        return _np.max(a, *r, **k)

    def min(self, a, *r, **k):
        if is_sym(a):
            raise Escape('symx: min of symbolic data')
        return _np.min(a, *r, **k)

    # ---- structural ops: real numpy does the work, results are re-wrapped ----------------
    def _structural(name):
        real = getattr(_np, name)

        def f(self, *a, **k):
            if 'dtype' in k:
                k['dtype'] = _real_dtype(k['dtype'])
                if any_sym(*a) and _is_inexact_dtype(k['dtype']):
                    k.pop('dtype')
            if 'out' in k and isinstance(k['out'], _np.ndarray) and isobj(k['out']):
                out = k.pop('out')
                r = real(*[_objify_if_mixed(x, a) for x in a], **k)
                out[...] = r
                return out
            if any_sym(*a):
                a = [_objify_if_mixed(x, a) for x in a]
            r = real(*a, **k)
            if isinstance(r, _np.ndarray):
                return wrap(r)
            if isinstance(r, (list, tuple)):
                return type(r)(wrap(x) for x in r)
            return r

        f.__name__ = name
        return f

    for _n in (
        'einsum', 'tensordot', 'dot', 'matmul', 'kron', 'outer', 'inner', 'vdot', 'sum', 'prod', 'trace',
        'transpose', 'moveaxis', 'swapaxes', 'reshape', 'ravel', 'concatenate', 'stack', 'hstack', 'vstack',
        'diag', 'diagonal', 'squeeze', 'expand_dims', 'broadcast_to', 'tile', 'repeat', 'roll', 'flip',
        'multiply', 'add', 'subtract', 'negative', 'divide', 'true_divide', 'cumsum', 'take', 'block',
        'split', 'array_split', 'atleast_1d', 'atleast_2d', 'triu', 'tril', 'append', 'delete', 'insert', 'mean',
    ):
        locals()[_n] = _structural(_n)
    del _structural, _n


def _objify_if_mixed(x, allargs):
    """float/complex ndarrays meeting symbolic ones are lifted to SNum constants (so that ufuncs like
    exp on results see uniform elements)"""
    return x


def _deep_sym(obj) -> bool:
    if isinstance(obj, SYM):
        return True
    if isinstance(obj, _np.ndarray):
        return isobj(obj)
    if isinstance(obj, (list, tuple)):
        return any(_deep_sym(e) for e in obj)
    return False


def _deep_concrete(obj):
    if isinstance(obj, (list, tuple)):
        return [_deep_concrete(e) for e in obj]
    if isinstance(obj, _np.ndarray) and isobj(obj):
        return [_deep_concrete(e) for e in obj]
    return _concrete(obj)


def _all_const(x):
    """complex ndarray/scalar if every entry is constant, else None"""
    if isinstance(x, SNum):
        return x.const_value() if x.is_const() else None
    if isinstance(x, (SInt,)):
        c = x.concrete()
        return c
    if isinstance(x, SBool):
        return None
    a = _np.asarray(x, dtype=object)
    out = _np.empty(a.shape, dtype=complex)
    of = out.reshape(-1)
    for i, e in enumerate(a.reshape(-1)):
        if isinstance(e, SNum):
            if not e.is_const():
                return None
            of[i] = e.const_value()
        elif isinstance(e, (SInt, SBool)):
            return None
        else:
            of[i] = e
    return out


def _isclose(x, y, rtol, atol):
    xs, ys = _coerce(x), _coerce(y)
    d = xs - ys
    if d.is_const() and ys.is_const():
        return bool(abs(d.const_value()) <= atol + rtol * abs(ys.const_value()))
    if ys.is_const() or not rtol:
        # |d| <= bound  <=>  d*conj(d) <= bound^2   (no abs/sqrt atom needed)
        bound = atol + (rtol * abs(ys.const_value()) if ys.is_const() else 0.0)
        return (d * d.conjugate()).real <= bound * bound
    bound = atol + rtol * abs(ys)
    return abs(d) <= bound


def _vec2(f, a, b):
    A = _np.asarray(a, dtype=object)
    B = _np.asarray(b, dtype=object)
    A, B = _np.broadcast_arrays(A, B)
    out = _np.empty(A.shape, dtype=object)
    of = out.reshape(-1)
    for i, (x, y) in enumerate(zip(A.reshape(-1), B.reshape(-1))):
        of[i] = f(x, y)
    return out.view(SymArray)


def _vec2_or_scalar(f, a, b):
    if not isinstance(a, (_np.ndarray, list, tuple)) and not isinstance(b, (_np.ndarray, list, tuple)):
        return f(a, b)
    return _vec2(f, a, b)


def _vec2_or_scalar3(cond, a, b):
    C = _np.asarray(cond, dtype=object)
    A = _np.asarray(a, dtype=object)
    B = _np.asarray(b, dtype=object)
    C, A, B = _np.broadcast_arrays(C, A, B)
    out = _np.empty(C.shape, dtype=object)
    of = out.reshape(-1)
    for i, (c, x, y) in enumerate(zip(C.reshape(-1), A.reshape(-1), B.reshape(-1))):
        of[i] = x if bool(c) else y
    return out.view(SymArray)


def _all(r):
    if isinstance(r, _np.ndarray):
        acc = True
        for e in r.reshape(-1):
            if isinstance(e, SBool):
                acc = acc & e if not isinstance(acc, bool) or acc else False
            elif isinstance(e, (SNum, SInt)):
                acc = acc & (e != 0) if not isinstance(acc, bool) or acc else False
            else:
                if not e:
                    return False
        return bool(acc)
    return bool(r)


def _any(r):
    if isinstance(r, _np.ndarray):
        acc = False
        for e in r.reshape(-1):
            if isinstance(e, SBool):
                acc = acc | e
            elif isinstance(e, (SNum, SInt)):
                acc = acc | (e != 0)
            else:
                if e:
                    return True
        return bool(acc)
    return bool(r)


def _angle_of_phase(x):
    """np.angle of  c * exp(i (pi L_pi + L_rad))  with c a non-zero constant and L_* real linear forms in the
    symbolic variables: the principal value  A - 2 pi floor((A + pi) / (2 pi)),  A = arg(c) + pi L_pi + L_rad
    (exact up to the convention at the branch cut, where numpy answers +pi and this model -pi: both are
    arguments of the same eigenvalue).  Anything else escapes."""
    import cmath as _cm
    import math as _m

    from . import ctx as _C

    if x.is_const():
        return _np.angle(x.const_value())
    p = x.pruned()
    if len(p.t) != 1:
        raise Escape('symx: np.angle of a symbolic value that is not a single phase (inverse trigonometric)')
    (mono, ang), c = next(iter(p.t.items()))
    if mono or not ang or c == 0:
        raise Escape('symx: np.angle of a symbolic value that is not a single phase (inverse trigonometric)')
    A = SNum.const(_cm.phase(c))
    for (m, unit), q in ang:
        A = A + SNum({(m, ()): complex(float(q) * (_m.pi if unit == 'pi' else 1.0))})
    cx = _C._CUR[0]
    if cx is None:
        raise Escape('symx: np.angle of a symbolic phase outside an exploration context')
    kf = cx.atom_floor((A + _m.pi) * (1.0 / (2 * _m.pi)))
    return A - cx.sint_to_snum(kf) * (2 * _m.pi)


def _diag_eigvals(a):
    """eigenvalues of a symbolic matrix that is syntactically diagonal: its diagonal (any other shape escapes)"""
    A = _np.asarray(a, dtype=object)
    if A.ndim != 2 or A.shape[0] != A.shape[1]:
        return None
    n = A.shape[0]
    for i in range(n):
        for j in range(n):
            if i != j:
                e = A[i, j]
                if isinstance(e, SYM):
                    e = _coerce(e).pruned()
                    if not (e.is_const() and e.const_value() == 0):
                        return None
                elif e != 0:
                    return None
    res = _np.empty(n, dtype=object)
    for i in range(n):
        res[i] = A[i, i]
    return wrap(res)


class LinalgProxy(types.ModuleType):
    def __init__(self):
        super().__init__('numpy.linalg')

    def __getattr__(self, name):
        real = getattr(_np.linalg, name)
        if not callable(real):
            return real

        def f(*a, **k):
            if any_sym(*a):
                conv = []
                for x in a:
                    if is_sym(x):
                        c = _all_const(x)
                        if c is None and name == 'eigvals' and len(a) == 1 and not k:
                            d = _diag_eigvals(x)
                            if d is not None:
                                return d
                        if c is None:
                            raise Escape(f'symx: numpy.linalg.{name} (LAPACK) on symbolic data')
                        conv.append(c)
                    else:
                        conv.append(x)
                a = conv
            return real(*a, **k)

        return f

    def norm(self, x, ord=None, axis=None, **k):
        if is_sym(x):
            c = _all_const(x)
            if c is not None:
                return _np.linalg.norm(c, ord=ord, axis=axis, **k)
            if ord in (None, 2, 'fro') and axis is None:
                tot = SNum.const(0)
                for e in _np.asarray(x, dtype=object).reshape(-1):
                    e = _coerce(e)
                    tot = tot + e * e.conjugate()
                return tot.sqrt()
            raise Escape('symx: linalg.norm variant on symbolic data')
        return _np.linalg.norm(x, ord=ord, axis=axis, **k)


# --------------------------------------------------------------------------------------------
# math / cmath proxies
# --------------------------------------------------------------------------------------------
class MathProxy(types.ModuleType):
    def __init__(self, real_mod):
        super().__init__(real_mod.__name__)
        self._m = real_mod

    def __getattr__(self, name):
        real = getattr(self._m, name)
        if not callable(real):
            return real
        meth = {'cos': 'cos', 'sin': 'sin', 'exp': 'exp', 'sqrt': 'sqrt', 'fabs': '__abs__', 'floor': '__floor__', 'ceil': '__ceil__'}.get(name)

        def f(*a, **k):
            if any(isinstance(x, SYM) for x in a):
                if name == 'isclose':
                    rt = k.get('rel_tol', 1e-09)
                    at = k.get('abs_tol', 0.0)
                    x, y = _coerce(a[0]), _coerce(a[1])
                    if rt:
                        raise Escape('symx: math.isclose with rel_tol on symbolic values')
                    return bool(abs(x - y) <= at)
                if name in ('isnan', 'isinf'):
                    return False
                if name == 'isfinite':
                    return True
                if meth is None:
                    x = a[0]
                    if isinstance(x, SNum) and x.is_const() and len(a) == 1:
                        c = x.const_value()
                        return real(c.real if (c.imag == 0 and self._m is _math) else c)
                    raise Escape(f'symx: {self._m.__name__}.{name} of a symbolic value')
                x = _coerce(a[0])
                return getattr(x, meth)()
            return real(*a, **k)

        return f


# --------------------------------------------------------------------------------------------
# builtin shim types
# --------------------------------------------------------------------------------------------
class _FloatMeta(type):
    def __instancecheck__(cls, x):
        return isinstance(x, builtins.float) or isinstance(x, SNum)

    def __subclasscheck__(cls, sub):
        return issubclass(sub, builtins.float)

    def __eq__(cls, other):
        return other is cls or other is builtins.float

    def __hash__(cls):
        return hash(builtins.float)


class FloatShim(metaclass=_FloatMeta):
    def __new__(cls, x=0.0):
        if isinstance(x, SNum):
            if x.is_const():
                return builtins.float(x)
            return x
        if isinstance(x, SInt):
            c = x.concrete()
            return builtins.float(c) if c is not None else x.to_snum()
        return builtins.float(x)

    fromhex = builtins.float.fromhex
    is_integer = builtins.float.is_integer


class _ComplexMeta(type):
    def __instancecheck__(cls, x):
        return isinstance(x, builtins.complex)

    def __subclasscheck__(cls, sub):
        return issubclass(sub, builtins.complex)

    def __eq__(cls, other):
        return other is cls or other is builtins.complex

    def __hash__(cls):
        return hash(builtins.complex)


class ComplexShim(metaclass=_ComplexMeta):
    def __new__(cls, *a):
        if any(isinstance(x, SYM) for x in a):
            if len(a) == 1:
                x = a[0]
                return x if not (isinstance(x, SNum) and x.is_const()) else builtins.complex(x)
            re, im = a
            return _coerce(re) + 1j * _coerce(im)
        return builtins.complex(*a)


class _IntMeta(type):
    def __instancecheck__(cls, x):
        return isinstance(x, builtins.int) or isinstance(x, SInt)

    def __subclasscheck__(cls, sub):
        return issubclass(sub, builtins.int)

    def __eq__(cls, other):
        return other is cls or other is builtins.int

    def __hash__(cls):
        return hash(builtins.int)


class IntShim(metaclass=_IntMeta):
    def __new__(cls, x=0, *a):
        if isinstance(x, SInt):
            return x
        if isinstance(x, SBool):
            return x.to_sint()
        if isinstance(x, SNum):
            if x.is_const():
                return builtins.int(x.const_value().real)
            # int() truncates toward zero
            fl = x.__floor__()
            if bool(x >= 0):
                return fl
            return -((-x).__floor__())
        return builtins.int(x, *a)

    from_bytes = builtins.int.from_bytes


def round_shim(x, n=None):
    if isinstance(x, SNum):
        return x.__round__(n)
    return builtins.round(x, n) if n is not None else builtins.round(x)


NP = NpProxy()
MATH = MathProxy(_math)
CMATH = MathProxy(_cmath)

_installed = []


def install(module_names, builtins_too=True, np_too=True):
    """replace module-global np/math/cmath/float/complex/int/round in the named modules"""
    done = []
    for mn in module_names:
        m = importlib.import_module(mn)
        d = m.__dict__
        if np_too and d.get('np') is _np:
            d['np'] = NP
            done.append(f'{mn}.np')
        if d.get('math') is _math:
            d['math'] = MATH
            done.append(f'{mn}.math')
        if d.get('cmath') is _cmath:
            d['cmath'] = CMATH
            done.append(f'{mn}.cmath')
        if builtins_too:
            d['float'] = FloatShim
            d['complex'] = ComplexShim
            d['int'] = IntShim
            d['round'] = round_shim
            done.append(f'{mn}.float/complex/int/round')
    _installed.extend(done)
    return done

"""`complex` shim whose isinstance() also accepts symbolic scalars.

symx.proxy.ComplexShim passes symbolic values through `complex(x)` but answers
`isinstance(SNum, complex)` with False.  Code such as `PauliString.matrix` asserts
`isinstance(self.coefficient, complex)` on a coefficient that went through `complex(...)` in the
constructor; a symbolic coefficient stands for the Python complex the caller would have passed, so
the type test must take the branch a complex takes.  Installed per module by the check that needs
it (C14) from its `worker_setup()`; symx/proxy.py is unchanged.
"""
from __future__ import annotations

import builtins
import importlib

from .proxy import ComplexShim
from .snum import SNum


class _ComplexSymMeta(type):
    def __instancecheck__(cls, x):
        return isinstance(x, builtins.complex) or isinstance(x, SNum)

    def __subclasscheck__(cls, sub):
        return issubclass(sub, builtins.complex)

    def __eq__(cls, other):
        return other is cls or other is builtins.complex

    def __hash__(cls):
        return hash(builtins.complex)


class ComplexSymShim(metaclass=_ComplexSymMeta):
    def __new__(cls, *a):
        return ComplexShim(*a)


def install_complex(module_names):
    done = []
    for mn in module_names:
        m = importlib.import_module(mn)
        m.__dict__['complex'] = ComplexSymShim
        done.append(f'{mn}.complex(isinstance accepts symbolic)')
    return done

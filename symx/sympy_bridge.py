"""sympy <-> symx bridge (harness side, installed only in symbolic worker processes).

`ParamResolver.value_of` resolves sympy Integer / Rational constants other than -1, 0, 1, 1/2 (the `2` in
`2*a` or `a**2`) through its generic tail `value.subs(self._param_dict, simultaneous=True)`.  sympy
sympifies EVERY value of the substitution dictionary before it looks at the expression, so a resolver
that holds symbolic (SNum / SInt) values would die in `sympify` although the values are never used
(the constant contains no symbol).  This module registers a sympy converter that turns a symbolic
scalar into a fresh, clearly named sympy Dummy (`_symx_opaque`).  Nothing is concretised:

* if the Dummy is not used (constant expressions) the real code continues exactly as with floats;
* if sympy really substitutes it (functions such as sin(a), partially resolved formulas such as
  `value * unresolved_symbol`) the result is a sympy expression that CONTAINS the Dummy.  Such a result
  is never a number: `cx.close` refuses it (`non-numeric entry`), gates stay parameterised and
  `cirq.unitary` fails loudly, and harnesses can call `has_opaque` / `assert_no_opaque` to end the path
  with an Escape.  Those templates are outside the claim (sympy cannot carry solver values).

Comparisons `Symbol == symbolic value` answer False through the same converter, which is the answer
sympy gives for a float.
"""
from __future__ import annotations

import sys

import sympy

from .ctx import Escape
from .sint import SInt
from .snum import SNum

OPAQUE_NAME = 'symx_opaque'


def _to_opaque(_x):
    return sympy.Dummy(OPAQUE_NAME)


def install():
    """register the converter; returns the stub names for the evidence file"""
    mod = sys.modules['sympy.core.sympify']
    conv = getattr(mod, 'converter', None)
    if conv is None:  # pragma: no cover - very old / very new sympy
        conv = getattr(mod, '_external_converter')
    conv[SNum] = _to_opaque
    conv[SInt] = _to_opaque
    return ['sympy.sympify converter: SNum/SInt -> opaque Dummy (never a number; see symx/sympy_bridge.py)']


def has_opaque(x) -> bool:
    if isinstance(x, sympy.Basic):
        return any(isinstance(s, sympy.Dummy) and s.name == OPAQUE_NAME for s in x.free_symbols)
    return False


def assert_no_opaque(x, what=''):
    if has_opaque(x):
        raise Escape(f'symx: sympy substituted a symbolic value ({what}): outside the symbolic fragment')
    return x

"""Formatter shim for OpenQASM export (C19): symbolic numbers are rendered as placeholder tokens.

`cirq.protocols.qasm.QasmArgs.format_field` does, for a number,
        value = round(value, self.precision)
        'pi*' + f'{value}'   (spec 'half_turns', and the literal '0' when value == 0)   or   f'{value}'
Nothing else in the export path looks at the digits.  In symbolic worker processes the module-global
`round` of cirq.protocols.qasm is replaced by `qasm_round`:

* concrete argument  -> builtins.round (unchanged behaviour);
* symbolic SNum      -> a `QTok` wrapper.  `QTok != 0` / `== 0` are the symbolic comparisons of the
  wrapped value (so the real `... if value != 0 else '0'` FORKS), and formatting the wrapper
  (`f'{value}'` inside the real `_format_number`) yields a unique token  §k§  which is recorded in
  TOKENS.  The harness's OpenQASM reader maps §k§ back to the term when it evaluates the parameter
  expression it parsed from the emitted TEXT (e.g. `pi*§3§`), so the text is interpreted, not inspected.

Model gap (stated in the check's assumptions): decimal rounding to `precision` digits is the identity
on symbolic values; the token stands for the unrounded number.  The real rounding (error <= 0.5e-10
half turns at the default precision) is exercised by the concrete validation points and replays only.

Nothing in symx core is modified; the shim is installed by checks/C19.py:worker_setup().
"""
from __future__ import annotations

import builtins
import contextlib

from .sint import SBool, SInt
from .snum import SNum

TOKENS = {}
_N = [0]
OPEN, CLOSE = '§', '§'


def reset():
    TOKENS.clear()
    _N[0] = 0


class QTok:
    """a symbolic number on its way into the QASM text"""

    __slots__ = ('v', 'tok')

    def __init__(self, v):
        self.v = v
        self.tok = None

    def __ne__(self, o):
        return self.v != o

    def __eq__(self, o):
        return self.v == o

    __hash__ = None

    def _token(self):
        if self.tok is None:
            _N[0] += 1
            self.tok = f'{OPEN}{_N[0]}{CLOSE}'
            TOKENS[self.tok] = self.v
        return self.tok

    def __format__(self, spec):
        if spec:
            raise TypeError('symx: format spec applied to a symbolic number in QASM output')
        return self._token()

    def __str__(self):
        return self._token()

    __repr__ = __str__


def qasm_round(x, n=None):
    if isinstance(x, SNum):
        if x.is_const():
            c = x.const_value()
            return builtins.round(c.real, n) if n is not None else builtins.round(c.real)
        return QTok(x)
    if isinstance(x, SInt):
        c = x.concrete()
        if c is None:
            raise TypeError('symx: symbolic integer as a QASM number (use a real variable)')
        return c
    if isinstance(x, SBool):
        raise TypeError('symx: symbolic Boolean as a QASM number')
    return builtins.round(x, n) if n is not None else builtins.round(x)


def lookup(token: str):
    return TOKENS[token]


@contextlib.contextmanager
def unshimmed():
    """run a block with the REAL numpy/math/cmath/builtins in every module that symx.proxy.install
    touched (and without the QASM round shim).  Used by obligations that carry no symbolic value at all
    (flagged kind='concrete'): LAPACK-based fall-backs (KAK) need genuine complex128 arrays."""
    import cmath
    import math
    import sys

    import numpy

    from . import proxy

    saved = []

    def put(d, k, v):
        saved.append((d, k, d.get(k, _MISSING)))
        if v is _MISSING:
            d.pop(k, None)
        else:
            d[k] = v

    for ent in proxy._installed:
        mn, what = ent.rsplit('.', 1)
        mod = sys.modules.get(mn)
        if mod is None:
            continue
        d = mod.__dict__
        if what == 'np':
            put(d, 'np', numpy)
        elif what == 'math':
            put(d, 'math', math)
        elif what == 'cmath':
            put(d, 'cmath', cmath)
        else:
            for nm in ('float', 'complex', 'int', 'round'):
                put(d, nm, _MISSING)
    try:
        yield
    finally:
        for d, k, v in reversed(saved):
            if v is _MISSING:
                d.pop(k, None)
            else:
                d[k] = v


_MISSING = object()


def install():
    """replace `round` in cirq.protocols.qasm (after symx.proxy.install put its generic round shim there)"""
    import importlib

    # NB: the attribute cirq.protocols.qasm is the FUNCTION qasm; the module is reached via importlib
    m = importlib.import_module('cirq.protocols.qasm')
    m.__dict__['round'] = qasm_round
    return [
        'cirq.protocols.qasm.round -> symx.qasm_shim.qasm_round (symbolic number -> placeholder token, rounding = identity)',
        'symx.qasm_shim.unshimmed(): obligations flagged concrete (no symbolic value) run with all proxies temporarily removed',
    ]

"""Runs a CrossHair contract file and classifies the verdicts.

 law_*   must be reported "Confirmed over all paths."          -> discharged
         a counterexample ("error: ... when calling law_x(args)") is REPLAYED by evaluating that very call
         in plain Python against the real code; only a reproducing one is a violation
         anything else ("Not confirmed", "Unable to meet precondition", no line)  -> inconclusive
 twin_*  must be refuted (an "error:" line with a counterexample) -> vacuity twin refuted, else inconclusive
"""
from __future__ import annotations

import ast
import importlib
import os
import re
import subprocess
import sys
import time

LINE = re.compile(r'^(?P<file>.*?):(?P<line>\d+): (?P<kind>info|error): (?P<msg>.*)$')
CALL = re.compile(r'when calling (?P<call>\w+\(.*?\))(?: \(which .*\))?$')


def _functions(path):
    tree = ast.parse(open(path).read())
    out = []
    for node in tree.body:
        if isinstance(node, ast.FunctionDef) and (node.name.startswith('law_') or node.name.startswith('twin_')):
            out.append((node.name, node.lineno, node.end_lineno))
    return out


def start(path, per_condition_timeout, env_extra=None):
    env = dict(os.environ)
    env.update(env_extra or {})
    env.setdefault('PYTHONHASHSEED', '0')
    cmd = [sys.executable, '-m', 'crosshair', 'check', '--report_all', '--per_condition_timeout', str(per_condition_timeout), path]
    p = subprocess.Popen(cmd, stdout=subprocess.PIPE, stderr=subprocess.STDOUT, text=True, env=env, cwd=os.path.dirname(os.path.dirname(os.path.abspath(__file__))))
    return {'proc': p, 'path': path, 't0': time.time(), 'cmd': ' '.join(cmd), 'env_extra': env_extra or {}}


def finish(h, module_name, only=None):
    out, _ = h['proc'].communicate()
    wall = time.time() - h['t0']
    funcs = _functions(h['path'])
    verdict = {}
    for ln in out.splitlines():
        m = LINE.match(ln.strip())
        if not m:
            continue
        n = int(m.group('line'))
        for name, a, b in funcs:
            if a <= n <= b:
                verdict.setdefault(name, []).append((m.group('kind'), m.group('msg')))
    res = {'wall_s': round(wall, 1), 'command': h['cmd'], 'env': h['env_extra'], 'laws': {}, 'twins': {}, 'violations': [], 'inconclusive': [], 'raw_tail': out[-1500:] if not verdict else ''}
    mod = None
    for name, _a, _b in funcs:
        if only and not any(s in 'key.' + name for s in only):
            continue
        v = verdict.get(name, [])
        msgs = [m for _k, m in v]
        if name.startswith('law_'):
            if any(m.startswith('Confirmed over all paths') for m in msgs) and not any(k == 'error' for k, _ in v):
                res['laws'][name] = 'confirmed over all paths'
                continue
            err = [m for k, m in v if k == 'error']
            if err:
                cm = CALL.search(err[0])
                reproduced = None
                code = None
                if cm:
                    try:
                        code = compile(cm.group('call'), '<crosshair-counterexample>', 'eval')
                    except SyntaxError:
                        code = None  # could not parse the reported call: nothing is claimed
                if code is not None:
                    try:
                        mod = mod or importlib.import_module(module_name)
                        r = eval(code, {**vars(mod)})  # plain-Python replay of the reported call
                        reproduced = not r
                    except Exception as e:  # the law raised: also a failure of the law
                        reproduced = True
                        err[0] += f' [replay raised {type(e).__name__}: {e}]'
                if reproduced:
                    res['violations'].append(f'{name}: {err[0]}')
                    res['laws'][name] = 'VIOLATED (replayed)'
                else:
                    res['inconclusive'].append(f'{name}: counterexample did not replay: {err[0]}')
                    res['laws'][name] = 'inconclusive'
            else:
                res['inconclusive'].append(f'{name}: {msgs[:1] or ["no verdict line"]}')
                res['laws'][name] = 'inconclusive'
        else:
            if any(k == 'error' for k, _ in v):
                res['twins'][name] = 'refuted'
            else:
                res['inconclusive'].append(f'{name}: vacuity twin NOT refuted: {msgs[:1]}')
                res['twins'][name] = 'not refuted'
    return res

"""CrossHair contracts for C11: MeasurementKey string laws over the REAL cirq.MeasurementKey code.

Run by harness_ch/runner.py:  crosshair check --report_all --per_condition_timeout T <this file>
Only "Confirmed over all paths" counts for a `law_*`; every law has a reachability twin `twin_*`
(same precondition, deliberately wrong postcondition) which MUST be refuted with a counterexample.

Symbolic: the key name, path components, prefix components, replacement names: arbitrary unicode
strings of length <= L1 (CrossHair's own symbolic str).  Path arity is fixed per contract (0, 1 or 2); at most two strings are symbolic in one
contract (length <= L each, or one string of length <= L1), the remaining components are fixed literals --
CrossHair's string solving does not finish three free strings within the time budget.
Outside (stated): the VALUE of hash(str) -- CrossHair realises hashed strings and then cannot confirm; hash
consistency of keys is therefore exercised in checks/C11.py hist.measurement_key (bounded exploration).
Precondition everywhere: no component contains the separator ':' (the constructor enforces it for
`name`; for path components it is the documented convention of parse_serialized / key paths).
"""
from __future__ import annotations

import copy
import os
from collections.abc import Mapping

import cirq

L = int(os.environ.get('C11_KEY_LEN', '2'))  # bound on each of two symbolic strings
L1 = L + 1  # bound when a single string is symbolic

MK = cirq.MeasurementKey


# ---- parse_serialized(str(k)) == k -------------------------------------------------------------
def law_parse0(name: str) -> bool:
    """
    pre: len(name) <= L1 and ':' not in name
    post: __return__
    """
    k = MK(name=name)
    k2 = MK.parse_serialized(str(k))
    return k2.name == name and k2.path == () and k2 == k and str(k) == name


def twin_parse0(name: str) -> bool:
    """
    pre: len(name) <= L1 and ':' not in name
    post: __return__
    """
    k = MK(name=name)
    k2 = MK.parse_serialized(str(k))
    return k2.name != name


def law_parse1(name: str, p0: str) -> bool:
    """
    pre: len(name) <= L and ':' not in name and len(p0) <= L and ':' not in p0
    post: __return__
    """
    k = MK(name=name, path=(p0,))
    k2 = MK.parse_serialized(str(k))
    return k2.name == name and k2.path == (p0,) and k2 == k and str(k) == p0 + ':' + name


def twin_parse1(name: str, p0: str) -> bool:
    """
    pre: len(name) <= L and ':' not in name and len(p0) <= L and ':' not in p0
    post: __return__
    """
    k = MK(name=name, path=(p0,))
    k2 = MK.parse_serialized(str(k))
    return k2.path == () or str(k) == name + ':' + p0


def law_parse2(p0: str, p1: str) -> bool:
    """
    pre: len(p0) <= L and ':' not in p0 and len(p1) <= L and ':' not in p1
    post: __return__
    """
    k = MK(name='m', path=(p0, p1))
    k2 = MK.parse_serialized(str(k))
    return k2.name == 'm' and k2.path == (p0, p1) and str(k) == p0 + ':' + p1 + ':m'


def twin_parse2(p0: str, p1: str) -> bool:
    """
    pre: len(p0) <= L and ':' not in p0 and len(p1) <= L and ':' not in p1
    post: __return__
    """
    k = MK(name='m', path=(p0, p1))
    k2 = MK.parse_serialized(str(k))
    return k2.path == (p1, p0)


# ---- key-path prefixing -------------------------------------------------------------------------------
def law_prefix(name: str, pfx: str) -> bool:
    """
    pre: len(name) <= L and ':' not in name and len(pfx) <= L and ':' not in pfx
    post: __return__
    """
    k = MK(name=name, path=('p',))
    str(k)  # populate the cached string of the source key first
    a = k.with_key_path_prefix(pfx)
    return a.name == name and a.path == (pfx, 'p') and str(a) == pfx + ':p:' + name and k.path == ('p',) and str(k) == 'p:' + name


def twin_prefix(name: str, pfx: str) -> bool:
    """
    pre: len(name) <= L and ':' not in name and len(pfx) <= L and ':' not in pfx
    post: __return__
    """
    k = MK(name=name, path=('p',))
    a = k.with_key_path_prefix(pfx)
    return a.path == ('p', pfx)


def law_prefix_protocols(p0: str, pfx: str) -> bool:
    """
    pre: len(p0) <= L and ':' not in p0 and len(pfx) <= L and ':' not in pfx
    post: __return__
    """
    k = MK(name='m', path=(p0,))
    a = k.with_key_path_prefix(pfx)
    b = k._with_key_path_prefix_((pfx,))
    c = cirq.with_key_path_prefix(k, (pfx,))
    d = k._with_key_path_((pfx,))
    e = k._with_rescoped_keys_((pfx,), frozenset())
    return a.path == (pfx, p0) and b.path == (pfx, p0) and c.path == (pfx, p0) and e.path == (pfx, p0) and d.path == (pfx,) and b.name == 'm' and d.name == 'm'


def twin_prefix_protocols(p0: str, pfx: str) -> bool:
    """
    pre: len(p0) <= L and ':' not in p0 and len(pfx) <= L and ':' not in pfx
    post: __return__
    """
    k = MK(name='m', path=(p0,))
    d = k._with_key_path_((pfx,))
    return d.path == (pfx, p0)


def law_prefix0(pfx: str, pfx2: str) -> bool:
    """
    pre: len(pfx2) <= L and ':' not in pfx2 and len(pfx) <= L and ':' not in pfx
    post: __return__
    """
    k = MK(name='m')
    a = k.with_key_path_prefix(pfx, pfx2)
    b = k.with_key_path_prefix(pfx2).with_key_path_prefix(pfx)
    return a.path == (pfx, pfx2) and b.path == (pfx, pfx2) and str(a) == pfx + ':' + pfx2 + ':m'


def twin_prefix0(pfx: str, pfx2: str) -> bool:
    """
    pre: len(pfx2) <= L and ':' not in pfx2 and len(pfx) <= L and ':' not in pfx
    post: __return__
    """
    k = MK(name='m')
    a = k.with_key_path_prefix(pfx, pfx2)
    b = k.with_key_path_prefix(pfx).with_key_path_prefix(pfx2)
    return a.path == b.path


# ---- JSON dict pair ----------------------------------------------------------------------------------------
def law_json(name: str, p0: str) -> bool:
    """
    pre: len(name) <= L and ':' not in name and len(p0) <= L and ':' not in p0
    post: __return__
    """
    k = MK(name=name, path=(p0,))
    d = k._json_dict_()
    k2 = MK._from_json_dict_(**d)
    k3 = MK._from_json_dict_(name=d['name'], path=list(d['path']))  # JSON delivers lists
    k0 = MK._from_json_dict_(**MK(name=name)._json_dict_())
    return k2.name == name and k2.path == (p0,) and k3.path == (p0,) and k3.name == name and k0.path == () and sorted(d.keys()) == ['name', 'path']


def twin_json(name: str, p0: str) -> bool:
    """
    pre: len(name) <= L and ':' not in name and len(p0) <= L and ':' not in p0
    post: __return__
    """
    k = MK(name=name, path=(p0,))
    d = k._json_dict_()
    k3 = MK._from_json_dict_(name=d['name'], path=list(d['path']))
    return k3.path != (p0,)


# ---- equality / hash / order ----------------------------------------------------------------------------------
def law_eq_names(n1: str, n2: str) -> bool:
    """
    pre: len(n1) <= L and ':' not in n1 and len(n2) <= L and ':' not in n2
    post: __return__
    """
    a = MK(name=n1, path=('p',))
    b = MK(name=n2, path=('p',))
    same = n1 == n2
    eq = a == b
    return eq == same and (b == a) == same and (a != b) == (not same) and (a == str(b)) == same


def twin_eq_names(n1: str, n2: str) -> bool:
    """
    pre: len(n1) <= L and ':' not in n1 and len(n2) <= L and ':' not in n2
    post: __return__
    """
    a = MK(name=n1, path=('p',))
    b = MK(name=n2, path=('p',))
    return a == b


def law_eq_paths(p1: str, p2: str) -> bool:
    """
    pre: len(p1) <= L and ':' not in p1 and len(p2) <= L and ':' not in p2
    post: __return__
    """
    a = MK(name='m', path=(p1,))
    b = MK(name='m', path=(p2,))
    same = p1 == p2
    eq = a == b
    return eq == same and (b == a) == same and a == str(a)


def twin_eq_paths(p1: str, p2: str) -> bool:
    """
    pre: len(p1) <= L and ':' not in p1 and len(p2) <= L and ':' not in p2
    post: __return__
    """
    a = MK(name='m', path=(p1,))
    b = MK(name='m', path=(p2,))
    return a != b


def law_eq_mixed_arity(p1: str, n2: str) -> bool:
    """
    pre: len(p1) <= L and ':' not in p1 and len(n2) <= L and ':' not in n2
    post: __return__
    """
    a = MK(name='m', path=(p1,))
    b = MK(name=n2)
    return a != b and not (a == b) and (a < b) != (b < a)


def twin_eq_mixed_arity(p1: str, n2: str) -> bool:
    """
    pre: len(p1) <= L and ':' not in p1 and len(n2) <= L and ':' not in n2
    post: __return__
    """
    a = MK(name='m', path=(p1,))
    b = MK(name=n2)
    return a < b


def law_order_names(n1: str, n2: str) -> bool:
    """
    pre: len(n1) <= L and ':' not in n1 and len(n2) <= L and ':' not in n2
    post: __return__
    """
    a = MK(name=n1, path=('p',))
    b = MK(name=n2, path=('p',))
    lt, gt, eq = a < b, b < a, a == b
    exactly_one = (int(lt) + int(gt) + int(eq)) == 1
    return exactly_one and lt == (n1 < n2) and (a <= b) == (lt or eq) and (b <= a) == (gt or eq)


def twin_order_names(n1: str, n2: str) -> bool:
    """
    pre: len(n1) <= L and ':' not in n1 and len(n2) <= L and ':' not in n2
    post: __return__
    """
    a = MK(name=n1, path=('p',))
    b = MK(name=n2, path=('p',))
    return (a < b) == (n1 <= n2)


def law_order_paths(p1: str, p2: str) -> bool:
    """
    pre: len(p1) <= L and ':' not in p1 and len(p2) <= L and ':' not in p2
    post: __return__
    """
    a = MK(name='n', path=(p1,))
    b = MK(name='a', path=(p2,))
    lt, gt, eq = a < b, b < a, a == b
    exactly_one = (int(lt) + int(gt) + int(eq)) == 1
    return exactly_one and lt == ((p1, 'n') < (p2, 'a')) and (a <= b) == (lt or eq)


def twin_order_paths(p1: str, p2: str) -> bool:
    """
    pre: len(p1) <= L and ':' not in p1 and len(p2) <= L and ':' not in p2
    post: __return__
    """
    a = MK(name='n', path=(p1,))
    b = MK(name='a', path=(p2,))
    return (a < b) == (('n', p1) < ('a', p2))


# ---- cached string / hash never go stale ---------------------------------------------------------------------------
def law_replace_cache(name: str, n2: str) -> bool:
    """
    pre: len(name) <= L and ':' not in name and len(n2) <= L and ':' not in n2
    post: __return__
    """
    k = MK(name=name, path=('p',))
    s0 = str(k)  # fill the cache
    r = k.replace(name=n2)
    return str(r) == 'p:' + n2 and r._hash is None and r.path == ('p',) and str(k) == s0


def twin_replace_cache(name: str, n2: str) -> bool:
    """
    pre: len(name) <= L and ':' not in name and len(n2) <= L and ':' not in n2
    post: __return__
    """
    k = MK(name=name, path=('p',))
    str(k)
    r = k.replace(name=n2)
    return str(r) == str(k)


class _PairMap(Mapping):
    """a Mapping that finds keys by == only (a dict would hash the symbolic string, see module docstring)"""

    def __init__(self, pairs):
        self._pairs = list(pairs)

    def __getitem__(self, key):
        for k_, v_ in self._pairs:
            if k_ == key:
                return v_
        raise KeyError(key)

    def __iter__(self):
        return iter([k_ for k_, _ in self._pairs])

    def __len__(self):
        return len(self._pairs)


def law_key_mapping(name: str, old: str) -> bool:
    """
    pre: len(name) <= L and ':' not in name and len(old) <= L and ':' not in old
    post: __return__
    """
    k = MK(name=name, path=('p',))
    str(k)
    m = k._with_measurement_key_mapping_(_PairMap([(old, 'new')]))
    if name == old:
        return m.name == 'new' and m.path == ('p',) and str(m) == 'p:new'
    return m is k


def twin_key_mapping(name: str, old: str) -> bool:
    """
    pre: len(name) <= L and ':' not in name and len(old) <= L and ':' not in old
    post: __return__
    """
    k = MK(name=name, path=('p',))
    m = k._with_measurement_key_mapping_(_PairMap([(old, 'new')]))
    return m.name == 'new'


def law_copy_cache(name: str, p0: str) -> bool:
    """
    pre: len(name) <= L and ':' not in name and len(p0) <= L and ':' not in p0
    post: __return__
    """
    k = MK(name=name, path=(p0,))
    s0 = str(k)
    object.__setattr__(k, '_hash', 12345)  # a cached hash (the VALUE of hash(str) is outside CrossHair's reach)
    c = copy.copy(k)
    dc = copy.deepcopy(k)
    st = k.__getstate__()
    return c == k and dc == k and str(dc) == s0 and dc.path == (p0,) and '_hash' not in st and st['name'] == name and st['_str'] == s0


def twin_copy_cache(name: str, p0: str) -> bool:
    """
    pre: len(name) <= L and ':' not in name and len(p0) <= L and ':' not in p0
    post: __return__
    """
    k = MK(name=name, path=(p0,))
    object.__setattr__(k, '_hash', 12345)
    st = k.__getstate__()
    return '_hash' in st


def law_name_validation(name: str) -> bool:
    """
    pre: len(name) <= L1
    post: __return__
    """
    try:
        MK(name=name)
        built = True
    except ValueError:
        built = False
    return built == (':' not in name)


def twin_name_validation(name: str) -> bool:
    """
    pre: len(name) <= L1
    post: __return__
    """
    try:
        MK(name=name)
        built = True
    except ValueError:
        built = False
    return built

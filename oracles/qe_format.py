"""Harness-side comparison of Cirq objects before / after a trip through the Quantum Engine formats.

The oracle of every round-trip obligation of C16 is THE ORIGINAL OBJECT'S OWN FIELDS (documented
constructor arguments), read attribute by attribute here; nothing is serialized a second time and the
objects' own `__eq__` is not trusted for anything that holds a number.

`Cmp` collects
  * structural conditions  (Python bools in concrete mode, SBool formulas in symbolic mode) -> one
    `cx.check(AND(...))`,
  * pairs of real numbers (got, expected) -> `cx.close(..., tol)`, the single-precision margin,
  * pairs of sympy formulas -> compared SEMANTICALLY: both trees are evaluated with ordinary Python
    arithmetic at one shared assignment of fresh symbolic reals to the symbols, then `cx.close`.

Everything is mode-agnostic (symbolic SInt/SBool/SNum or plain Python numbers).
"""
from __future__ import annotations

import numbers

import numpy as np
import sympy

_CONC_BOOL = (bool, np.bool_)


def _is_sym(x):
    from symx.sint import SBool, SInt
    from symx.snum import SNum

    return isinstance(x, (SBool, SInt, SNum))


def AND(conds):
    acc = True
    for c in conds:
        if isinstance(c, (bool, np.bool_)):
            if not c:
                return False
            continue
        acc = c if acc is True else (acc & c)
    return acc


def OR(conds):
    acc = False
    for c in conds:
        if isinstance(c, (bool, np.bool_)):
            if c:
                return True
            continue
        acc = c if acc is False else (acc | c)
    return acc


def NOT(c):
    if isinstance(c, (bool, np.bool_)):
        return not c
    return ~c


def IFF(a, b):
    ca, cb = isinstance(a, _CONC_BOOL), isinstance(b, _CONC_BOOL)
    if ca and cb:
        return bool(a) == bool(b)
    if ca:
        return b if a else NOT(b)
    if cb:
        return a if b else NOT(a)
    return a == b


def is_intlike(x):
    from symx.sint import SInt

    return isinstance(x, (SInt, int, np.integer)) and not isinstance(x, _CONC_BOOL)


def is_reallike(x):
    from symx.sint import SInt
    from symx.snum import SNum

    if isinstance(x, _CONC_BOOL) or isinstance(x, sympy.Basic):
        return False
    return isinstance(x, (SInt, SNum, int, float, np.integer, np.floating))


# ---------------------------------------------------------------------------------------------------
# sympy trees on symbolic numbers
# ---------------------------------------------------------------------------------------------------
class Unsupported(Exception):
    pass


def sym_eval(expr, env):
    """value of a sympy tree under env {symbol name: number}; arithmetic, comparisons and Boolean
    connectives are the Python operators (SNum / SBool aware).  Written from the sympy class meanings."""
    if isinstance(expr, (bool, np.bool_)) or expr is sympy.true or expr is sympy.false:
        return bool(expr)
    if not isinstance(expr, sympy.Basic):
        if is_reallike(expr):
            return expr
        raise Unsupported(type(expr).__name__)
    if isinstance(expr, sympy.Symbol):
        return env(expr.name) if callable(env) else env[expr.name]
    if isinstance(expr, sympy.Integer):
        return int(expr.p)
    if isinstance(expr, sympy.Rational):
        return int(expr.p) / int(expr.q)
    if isinstance(expr, sympy.Float):
        return float(expr)
    if isinstance(expr, sympy.NumberSymbol):
        return float(expr)
    args = [sym_eval(a, env) for a in expr.args]
    if isinstance(expr, sympy.Add):
        tot = 0
        for a in args:
            tot = tot + a
        return tot
    if isinstance(expr, sympy.Mul):
        tot = 1
        for a in args:
            tot = tot * a
        return tot
    if isinstance(expr, sympy.Pow):
        base, p = args
        if isinstance(p, (int, float)) and float(p).is_integer():
            p = int(p)
            out = 1
            for _ in range(abs(p)):
                out = out * base
            return out if p >= 0 else 1 / out
        if isinstance(p, (int, float)) and isinstance(base, (int, float)):
            return base**p
        raise Unsupported('non-integer or symbolic power of a symbolic value')
    if isinstance(expr, sympy.Equality):
        return args[0] == args[1]
    if isinstance(expr, sympy.Unequality):
        return args[0] != args[1]
    if isinstance(expr, sympy.GreaterThan):
        return args[0] >= args[1]
    if isinstance(expr, sympy.StrictGreaterThan):
        return args[0] > args[1]
    if isinstance(expr, sympy.LessThan):
        return args[0] <= args[1]
    if isinstance(expr, sympy.StrictLessThan):
        return args[0] < args[1]
    if isinstance(expr, sympy.And):
        return AND(args)
    if isinstance(expr, sympy.Or):
        return OR(args)
    if isinstance(expr, sympy.Not):
        return NOT(args[0])
    if isinstance(expr, sympy.Xor):
        acc = False
        for a in args:
            acc = NOT(IFF(acc, a))
        return acc
    raise Unsupported(type(expr).__name__)


def symbol_names(expr):
    if isinstance(expr, sympy.Basic):
        return sorted(s.name for s in expr.free_symbols)
    return []


# ---------------------------------------------------------------------------------------------------
# the collector
# ---------------------------------------------------------------------------------------------------
class Cmp:
    def __init__(self, cx, tol, expr_tol=1e-5, sym_box=2.0, box=4.0, strict_exponents=False):
        self.cx = cx
        self.tol = tol
        self.box = box  # box of symbolic exponents (number of periods two equal gates can be apart)
        self.strict_exponents = strict_exponents  # True: exponents must come back as numbers, not only modulo the period
        self.expr_tol = expr_tol
        self.sym_box = sym_box
        self.conds = []
        self.why = []
        self.nums = []  # (got, expected)
        self.exprs = []  # (got value, expected value)
        self._symvals = {}
        self.perturb = None  # twin hook: label substring whose expected number is shifted

    # ---- leaves -------------------------------------------------------------------------------
    def cond(self, c, why=''):
        if isinstance(c, _CONC_BOOL):
            c = bool(c)
            if not c:
                self.why.append(why)
        self.conds.append(c)
        return c

    def fail(self, why):
        self.conds.append(False)
        self.why.append(why)

    def symval(self, name):
        if name not in self._symvals:
            self._symvals[name] = self.cx.real('sym_' + name, -self.sym_box, self.sym_box)
        return self._symvals[name]

    def num(self, got, exp, why=''):
        """two numbers: integers exactly, reals within the single-precision margin"""
        if isinstance(got, sympy.Basic) or isinstance(exp, sympy.Basic):
            return self.expr(got, exp, why)
        if isinstance(got, _CONC_BOOL) or isinstance(exp, _CONC_BOOL):
            # a Python bool is not a number here: True and 1 are different argument values
            return self.cond(isinstance(got, _CONC_BOOL) and isinstance(exp, _CONC_BOOL) and bool(got) == bool(exp), f'{why}: bool {got!r} vs {exp!r}')
        if not (is_reallike(got) and is_reallike(exp)):
            return self.fail(f'{why}: not numbers: {type(got).__name__} vs {type(exp).__name__}')
        if is_intlike(exp):
            # an integer is expected back as that integer (value equality: 3.0 == 3 is accepted, 3.0000001 is not)
            return self.cond(got == exp, f'{why}: {got!r} != {exp!r}')
        self.nums.append((got, exp, why))

    def num_mod(self, got, exp, period, why='', kmax=1):
        """two real numbers equal modulo `period` within the margin (fields the constructors canonicalise)"""
        if isinstance(got, sympy.Basic) or isinstance(exp, sympy.Basic):
            return self.expr(got, exp, why)
        if not (is_reallike(got) and is_reallike(exp)):
            return self.fail(f'{why}: not numbers: {type(got).__name__} vs {type(exp).__name__}')
        d = got - exp
        alts = []
        for kk in range(-kmax, kmax + 1):
            dk = d - kk * period
            alts.append(AND([dk <= self.tol, dk >= -self.tol]))
        self.cond(OR(alts), f'{why}: {got!r} vs {exp!r} (mod {period:g})')

    def expr(self, got, exp, why=''):
        """two formulas (or a formula and a number): equal as functions of their symbols"""
        if isinstance(got, sympy.Basic) and isinstance(exp, sympy.Basic):
            if got == exp:
                return self.cond(True)
        gs, es = symbol_names(got), symbol_names(exp)
        if gs != es:
            return self.fail(f'{why}: symbols {gs} vs {es}')
        if not es:
            # constants: both must denote the same number
            try:
                self.exprs.append((sym_eval(got, {}), sym_eval(exp, {}), why))
            except Unsupported as e:
                self.fail(f'{why}: {e}')
            return
        try:
            g = sym_eval(got, self.symval)
            e = sym_eval(exp, self.symval)
        except Unsupported as ex:
            return self.fail(f'{why}: cannot evaluate {ex}')
        gb = not is_reallike(g)
        eb = not is_reallike(e)
        if gb or eb:
            if gb and eb:
                return self.cond(IFF(g, e), f'{why}: Boolean formulas differ')
            return self.fail(f'{why}: Boolean vs number')
        self.exprs.append((g, e, why))

    def same(self, got, exp, why=''):
        """generic argument value (what arg_to_proto accepts)"""
        import cirq

        if exp is None or got is None:
            return self.cond(exp is None and got is None, f'{why}: None vs value')
        if isinstance(exp, sympy.Basic) or isinstance(got, sympy.Basic):
            return self.expr(got, exp, why)
        if isinstance(exp, _CONC_BOOL) or isinstance(got, _CONC_BOOL) or _is_sym_bool(exp) or _is_sym_bool(got):
            if (isinstance(exp, _CONC_BOOL) or _is_sym_bool(exp)) and (isinstance(got, _CONC_BOOL) or _is_sym_bool(got)):
                return self.cond(IFF(got, exp), f'{why}: bool differs')
            return self.fail(f'{why}: bool vs {type(got).__name__}/{type(exp).__name__}')
        if is_reallike(exp) or is_reallike(got):
            return self.num(got, exp, why)
        if isinstance(exp, (str, bytes)):
            return self.cond(type(got) is type(exp) and got == exp, f'{why}: {got!r} != {exp!r}')
        if isinstance(exp, complex) or isinstance(got, complex):
            if isinstance(exp, complex) and isinstance(got, complex):
                self.nums.append((got.real, exp.real, why + '.re'))
                self.nums.append((got.imag, exp.imag, why + '.im'))
                return
            return self.fail(f'{why}: complex vs {type(got).__name__}')
        if isinstance(exp, cirq.MeasurementKey):
            return self.cond(isinstance(got, cirq.MeasurementKey) and got == exp, f'{why}: key {got!r} != {exp!r}')
        if isinstance(exp, (list, tuple)):
            if not self.cond(type(got) is type(exp) and len(got) == len(exp), f'{why}: sequence type/length {type(got).__name__}[{len(got) if hasattr(got, "__len__") else "?"}] vs {type(exp).__name__}[{len(exp)}]'):
                return
            for i, (g, e) in enumerate(zip(got, exp)):
                self.same(g, e, f'{why}[{i}]')
            return
        if isinstance(exp, (set, frozenset)):
            return self.cond(type(got) is type(exp) and got == exp, f'{why}: set differs')
        if isinstance(exp, dict):
            if not self.cond(isinstance(got, dict) and list(got.keys()) == list(exp.keys()), f'{why}: dict keys {list(got) if isinstance(got, dict) else got!r} vs {list(exp)}'):
                if not (isinstance(got, dict) and set(got.keys()) == set(exp.keys())):
                    return
                self.conds.pop()
                self.why.pop()
            for k in exp:
                self.same(got[k], exp[k], f'{why}[{k!r}]')
            return
        if isinstance(exp, np.ndarray):
            if not self.cond(isinstance(got, np.ndarray) and got.shape == exp.shape and got.dtype == exp.dtype, f'{why}: ndarray shape/dtype'):
                return
            if exp.dtype.kind in 'biu':
                return self.cond(bool(np.array_equal(got, exp)), f'{why}: ndarray values')
            for i, (g, e) in enumerate(zip(got.ravel(), exp.ravel())):
                self.same(g.item() if hasattr(g, 'item') else g, e.item() if hasattr(e, 'item') else e, f'{why}.flat[{i}]')
            return
        try:
            import tunits

            if isinstance(exp, tunits.Value):
                return self.cond(isinstance(got, tunits.Value) and got.unit == exp.unit and abs(got[exp.unit] - exp[exp.unit]) <= 2.0**-23 * abs(exp[exp.unit]), f'{why}: tunits value {got!r} vs {exp!r}')
        except ImportError:  # pragma: no cover
            pass
        self.cond(type(got) is type(exp) and got == exp, f'{why}: {got!r} != {exp!r}')

    # ---- conditions ------------------------------------------------------------------------------
    def condition_conds(self, got, exp):
        """list of conditions saying two cirq.Condition objects are the same (all fields exact)"""
        import cirq

        if isinstance(exp, cirq.KeyCondition):
            if not isinstance(got, cirq.KeyCondition):
                return [False]
            return [got.key == exp.key, got.index == exp.index]
        if isinstance(exp, cirq.BitMaskKeyCondition):
            if not isinstance(got, cirq.BitMaskKeyCondition):
                return [False]
            out = [got.key == exp.key, got.index == exp.index, got.target_value == exp.target_value, IFF(got.equal_target, exp.equal_target)]
            if exp.bitmask is None or got.bitmask is None:
                out.append(exp.bitmask is None and got.bitmask is None)
            else:
                out.append(got.bitmask == exp.bitmask)
            return out
        if isinstance(exp, cirq.SympyCondition):
            if not isinstance(got, cirq.SympyCondition):
                return [False]
            sub = Cmp(self.cx, self.tol, self.expr_tol, self.sym_box)
            sub._symvals = self._symvals
            sub.expr(got.expr, exp.expr, 'SympyCondition.expr')
            if sub.exprs or sub.nums:
                # numeric-valued "conditions" (non-zero test) are outside what the menus generate
                return [False]
            return list(sub.conds)
        return [False]

    def condition(self, got, exp, why=''):
        self.cond(AND(self.condition_conds(got, exp)), f'{why}: condition {got!r} vs {exp!r}')

    def condition_set(self, got, exp, why=''):
        """classical controls are a SET (ClassicallyControlledOperation compares frozensets)"""
        got, exp = list(got), list(exp)
        for i, e in enumerate(exp):
            self.cond(OR([AND(self.condition_conds(g, e)) for g in got]), f'{why}: control {e!r} missing after the round trip ({got!r})')
        for j, g in enumerate(got):
            self.cond(OR([AND(self.condition_conds(g, e)) for e in exp]), f'{why}: extra control {g!r} after the round trip')

    # ---- tags ------------------------------------------------------------------------------------
    def tag(self, got, exp, why=''):
        import cirq_google as cg
        from cirq_google.ops.calibration_tag import CalibrationTag
        from cirq_google.ops.dynamical_decoupling_tag import DynamicalDecouplingTag

        marker = (cg.PhysicalZTag, cg.FSimViaModelTag, cg.TwoPulseFSimTag, cg.CompressDurationTag)
        if isinstance(exp, marker):
            return self.cond(type(got) is type(exp), f'{why}: tag {got!r} vs {exp!r}')
        if isinstance(exp, CalibrationTag):
            return self.cond(isinstance(got, CalibrationTag) and got.token == exp.token, f'{why}: {got!r} vs {exp!r}')
        if isinstance(exp, DynamicalDecouplingTag):
            return self.cond(isinstance(got, DynamicalDecouplingTag) and got.protocol == exp.protocol, f'{why}: {got!r} vs {exp!r}')
        if isinstance(exp, cg.InternalTag):
            if not self.cond(isinstance(got, cg.InternalTag) and got.name == exp.name and got.package == exp.package, f'{why}: {got!r} vs {exp!r}'):
                return
            return self.same(got.tag_args, exp.tag_args, f'{why}.tag_args')
        # raw values
        self.same(got, exp, f'{why}(raw tag)')

    def tags(self, got, exp, why='', ordered=True):
        got, exp = list(got), list(exp)
        if not self.cond(len(got) == len(exp), f'{why}: tags {got!r} vs {exp!r}'):
            return
        if ordered:
            for i, (g, e) in enumerate(zip(got, exp)):
                self.tag(g, e, f'{why}.tags[{i}]')
            return
        # unordered: every expected tag is matched by the tag of the same class (menus never repeat a class)
        for e in exp:
            cands = [g for g in got if type(g) is type(e)]
            if not self.cond(len(cands) == 1, f'{why}: tag {e!r} not found exactly once in {got!r}'):
                continue
            self.tag(cands[0], e, f'{why}.tag<{type(e).__name__}>')

    # ---- gates -----------------------------------------------------------------------------------
    def gate(self, got, exp, why=''):
        import cirq
        import cirq_google as cg
        from cirq_google.experimental.ops import CouplerPulse

        # G**t up to global phase is periodic in t (X, Y, Z, H, CZ: G**2 = 1; ISWAP**4 = 1 and ISWAP**2 is not a
        # phase): cirq's own equality identifies exponents modulo that period, the constant table merges equal
        # operations, so the exponent is compared modulo the period
        for fam, period in ((cirq.XPowGate, 2.0), (cirq.YPowGate, 2.0), (cirq.ZPowGate, 2.0), (cirq.HPowGate, 2.0), (cirq.CZPowGate, 2.0), (cirq.ISwapPowGate, 4.0)):
            if isinstance(exp, fam):
                # cirq.X / cirq.Rx ... are subclasses of the Pow gate that differ by construction sugar or by
                # global_shift, which is a global phase: the one detail the format may normalise
                if self.cond(isinstance(got, fam), f'{why}: gate {type(got).__name__} is not a {fam.__name__}'):
                    if self.strict_exponents:
                        self.num(got.exponent, exp.exponent, f'{why}.exponent')
                    else:
                        self.num_mod(got.exponent, exp.exponent, period, f'{why}.exponent', kmax=int(np.ceil(2 * self.box / period)))
                return
        if not self.cond(type(got) is type(exp), f'{why}: gate type {type(got).__name__} vs {type(exp).__name__}'):
            return
        t = type(exp)
        if t is cirq.PhasedXPowGate:
            if self.strict_exponents:
                self.num(got.exponent, exp.exponent, f'{why}.exponent')
            else:
                self.num_mod(got.exponent, exp.exponent, 2.0, f'{why}.exponent', kmax=int(np.ceil(self.box)))
            # the constructor stores phase_exponent modulo 2 (canonicalize_half_turns)
            return self.num_mod(got.phase_exponent, exp.phase_exponent, 2.0, f'{why}.phase_exponent')
        if t is cirq.PhasedXZGate:
            for f in ('x_exponent', 'z_exponent', 'axis_phase_exponent'):
                self.num(getattr(got, f), getattr(exp, f), f'{why}.{f}')
            return
        if t is cirq.FSimGate:
            # the constructor stores both angles modulo 2 pi
            self.num_mod(got.theta, exp.theta, 2 * np.pi, f'{why}.theta')
            return self.num_mod(got.phi, exp.phi, 2 * np.pi, f'{why}.phi')
        if t in (cg.SycamoreGate, cg.WillowGate, cg.LZSResetViaResonator, cg.MultilevelResetViaResonator):
            return
        if t is cg.LeakageISWAP:
            return self.cond(got.phase_matched == exp.phase_matched, f'{why}.phase_matched')
        if t is cirq.MeasurementGate:
            self.cond(got.num_qubits() == exp.num_qubits() and got.key == exp.key and got.mkey == exp.mkey, f'{why}: measurement key {got.key!r} vs {exp.key!r}')
            self.cond(tuple(got.full_invert_mask()) == tuple(exp.full_invert_mask()), f'{why}: invert mask {got.invert_mask} vs {exp.invert_mask}')
            gc, ec = dict(got.confusion_map), dict(exp.confusion_map)
            self.cond(sorted(gc) == sorted(ec) and all(bool(np.array_equal(gc[k], ec[k])) for k in ec if k in gc), f'{why}: confusion map {gc} vs {ec}')
            return
        if t is cirq.WaitGate:
            self.cond(got.num_qubits() == exp.num_qubits(), f'{why}.num_qubits')
            return self.num(got.duration.total_nanos(), exp.duration.total_nanos(), f'{why}.duration_nanos')
        if t is cirq.IdentityGate:
            return self.cond(tuple(cirq.qid_shape(got)) == tuple(cirq.qid_shape(exp)), f'{why}.qid_shape')
        if t is cirq.ResetChannel:
            return self.num(got.dimension, exp.dimension, f'{why}.dimension')
        if t is cirq.DepolarizingChannel:
            self.cond(got.n_qubits == exp.n_qubits, f'{why}.n_qubits')
            return self.num(got.p, exp.p, f'{why}.p')
        if t is cirq.RandomGateChannel:
            self.num(got.probability, exp.probability, f'{why}.probability')
            return self.gate(got.sub_gate, exp.sub_gate, f'{why}.sub_gate')
        if t is cirq.SingleQubitCliffordGate:
            a, b = got.clifford_tableau, exp.clifford_tableau
            return self.cond(a.n == b.n and bool(np.array_equal(a.xs, b.xs)) and bool(np.array_equal(a.zs, b.zs)) and bool(np.array_equal(a.rs, b.rs)), f'{why}: tableau')
        if t is CouplerPulse:
            for f in ('hold_time', 'rise_time', 'padding_time'):
                self.num(getattr(got, f).total_picos(), getattr(exp, f).total_picos(), f'{why}.{f}_ps')
            for f in ('coupling_mhz', 'q0_detune_mhz', 'q1_detune_mhz'):
                self.num(getattr(got, f), getattr(exp, f), f'{why}.{f}')
            return
        if t is cg.InternalGate:
            self.cond(got.gate_name == exp.gate_name and (got.gate_module or '') == (exp.gate_module or '') and got.num_qubits() == exp.num_qubits(), f'{why}: {got!r} vs {exp!r}')
            self.same(got.gate_args, exp.gate_args, f'{why}.gate_args')
            self.cond(sorted(got.custom_args) == sorted(exp.custom_args), f'{why}.custom_args keys')
            for k in exp.custom_args:
                if k in got.custom_args:
                    a, b = got.custom_args[k].function_interpolation_data, exp.custom_args[k].function_interpolation_data
                    self.same(list(a.x_values), list(b.x_values), f'{why}.custom_args[{k}].x')
                    self.same(list(a.y_values), list(b.y_values), f'{why}.custom_args[{k}].y')
            return
        self.fail(f'{why}: gate type {t.__name__} has no field table in oracles/qe_format.py')

    # ---- operations / moments / circuits -------------------------------------------------------------
    def op(self, got, exp, why='', ordered_tags=True):
        import cirq

        if isinstance(exp.gate, (cirq.CZPowGate, cirq.ISwapPowGate, cirq.FSimGate)):
            # gates documented as symmetric in their two qubits (InterchangeableQubitsGate): cirq equality ignores the
            # order, equal operations share one constant, so the order is not part of the circuit's meaning
            self.cond(set(got.qubits) == set(exp.qubits) and len(got.qubits) == len(exp.qubits), f'{why}: qubits {got.qubits} vs {exp.qubits}')
        else:
            self.cond(tuple(got.qubits) == tuple(exp.qubits), f'{why}: qubits {got.qubits} vs {exp.qubits}')
        self.tags(got.tags, exp.tags, why, ordered=ordered_tags)
        gu, eu = got.untagged, exp.untagged
        ecc = isinstance(eu, cirq.ClassicallyControlledOperation)
        if not self.cond(isinstance(gu, cirq.ClassicallyControlledOperation) == ecc, f'{why}: classical control wrapper {type(gu).__name__} vs {type(eu).__name__}'):
            return
        if ecc:
            self.condition_set(gu._conditions, eu._conditions, why)
            gu, eu = gu.without_classical_controls(), eu.without_classical_controls()
            # tags between the control wrapper and the gate operation
            self.tags(gu.tags, eu.tags, why + '(inner)', ordered=ordered_tags)
            gu, eu = gu.untagged, eu.untagged
        if isinstance(eu, cirq.CircuitOperation):
            if not self.cond(isinstance(gu, cirq.CircuitOperation), f'{why}: {type(gu).__name__} instead of CircuitOperation'):
                return
            return self.circuit_op(gu, eu, why)
        if not self.cond(isinstance(gu, cirq.GateOperation) and isinstance(eu, cirq.GateOperation), f'{why}: operation classes {type(gu).__name__} vs {type(eu).__name__}'):
            return
        self.gate(gu.gate, eu.gate, f'{why}.gate')

    def circuit_op(self, got, exp, why=''):
        self.circuit(got.circuit, exp.circuit, f'{why}.circuit')
        self.num(got.repetitions, exp.repetitions, f'{why}.repetitions')
        self.cond(dict(got.qubit_map) == dict(exp.qubit_map), f'{why}.qubit_map {got.qubit_map} vs {exp.qubit_map}')
        self.cond(dict(got.measurement_key_map) == dict(exp.measurement_key_map), f'{why}.measurement_key_map {got.measurement_key_map} vs {exp.measurement_key_map}')
        gp, ep = dict(got.param_resolver.param_dict), dict(exp.param_resolver.param_dict)
        if self.cond(len(gp) == len(ep), f'{why}.param_resolver {gp} vs {ep}'):
            for k, v in ep.items():
                hit = [g for g in gp if _same_param_key(g, k)]
                if self.cond(len(hit) == 1, f'{why}.param_resolver key {k!r} missing in {gp}'):
                    gv = gp[hit[0]]
                    if isinstance(v, str) or isinstance(gv, str):
                        self.cond(_as_symbol(gv) == _as_symbol(v), f'{why}.param_resolver[{k!r}] {gv!r} vs {v!r}')
                    else:
                        self.same(gv, v, f'{why}.param_resolver[{k!r}]')
        gi = None if got.repetition_ids is None else list(got.repetition_ids)
        ei = None if exp.repetition_ids is None else list(exp.repetition_ids)
        self.cond(gi == ei, f'{why}.repetition_ids {gi} vs {ei}')
        self.cond(bool(got.use_repetition_ids) == bool(exp.use_repetition_ids), f'{why}.use_repetition_ids')
        if exp.repeat_until is None or got.repeat_until is None:
            self.cond(exp.repeat_until is None and got.repeat_until is None, f'{why}.repeat_until')
        else:
            self.condition(got.repeat_until, exp.repeat_until, f'{why}.repeat_until')

    def moment(self, got, exp, why='', ordered_tags=True):
        gops, eops = list(got.operations), list(exp.operations)
        if not self.cond(len(gops) == len(eops), f'{why}: {len(gops)} operations instead of {len(eops)}'):
            return
        for e in eops:
            # a moment is a set of operations on disjoint qubits: match by qubits
            hit = [g for g in gops if set(g.qubits) == set(e.qubits)]
            if self.cond(len(hit) == 1, f'{why}: no operation on {e.qubits} after the round trip'):
                self.op(hit[0], e, f'{why}.op{list(e.qubits)}', ordered_tags=ordered_tags)
        self.tags(getattr(got, 'tags', ()), getattr(exp, 'tags', ()), why + '(moment)', ordered=ordered_tags)

    def circuit(self, got, exp, why='', ordered_tags=True):
        gm, em = list(got.moments), list(exp.moments)
        if not self.cond(len(gm) == len(em), f'{why}: {len(gm)} moments instead of {len(em)}'):
            return
        for i, (g, e) in enumerate(zip(gm, em)):
            self.moment(g, e, f'{why}.moment[{i}]', ordered_tags=ordered_tags)
        self.tags(getattr(got, 'tags', ()), getattr(exp, 'tags', ()), why + '(circuit)', ordered=ordered_tags)

    # ---- verdict ---------------------------------------------------------------------------------------
    def finish(self, label, wrong=False):
        cx = self.cx
        conds = list(self.conds)
        nums, exprs = list(self.nums), list(self.exprs)
        if wrong:
            # vacuity twin: demand a visibly different number (or, without numbers, a false structure)
            if nums:
                g, e, w = nums[-1]
                nums[-1] = (g, e + 8 * self.tol + 1e-3, w)
            elif exprs:
                g, e, w = exprs[-1]
                exprs[-1] = (g, e + 0.01, w)
            else:
                conds.append(NOT(AND(conds)))
        import os

        dbg = bool(os.environ.get('QE_FORMAT_DEBUG'))
        c = AND(conds)
        # labels are STABLE strings (known-findings entries match on them); the details go to notes
        if isinstance(c, bool) and not c and self.why:
            detail = '; '.join(w for w in self.why if w)[:400]
            cx.note(f'{label} structure: ' + detail)
            cx.check(False, label=f'{label} structure' + (f' [{detail}]' if dbg else ''))
        else:
            cx.check(c, label=f'{label} structure')
        if nums:
            if dbg:
                cx.note(f'{label} numbers: ' + ', '.join(w for _, _, w in nums)[:300])
            cx.close([g for g, _, _ in nums], [e for _, e, _ in nums], tol=self.tol, label=f'{label} numbers')
        if exprs:
            cx.close([g for g, _, _ in exprs], [e for _, e, _ in exprs], tol=self.expr_tol, label=f'{label} formulas')


def _is_sym_bool(x):
    from symx.sint import SBool

    return isinstance(x, SBool)


def _same_param_key(a, b):
    return _as_symbol(a) == _as_symbol(b)


def _as_symbol(x):
    return sympy.Symbol(x) if isinstance(x, str) else x


_EIGEN = []


def _EIGEN_SUBCLASSES():
    if not _EIGEN:
        import cirq

        _EIGEN.extend([cirq.XPowGate, cirq.YPowGate, cirq.ZPowGate, cirq.HPowGate, cirq.CZPowGate, cirq.ISwapPowGate])
    return _EIGEN

"""Reference semantics for measurement-result views and integer/digit conversions (C18).

Everything here is written from the documentation of cirq.Result / cirq.value.digits:

* a record array has shape (repetitions, instances, qubits); `measurements[key][r][q]` is
  `records[key][r][0][q]` for keys measured once per repetition;
* "big endian": the FIRST digit is the most significant one;  value = sum_i d_i * prod_{j>i} b_j;
* a histogram counts, for every distinct folded value, the repetitions that produced it.

All helpers work on plain Python ints/bools (concrete mode) and on SInt/SBool (symbolic mode).
No function of cirq is called here.
"""
from __future__ import annotations

import numpy as np

from symx.sint import SBool, SInt

_PLAIN_BOOL = (bool, np.bool_)


def py(x):
    """numpy scalar -> Python scalar (numpy scalars must never meet symbolic operands)"""
    if isinstance(x, np.generic):
        return x.item()
    return x


def EQ(a, b):
    a, b = py(a), py(b)
    if isinstance(a, SBool) or isinstance(b, SBool):
        if isinstance(a, _PLAIN_BOOL + (int,)) and not isinstance(a, SBool):
            a = SBool(bool(a)) if a in (0, 1) else None
        if isinstance(b, _PLAIN_BOOL + (int,)) and not isinstance(b, SBool):
            b = SBool(bool(b)) if b in (0, 1) else None
        if a is None or b is None:
            return False
        return a == b
    r = a == b
    if isinstance(r, SBool):
        return r
    return bool(r)


def NOT(c):
    if isinstance(c, _PLAIN_BOOL):
        return not c
    return ~c


def AND(conds):
    acc = True
    for c in conds:
        if isinstance(c, _PLAIN_BOOL):
            if not c:
                return False
            continue
        if c.is_const():
            if not c.c:
                return False
            continue
        acc = c if acc is True else (acc & c)
    return acc


def OR(conds):
    acc = False
    for c in conds:
        if isinstance(c, _PLAIN_BOOL):
            if c:
                return True
            continue
        if c.is_const():
            if c.c:
                return True
            continue
        acc = c if acc is False else (acc | c)
    return acc


def IFF(a, b):
    return EQ(_as_b(a), _as_b(b))


def _as_b(c):
    if isinstance(c, _PLAIN_BOOL):
        return bool(c)
    return c


def B2I(c):
    """truth value as 0/1 integer (symbolic if the condition is)"""
    if isinstance(c, _PLAIN_BOOL):
        return 1 if c else 0
    if c.is_const():
        return 1 if c.c else 0
    return c.to_sint()


def LE(a, b):
    r = py(a) <= py(b)
    return r if isinstance(r, SBool) else bool(r)


def LT(a, b):
    r = py(a) < py(b)
    return r if isinstance(r, SBool) else bool(r)


def weights(bases):
    """big-endian place values: w_i = prod_{j>i} b_j (the last digit has weight 1)"""
    w = [1] * len(bases)
    for i in range(len(bases) - 2, -1, -1):
        w[i] = w[i + 1] * int(bases[i + 1])
    return w


def radix_value(digits, bases, little_endian=False):
    """the integer denoted by `digits` (first digit most significant) in the mixed radix `bases`.
    little_endian=True gives the WRONG convention (used only by vacuity twins)."""
    digits = [py(d) for d in digits]
    bases = [int(b) for b in bases]
    assert len(digits) == len(bases)
    if little_endian:
        digits = digits[::-1]
        bases = bases[::-1]
    w = weights(bases)
    total = 0
    for d, wi in zip(digits, w):
        total = total + d * wi
    return total


def bits_value(bits, little_endian=False):
    bits = list(bits)
    return radix_value(bits, [2] * len(bits), little_endian)


def in_range(digits, bases):
    return AND([AND([LE(0, d), LT(d, b)]) for d, b in zip(digits, bases)])


def seq_eq(xs, ys, eq=EQ):
    xs, ys = list(xs), list(ys)
    if len(xs) != len(ys):
        return False
    return AND([eq(x, y) for x, y in zip(xs, ys)])


def tuple_eq(a, b):
    """equality of (possibly nested) tuples/lists of ints"""
    if isinstance(a, (tuple, list, np.ndarray)) or isinstance(b, (tuple, list, np.ndarray)):
        if not (isinstance(a, (tuple, list, np.ndarray)) and isinstance(b, (tuple, list, np.ndarray))):
            return False
        return seq_eq(a, b, tuple_eq)
    return EQ(a, b)


def counter_matches(counter, values, eq=EQ):
    """condition:  `counter` is exactly the histogram of `values` (one entry per repetition).

      * the counts add up to the number of repetitions and every count is >= 1,
      * for every repetition r: the counts of the keys equal to values[r] add up to the number of
        repetitions r' with values[r'] == values[r],
      * every key equals the value of some repetition, and the keys are pairwise different.
    """
    items = list(counter.items())
    keys = [k for k, _ in items]
    counts = [int(c) for _, c in items]
    conds = [sum(counts) == len(values)]
    conds += [c >= 1 for c in counts]
    for r, v in enumerate(values):
        lhs = 0
        for k, c in zip(keys, counts):
            lhs = lhs + B2I(eq(k, v)) * c
        rhs = 0
        for v2 in values:
            rhs = rhs + B2I(eq(v2, v))
        conds.append(EQ(lhs, rhs))
    for i, k in enumerate(keys):
        conds.append(OR([eq(k, v) for v in values]))
        for k2 in keys[i + 1 :]:
            conds.append(NOT(eq(k, k2)))
    return AND(conds)

"""Reference semantics for parameter resolution and sweeps, written from the documentation.

* `ev(expr, envs)`  ordinary algebra on a sympy expression TREE: symbols are looked up in a chain of
  assignments (one dict per resolver applied in sequence), constants are the numbers they denote,
  Add / Mul / Pow are Python `+ * **`.  No sympy `subs`, no `ParamResolver`.  Works on floats and on
  symbolic scalars (SNum) alike, because it only uses Python arithmetic.
* sweeps as plain Python lists: a sweep is `(keys, rows)`, `rows` a list of tuples of (key, value)
  pairs, built from the class docstrings in cirq/study/sweeps.py.
"""
from __future__ import annotations

import math
import numbers

import sympy


class Unresolved(Exception):
    pass


def _is_num(v):
    return isinstance(v, numbers.Number) and not isinstance(v, sympy.Basic)


def ev(expr, envs, stage=0, depth=0):
    """value of `expr` after applying the resolvers `envs[stage], envs[stage+1], ...` in sequence, each
    of them recursively (a symbol mapped to a formula is replaced by the value of that formula)."""
    if isinstance(envs, dict):
        envs = [envs]
    if depth > 40:
        raise RecursionError('param_algebra.ev: assignment chain does not terminate')
    if _is_num(expr):
        return expr
    if isinstance(expr, str):
        expr = sympy.Symbol(expr)
    if isinstance(expr, sympy.Symbol):
        for i in range(stage, len(envs)):
            if expr.name in envs[i]:
                v = envs[i][expr.name]
                if _is_num(v):
                    return v
                return ev(v, envs, i, depth + 1)
        raise Unresolved(expr.name)
    if expr is sympy.pi:
        return math.pi
    if isinstance(expr, sympy.Integer):
        return int(expr.p)
    if isinstance(expr, sympy.Rational):
        return int(expr.p) / int(expr.q)
    if isinstance(expr, sympy.Float):
        return float(expr)
    if isinstance(expr, sympy.Add):
        tot = 0
        for a in expr.args:
            tot = tot + ev(a, envs, stage, depth + 1)
        return tot
    if isinstance(expr, sympy.Mul):
        tot = 1
        for a in expr.args:
            tot = tot * ev(a, envs, stage, depth + 1)
        return tot
    if isinstance(expr, sympy.Pow):
        base = ev(expr.args[0], envs, stage, depth + 1)
        p = ev(expr.args[1], envs, stage, depth + 1)
        if not isinstance(p, (int, float)):
            raise Unresolved('symbolic exponent of Pow')
        if float(p).is_integer():
            p = int(p)
            if p >= 0:
                out = 1
                for _ in range(p):
                    out = out * base
                return out
            out = 1
            for _ in range(-p):
                out = out * base
            return 1 / out
        return base**p
    raise Unresolved(f'unsupported node {type(expr).__name__}')


def env_of(mapping):
    """normalise a resolver dictionary (str / Symbol keys, str values = symbol names) to {name: value}"""
    out = {}
    for k, v in mapping.items():
        k = k.name if isinstance(k, sympy.Symbol) else k
        if isinstance(v, str):
            v = sympy.Symbol(v)
        out[k] = v
    return out


def names(expr):
    """parameter names of a formula: the symbols occurring in the tree"""
    if isinstance(expr, sympy.Symbol):
        return {expr.name}
    if isinstance(expr, sympy.Basic):
        out = set()
        for a in expr.args:
            out |= names(a)
        return out
    return set()


# ---- sweeps as lists --------------------------------------------------------------------------
def points(key, values):
    """Points: 'a simple sweep with explicitly supplied values'"""
    return [key], [((key, v),) for v in values]


def linspace(key, start, stop, length):
    """Linspace: 'assigns to the list of values start, start + (stop - start)/(length - 1), ..., stop'"""
    if length == 1:
        return [key], [((key, start),)]
    return [key], [((key, start + (stop - start) * (i / (length - 1))),) for i in range(length)]


def unit():
    """UnitSweep: 'a sweep with a single element that assigns no parameter values'"""
    return [], [()]


def product(*factors):
    """Product: 'all possible combinations ... the leftmost sweep is the outer loop'"""
    keys = [k for f in factors for k in f[0]]
    rows = [()]
    for _k, frows in factors:
        rows = [r + fr for r in rows for fr in frows]
    return keys, rows


def zip_(*sweeps):
    """Zip: 'pair-wise matched values ... stopping when the first component sweep stops'; no sweeps = empty"""
    keys = [k for s in sweeps for k in s[0]]
    if not sweeps:
        return keys, []
    n = min(len(s[1]) for s in sweeps)
    rows = []
    for i in range(n):
        r = ()
        for s in sweeps:
            r = r + s[1][i]
        rows.append(r)
    return keys, rows


def zip_longest(*sweeps):
    """ZipLongest: 'iterate until all sweeps terminate ... shorter sweeps filled by repeating their last value'"""
    keys = [k for s in sweeps for k in s[0]]
    if not sweeps:
        return keys, []
    n = max(len(s[1]) for s in sweeps)
    rows = []
    for i in range(n):
        r = ()
        for s in sweeps:
            r = r + s[1][min(i, len(s[1]) - 1)]
        rows.append(r)
    return keys, rows


def concat(*sweeps):
    """Concat: 'a sweep assigning a to the values 0,1,2,3,4,5 in sequence'"""
    return list(sweeps[0][0]), [r for s in sweeps for r in s[1]]


def list_sweep(dicts):
    """ListSweep: 'a wrapper around a list of ParamResolvers'"""
    keys = [str(k) for k in dicts[0]] if dicts else []
    return keys, [tuple((k.name if isinstance(k, sympy.Symbol) else k, v) for k, v in d.items()) for d in dicts]

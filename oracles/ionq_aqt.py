"""Independent interpreters of vendor job payloads (C17).

Nothing here calls cirq, cirq_ionq or cirq_aqt.  The gate meanings are transcribed from the vendors'
documentation:

IonQ (docs.ionq.com "Writing quantum programs / supported gates" and "Getting started with native
gates"; the JSON field names are the ones of the IonQ circuit format):

  QIS gate set      x y z h s si t ti v vi not           fixed single qubit gates
                    rx ry rz   {"rotation": radians}     exp(-i * rotation/2 * P)
                    xx yy zz   {"rotation": radians}     exp(-i * rotation/2 * P(x)P)
                    cnot       {"control": c, "target": t} (or "controls"/"targets" lists)
                    swap       {"targets": [a, b]}
                    pauliexp   {"terms": [strings over IXYZ], "coefficients": [...], "time": t,
                                "targets": [...]}         exp(-i * time * sum_j coefficient_j * term_j)
                               term strings are LITTLE endian with respect to "targets": the LAST
                               character acts on targets[0] (stated in the cirq_ionq serializer and the
                               same convention as IonQ's other SDK front ends)
  native gate set   gpi  {"phase": turns}                [[0, e^{-2 pi i phase}], [e^{2 pi i phase}, 0]]
                    gpi2 {"phase": turns}                1/sqrt2 [[1, -i e^{-2 pi i phase}], [-i e^{2 pi i phase}, 1]]
                    ms   {"phases": [p0, p1], "angle": turns (default 0.25)}   Molmer-Sorensen
                    zz   {"phase": turns}                diag(e^{-i pi th}, e^{i pi th}, e^{i pi th}, e^{-i pi th})
                         (field name as used by cirq_ionq's own contract; see report for the caveat)
  qubit i of the program is wire i (0-based) of a register of payload["qubits"] wires.
  Measurement keys travel in the job metadata: the values of metadata["measurement0"],
  ["measurement1"], ... concatenated in index order give  key US targets RS key US targets ...
  (US = chr(31), RS = chr(30), targets = comma separated wire indices).
  Result histograms: the integer key k of an outcome is LITTLE endian: bit i of k (value 2^i) is the
  outcome of wire i.

AQT (cirq_aqt docstrings of AQTSampler._generate_json / the Arnica API gate classes GateRZ, GateR,
GateRXX; all angles are in units of pi):

  legacy list format   ["Z",  phi,        [q]]     RZ(phi)       = exp(-i * pi*phi/2 * Z)
                       ["R",  theta, phi, [q]]     R(theta, phi) = exp(-i * pi*theta/2 * (cos(pi phi) X + sin(pi phi) Y))
                       ["MS", theta,      [a, b]]  RXX(theta)    = exp(-i * pi*theta/2 * X(x)X)
                       ["Meas", ...]               measurement of all qubits
  Arnica v1 format     {"operation": "RZ", "qubit": q, "phi": phi}
                       {"operation": "R", "qubit": q, "theta": theta, "phi": phi}
                       {"operation": "RXX", "qubits": [a, b], "theta": theta}
                       {"operation": "MEASURE"}   exactly once, last

All matrices are big endian over the listed wires (first listed wire = most significant index bit).
The functions work on floats (concrete replay) and on SNum (symbolic runs).
"""
from __future__ import annotations

import math

import numpy as np

from oracles.embed import apply_matrix_to_axes
from symx.snum import SNum, cos, exp, sin

PI = math.pi
_R2 = 1 / math.sqrt(2)

P1 = {
    'I': [[1, 0], [0, 1]],
    'X': [[0, 1], [1, 0]],
    'Y': [[0, -1j], [1j, 0]],
    'Z': [[1, 0], [0, -1]],
}


def mat(rows):
    flat = [e for r in rows for e in r]
    if any(isinstance(e, SNum) for e in flat):
        a = np.empty((len(rows), len(rows[0])), dtype=object)
        for i, r in enumerate(rows):
            for j, e in enumerate(r):
                a[i, j] = e if isinstance(e, SNum) else SNum.const(e)
        return a
    return np.array(rows, dtype=complex)


def is_symbolic(m):
    return isinstance(m, np.ndarray) and np.ndarray.dtype.__get__(m) == object


def dagger(m):
    n, k = m.shape
    out = np.empty((k, n), dtype=object if is_symbolic(m) else complex)
    for i in range(n):
        for j in range(k):
            e = m[i, j]
            out[j, i] = e.conjugate() if hasattr(e, 'conjugate') else e
    return out


def pauli_string_matrix(chars):
    """kron of single-qubit Paulis, first character = most significant wire"""
    m = np.eye(1, dtype=complex)
    for ch in chars:
        m = np.kron(m, np.array(P1[ch], dtype=complex))
    return m


def exp_pauli(half_angle, P):
    """exp(-i * half_angle * P) for a matrix P with P @ P = I:  cos(a) I - i sin(a) P"""
    P = np.asarray(P, dtype=complex)
    n = P.shape[0]
    assert np.allclose(P @ P, np.eye(n))
    c, s = cos(half_angle), sin(half_angle)
    rows = []
    for i in range(n):
        row = []
        for j in range(n):
            e = c if i == j else 0
            if P[i, j] != 0:
                e = e + (-1j) * complex(P[i, j]) * s
            row.append(e)
        rows.append(row)
    return mat(rows)


def turn(x):
    """exp(2 pi i x)"""
    return exp(2j * PI * x)


# ================================================================================================
# IonQ
# ================================================================================================
_FIXED = {
    'x': [[0, 1], [1, 0]],
    'not': [[0, 1], [1, 0]],
    'y': [[0, -1j], [1j, 0]],
    'z': [[1, 0], [0, -1]],
    'h': [[_R2, _R2], [_R2, -_R2]],
    's': [[1, 0], [0, 1j]],
    'si': [[1, 0], [0, -1j]],
    't': [[1, 0], [0, complex(_R2, _R2)]],
    'ti': [[1, 0], [0, complex(_R2, -_R2)]],
    # square root of NOT and its inverse
    'v': [[0.5 + 0.5j, 0.5 - 0.5j], [0.5 - 0.5j, 0.5 + 0.5j]],
    'vi': [[0.5 - 0.5j, 0.5 + 0.5j], [0.5 + 0.5j, 0.5 - 0.5j]],
}
_ROT1 = {'rx': 'X', 'ry': 'Y', 'rz': 'Z'}
_ROT2 = {'xx': 'XX', 'yy': 'YY', 'zz': 'ZZ'}


class PayloadError(Exception):
    """the payload is not a well-formed program in the vendor's format"""


def _wires(op, single, plural):
    if plural in op and single in op:
        raise PayloadError(f'both {single} and {plural} in {op!r}')
    if plural in op:
        w = list(op[plural])
    elif single in op:
        w = [op[single]]
    else:
        w = []
    for q in w:
        if not isinstance(q, (int, np.integer)) or isinstance(q, bool):
            raise PayloadError(f'wire index {q!r} is not an integer in {op!r}')
    return [int(q) for q in w]


def ionq_op(op, gateset):
    """(matrix, wires) of one IonQ circuit entry"""
    if not isinstance(op, dict) or 'gate' not in op:
        raise PayloadError(f'not a gate entry: {op!r}')
    g = op['gate']
    targets = _wires(op, 'target', 'targets')
    controls = _wires(op, 'control', 'controls')
    allowed = {'gate', 'target', 'targets', 'control', 'controls'}

    def fields(*names):
        extra = set(op) - allowed - set(names)
        if extra:
            raise PayloadError(f'unexpected fields {sorted(extra)} in {op!r}')
        missing = [n for n in names if n not in op]
        return missing

    if gateset == 'native':
        if controls:
            raise PayloadError('native gates have no controls')
        if g in ('gpi', 'gpi2'):
            if fields('phase') or len(targets) != 1:
                raise PayloadError(f'bad {g}: {op!r}')
            p = op['phase']
            if g == 'gpi':
                return mat([[0, turn(-p)], [turn(p), 0]]), targets
            return mat([[_R2, -1j * _R2 * turn(-p)], [-1j * _R2 * turn(p), _R2]]), targets
        if g == 'ms':
            miss = fields('phases', 'angle')
            if 'phases' in miss or len(targets) != 2 or len(op['phases']) != 2:
                raise PayloadError(f'bad ms: {op!r}')
            p0, p1 = op['phases']
            th = op.get('angle', 0.25)
            c, s = cos(PI * th), sin(PI * th)
            return (
                mat(
                    [
                        [c, 0, 0, -1j * turn(-(p0 + p1)) * s],
                        [0, c, -1j * turn(-(p0 - p1)) * s, 0],
                        [0, -1j * turn(p0 - p1) * s, c, 0],
                        [-1j * turn(p0 + p1) * s, 0, 0, c],
                    ]
                ),
                targets,
            )
        if g == 'zz':
            if fields('phase') or len(targets) != 2:
                raise PayloadError(f'bad native zz: {op!r}')
            th = op['phase']
            a, b = exp(-1j * PI * th), exp(1j * PI * th)
            return mat([[a, 0, 0, 0], [0, b, 0, 0], [0, 0, b, 0], [0, 0, 0, a]]), targets
        raise PayloadError(f'{g!r} is not a native gate')

    if gateset != 'qis':
        raise PayloadError(f'unknown gateset {gateset!r}')
    if g in _FIXED:
        if fields() or len(targets) != 1 or controls:
            raise PayloadError(f'bad {g}: {op!r}')
        return np.array(_FIXED[g], dtype=complex), targets
    if g in _ROT1:
        if fields('rotation') or len(targets) != 1 or controls:
            raise PayloadError(f'bad {g}: {op!r}')
        return exp_pauli(op['rotation'] * 0.5, P1[_ROT1[g]]), targets
    if g in _ROT2:
        if fields('rotation') or len(targets) != 2 or controls:
            raise PayloadError(f'bad {g}: {op!r}')
        return exp_pauli(op['rotation'] * 0.5, pauli_string_matrix(_ROT2[g])), targets
    if g == 'cnot':
        if fields() or len(targets) != 1 or len(controls) != 1:
            raise PayloadError(f'bad cnot: {op!r}')
        m = np.array([[1, 0, 0, 0], [0, 1, 0, 0], [0, 0, 0, 1], [0, 0, 1, 0]], dtype=complex)
        return m, [controls[0], targets[0]]
    if g == 'swap':
        if fields() or len(targets) != 2 or controls:
            raise PayloadError(f'bad swap: {op!r}')
        m = np.array([[1, 0, 0, 0], [0, 0, 1, 0], [0, 1, 0, 0], [0, 0, 0, 1]], dtype=complex)
        return m, targets
    if g == 'pauliexp':
        if fields('terms', 'coefficients', 'time') or controls:
            raise PayloadError(f'bad pauliexp: {op!r}')
        terms, coefs, time = op['terms'], op['coefficients'], op['time']
        if len(terms) != len(coefs) or not terms:
            raise PayloadError(f'bad pauliexp terms: {op!r}')
        mats = []
        for term in terms:
            if len(term) != len(targets) or any(ch not in 'IXYZ' for ch in term):
                raise PayloadError(f'bad pauliexp term {term!r} for targets {targets}')
            # little endian: LAST character acts on targets[0]
            mats.append(pauli_string_matrix(term[::-1]))
        for i in range(len(mats)):
            for j in range(i):
                if not np.allclose(mats[i] @ mats[j], mats[j] @ mats[i]):
                    raise NotImplementedError('pauliexp with non-commuting terms')
        out = None
        for P, c in zip(mats, coefs):
            if np.allclose(P, np.eye(len(P))):
                continue  # identity term: global phase
            m = exp_pauli(time * c, P)
            out = m if out is None else out @ m
        if out is None:
            out = np.eye(2 ** len(targets), dtype=complex)
        return out, targets
    raise PayloadError(f'{g!r} is not a QIS gate')


def ionq_program_ops(program):
    """list of (matrix, wires) of an IonQ single-circuit program input {'gateset','qubits','circuit'}"""
    gs = program['gateset']
    n = program['qubits']
    out = []
    for op in program['circuit']:
        m, w = ionq_op(op, gs)
        if len(set(w)) != len(w) or any(not 0 <= q < n for q in w):
            raise PayloadError(f'wires {w} outside the register of {n} qubits / repeated')
        out.append((m, w))
    return out


def decode_ionq_measurements(metadata):
    """{key: [wires]} (insertion ordered) from the measurementN metadata entries"""
    chunks = []
    i = 0
    while f'measurement{i}' in metadata:
        v = metadata[f'measurement{i}']
        if not isinstance(v, str) or len(v) > 40 or len(v) == 0:
            raise PayloadError(f'metadata value measurement{i} must be a non-empty string of <= 40 characters')
        chunks.append(v)
        i += 1
    stray = [k for k in metadata if k.startswith('measurement') and k[len('measurement') :].isdigit() and int(k[len('measurement') :]) >= i]
    if stray:
        raise PayloadError(f'non-contiguous measurement chunks {stray}')
    if i > 9:
        raise PayloadError('more than 9 measurement chunks')
    full = ''.join(chunks)
    out = {}
    if not full:
        return out
    for rec in full.split(chr(30)):
        parts = rec.split(chr(31))
        if len(parts) != 2:
            raise PayloadError(f'bad measurement record {rec!r}')
        key, tg = parts
        if key in out:
            raise PayloadError(f'measurement key {key!r} twice')
        out[key] = [int(t) for t in tg.split(',')]
    return out


# ================================================================================================
# AQT
# ================================================================================================
def _aqt_rz(phi):
    return exp_pauli(PI * phi * 0.5, P1['Z'])


def _aqt_r(theta, phi):
    # exp(-i pi theta/2 (cos(pi phi) X + sin(pi phi) Y)) = cos(a) I - i sin(a) [[0, e^{-i pi phi}], [e^{i pi phi}, 0]]
    a = PI * theta * 0.5
    c, s = cos(a), sin(a)
    em, ep = exp(-1j * PI * phi), exp(1j * PI * phi)
    return mat([[c, -1j * s * em], [-1j * s * ep, c]])


def _aqt_rxx(theta):
    return exp_pauli(PI * theta * 0.5, pauli_string_matrix('XX'))


def aqt_legacy_ops(seq):
    """(list of (matrix, wires), number of trailing 'Meas' entries) of the legacy list format"""
    out = []
    meas = 0
    for entry in seq:
        entry = list(entry)
        name = entry[0]
        if meas:
            raise PayloadError('operation after the measurement')
        if name == 'Z':
            if len(entry) != 3 or len(entry[2]) != 1:
                raise PayloadError(f'bad Z entry {entry!r}')
            out.append((_aqt_rz(entry[1]), [int(entry[2][0])]))
        elif name == 'R':
            if len(entry) != 4 or len(entry[3]) != 1:
                raise PayloadError(f'bad R entry {entry!r}')
            out.append((_aqt_r(entry[1], entry[2]), [int(entry[3][0])]))
        elif name == 'MS':
            if len(entry) != 3 or len(entry[2]) != 2:
                raise PayloadError(f'bad MS entry {entry!r}')
            out.append((_aqt_rxx(entry[1]), [int(q) for q in entry[2]]))
        elif name == 'Meas':
            meas += 1
        else:
            raise PayloadError(f'unknown legacy AQT operation {name!r}')
    return out, meas


def aqt_arnica_ops(circuit):
    """list of (matrix, wires) of an Arnica v1 `quantum_circuit`; requires exactly one final MEASURE"""
    out = []
    n_meas = 0
    for ins in circuit:
        if n_meas:
            raise PayloadError('operation after MEASURE')
        name = ins['operation']
        if name == 'RZ':
            if set(ins) != {'operation', 'qubit', 'phi'}:
                raise PayloadError(f'bad RZ {ins!r}')
            out.append((_aqt_rz(ins['phi']), [int(ins['qubit'])]))
        elif name == 'R':
            if set(ins) != {'operation', 'qubit', 'phi', 'theta'}:
                raise PayloadError(f'bad R {ins!r}')
            out.append((_aqt_r(ins['theta'], ins['phi']), [int(ins['qubit'])]))
        elif name == 'RXX':
            if set(ins) != {'operation', 'qubits', 'theta'} or len(ins['qubits']) != 2:
                raise PayloadError(f'bad RXX {ins!r}')
            out.append((_aqt_rxx(ins['theta']), [int(q) for q in ins['qubits']]))
        elif name == 'MEASURE':
            if set(ins) != {'operation'}:
                raise PayloadError(f'bad MEASURE {ins!r}')
            n_meas += 1
        else:
            raise PayloadError(f'unknown Arnica operation {name!r}')
    if n_meas != 1:
        raise PayloadError('an Arnica circuit needs exactly one MEASURE, as its last operation')
    return out


# ================================================================================================
# comparison of two operator sequences up to a global phase
# ================================================================================================
def phase_residual(n, payload_ops, reference_ops):
    """M = (product of payload ops) @ (product of reference ops)^dagger on an n-wire register.
    Returns (offdiag, diagdiff): the off-diagonal entries of M and M[i,i] - M[0,0] for i >= 1.
    Both products are unitary by construction, so  offdiag == 0 and diagdiff == 0  <=>  the two
    programs are equal up to a global phase.  Operators are applied to the identity tensor in the order
    ref_k^dag, ..., ref_1^dag, payload_1, ..., payload_k so that matching neighbours cancel early."""
    N = 2**n
    T = np.eye(N, dtype=complex).reshape([2] * n + [N])
    sym = any(is_symbolic(m) for m, _ in list(payload_ops) + list(reference_ops))
    if sym:
        T = T.astype(object)
    for m, w in reversed(list(reference_ops)):
        T = apply_matrix_to_axes(dagger(m), T, list(w))
    for m, w in payload_ops:
        T = apply_matrix_to_axes(m, T, list(w))
    Mx = np.asarray(T).reshape(N, N)
    off = [Mx[i, j] for i in range(N) for j in range(N) if i != j]
    dd = [Mx[i, i] - Mx[0, 0] for i in range(1, N)]
    return off, dd


# ================================================================================================
# result bit conventions
# ================================================================================================
def little_endian_bit(k, wire):
    """outcome of `wire` in IonQ's little-endian histogram key k"""
    return (k >> wire) & 1


def big_endian_bit(value, wire, n):
    """outcome of `wire` in a big-endian n-wire value (wire 0 = most significant)"""
    return (value >> (n - 1 - wire)) & 1


def big_endian_value(bits):
    v = 0
    for b in bits:
        v = v * 2 + b
    return v

"""C20 part 2, cancellation accounting: the scripted Quantum Engine model with a CancelQuantumJob RPC log.

`ModelEngine` (oracles/async_drivers.py) only keeps the names of the cancelled jobs.  The cancellation
invariant of C20 ("a caller that sees CancelledError <=> exactly one CancelQuantumJob RPC for its job")
needs to know WHEN each RPC arrived, so the history record is extended here: every cancel RPC is logged
together with the position in the driver's event list, the state the remote job was in and whether the
service had already put the job's result on a stream.  Nothing here looks at the client's internals.
"""
from __future__ import annotations


def make_engine(D, quantum, history, **kw):
    """D = oracles.async_drivers (imported lazily by the caller); history = the scenario's record dict"""

    class CancelLogEngine(D.ModelEngine):
        def __init__(self, *a, **k):
            super().__init__(*a, **k)
            self.result_replies = {}  # job name -> number of result replies actually put on a live stream

        async def cancel_quantum_job(self, request, **kwargs):
            history['cancel_rpcs'].append(
                {
                    'job': request.name,
                    'after_events': len(history['events']),
                    'job_state': self.jobs.get(request.name, 'missing'),
                    'result_already_sent': self.result_replies.get(request.name, 0) > 0,
                }
            )
            await super().cancel_quantum_job(request, **kwargs)

        def _reply(self, st, mid, **kw2):
            if not (st.broken or st.closed) and 'result' in kw2:
                name = kw2['result'].parent
                self.result_replies[name] = self.result_replies.get(name, 0) + 1
            super()._reply(st, mid, **kw2)

    history.setdefault('cancel_rpcs', [])
    return CancelLogEngine(quantum, **kw)

"""Reference semantics of ONE-STEP (non-recursive) parameter resolution, written from the documentation.

`cirq.resolve_parameters(val, resolver, recursive=False)` / `cirq.resolve_parameters_once` /
`CircuitOperation.param_resolver`:  "performs a single resolution step":  every symbol the resolver
assigns is replaced - all of them simultaneously - by what the resolver assigns to it, and the
replacement is NOT looked at again (`a.subs({a: b, b: c}) == b`; `{a: b, b: a}` exchanges a and b).

The oracle is a plain walk over the sympy expression TREE (no `subs`, no `ParamResolver`).  Numbers that a
resolver assigns (they may be solver variables) never enter a sympy expression here: they are parked in
a side table under a fresh PLACEHOLDER symbol `#<n>`, so that the oracle can carry `b + <number>` although
sympy (and therefore the real code in symbolic mode) cannot.  `mixed(expr)` tells whether an expression
holds placeholders AND ordinary symbols - such intermediate results are outside the symbolic fragment of
the harness and are filtered from the menus by structure alone (never by value).

    st = Stepper()
    e1 = st.step(a + c, {'a': b, 'c': 0.25})      # b + #0      (st.table == {'#0': 0.25})
    st.names(e1) == {'b'}                         # parameter names: the ordinary symbols only
    st.value(e1, {'b': vb})                       # vb + 0.25   by ordinary Python arithmetic (param_algebra.ev)
"""
from __future__ import annotations

import sympy

from oracles import param_algebra as PA

PH = '#'


class Stepper:
    """one-step substitution with a side table for assigned numbers"""

    def __init__(self):
        self.table = {}

    def _park(self, v):
        k = f'{PH}{len(self.table)}'
        self.table[k] = v
        return sympy.Symbol(k)

    def step(self, expr, env):
        """`expr` after ONE simultaneous substitution by `env` ({name: formula | symbol | name | number})"""
        if isinstance(expr, str):
            expr = sympy.Symbol(expr)
        if not isinstance(expr, sympy.Basic):
            return expr  # a number: nothing to do
        if isinstance(expr, sympy.Symbol):
            if expr.name.startswith(PH) or expr.name not in env:
                return expr
            v = env[expr.name]
            if isinstance(v, str):
                return sympy.Symbol(v)
            if isinstance(v, sympy.Basic):
                return v
            return self._park(v)
        if not expr.args:
            return expr
        return expr.func(*[self.step(x, env) for x in expr.args])

    def steps(self, expr, envs):
        for e in envs:
            expr = self.step(expr, e)
        return expr

    def fixpoint(self, expr, env, _visiting=()):
        """recursive resolution: every symbol is replaced by the recursively resolved thing the resolver assigns to it
        (a symbol assigned to itself, or not assigned, stays).  None if a symbol is reached again while it is being resolved
        ('a loop in resolution': RecursionError in Cirq), also when the expression as a whole would look unchanged
        (a + b under a <-> b)."""
        if isinstance(expr, str):
            expr = sympy.Symbol(expr)
        if not isinstance(expr, sympy.Basic):
            return expr
        if isinstance(expr, sympy.Symbol):
            if expr.name.startswith(PH) or expr.name not in env:
                return expr
            v = env[expr.name]
            if isinstance(v, str):
                v = sympy.Symbol(v)
            if not isinstance(v, sympy.Basic):
                return self._park(v)
            if v == expr:
                return expr
            if expr.name in _visiting:
                return None
            return self.fixpoint(v, env, _visiting + (expr.name,))
        if not expr.args:
            return expr
        parts = [self.fixpoint(x, env, _visiting) for x in expr.args]
        if any(x is None for x in parts):
            return None
        return expr.func(*parts)

    # ---- queries on stepped expressions -----------------------------------------------------------
    @staticmethod
    def names(expr):
        return {n for n in PA.names(expr) if not n.startswith(PH)}

    @staticmethod
    def placeholders(expr):
        return {n for n in PA.names(expr) if n.startswith(PH)}

    @classmethod
    def mixed(cls, expr):
        return bool(cls.names(expr)) and bool(cls.placeholders(expr))

    @classmethod
    def numeric(cls, expr):
        """no ordinary symbol left: the real code must hold a NUMBER here"""
        return not cls.names(expr)

    def value(self, expr, env):
        """the number `expr` denotes once the remaining symbols take the values in `env` (ordinary algebra)"""
        full = dict(self.table)
        full.update(env)
        return PA.ev(expr, full)


def loops(expr, env):
    """does recursive resolution of `expr` by `env` run into a cycle (structure only)?"""
    return Stepper().fixpoint(expr, env) is None

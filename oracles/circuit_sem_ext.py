"""Extension of the reference interpreter (oracles/circuit_sem.py) used by the C06 extension families.

Adds the meaning of a Pauli-observable measurement (`cirq.PauliMeasurementGate`, built by
`cirq.measure_single_paulistring`), written from its documentation ("A gate that measures a Pauli
observable", observable = tensor product of Pauli matrices with coefficient +1 / -1) and the
textbook projective measurement of an observable with eigenvalues +1 / -1:

    O   = c * P_0 (x) P_1 (x) ...          (P_i the documented 2x2 Pauli matrices, c = +1 / -1)
    Pi_b = (I + (-1)^b O) / 2              projector on the eigenspace with eigenvalue (-1)^b
    record: ONE bit b under the gate's key; the state is projected with Pi_b

The decomposition of the gate in Cirq (basis change, computational measurement, basis change back)
is NOT used.  Also adds BitMaskKeyCondition (from its docstring) and range-checked record
indices.  Embedding, projection, branching and tracing are those of oracles/circuit_sem.py.
"""
from __future__ import annotations

import numpy as np

from oracles import circuit_sem as CS

_PAULI = {
    'I': np.array([[1, 0], [0, 1]], dtype=complex),
    'X': np.array([[0, 1], [1, 0]], dtype=complex),
    'Y': np.array([[0, -1j], [1j, 0]], dtype=complex),
    'Z': np.array([[1, 0], [0, -1]], dtype=complex),
}


def pauli_projectors(letters, coefficient):
    O = np.array([[1.0 + 0j]])
    for ch in letters:
        O = np.kron(O, _PAULI[ch])
    O = coefficient * O
    I = np.eye(O.shape[0])
    return [(I + O) / 2, (I - O) / 2]


def make_cond(ctrls):
    """record so far -> bool.  KeyCondition docstring: true iff any bit of the measurement `index` of
    the key is non-zero.  BitMaskKeyCondition docstring: the bits of measurement `index` of the key,
    first qubit = most significant bit, give an integer a; condition is (a & bitmask) == target_value
    when equal_target, (a & bitmask) != target_value otherwise (no bitmask: a itself).  Other
    conditions (sympy) are evaluated by their own resolve() on a plain record store."""
    import cirq

    def cond(rec):
        for c in ctrls:
            if isinstance(c, (cirq.KeyCondition, cirq.BitMaskKeyCondition)):
                vals = rec.get(str(c.key))
                if vals is None:
                    raise ValueError(f'control on key {c.key} before it is measured')
                if not (-len(vals) <= c.index < len(vals)):
                    raise ValueError(f'control on record {c.index} of key {c.key}, which has {len(vals)} records')
                bits = vals[c.index]
                if isinstance(c, cirq.KeyCondition):
                    ok = any(bits)
                else:
                    a = 0
                    for b in bits:
                        a = 2 * a + int(b)
                    if c.bitmask is not None:
                        a &= c.bitmask
                    ok = (a == c.target_value) if c.equal_target else (a != c.target_value)
                if not ok:
                    return False
            else:
                store = cirq.ClassicalDataDictionaryStore(_records={cirq.MeasurementKey.parse_serialized(k): list(v) for k, v in rec.items()})
                if not c.resolve(store):
                    return False
        return True

    return cond


class BranchesExt(CS.Branches):
    def run(self, ops, matrix_of=None):
        import cirq

        for op in ops:
            inner = op
            cond = None
            ctrls = getattr(op, 'classical_controls', None)
            if ctrls:
                cond = make_cond(ctrls)
                inner = op.without_classical_controls()
            g = inner.gate
            if isinstance(g, cirq.PauliMeasurementGate):
                if g.confusion_matrix is not None:
                    raise NotImplementedError('confusion matrices are not modelled')
                obs = g.observable()
                letters = ''.join(str(p) for p in obs)  # Pauli gates print as X / Y / Z
                coeff = complex(obs.coefficient)
                assert coeff in (1, -1) and set(letters) <= set('XYZ') and len(letters) == len(inner.qubits)
                self.kraus(pauli_projectors(letters, coeff.real), inner.qubits, key=str(g.key), cond=cond)
                continue
            if isinstance(g, cirq.MeasurementGate):
                if g.confusion_map:
                    raise NotImplementedError('confusion maps are not modelled')
                self.measure(inner.qubits, str(g.key), g.full_invert_mask(), cond)
                continue
            M = matrix_of(inner) if matrix_of is not None else None
            if M is not None:
                self.unitary(M, inner.qubits, cond)
                continue
            if cirq.has_unitary(inner):
                self.unitary(cirq.unitary(inner), inner.qubits, cond)
                continue
            keys = cirq.measurement_key_names(inner)
            if len(keys) > 1:
                raise NotImplementedError('multi-key channel')
            self.kraus(list(cirq.kraus(inner)), inner.qubits, key=(next(iter(keys)) if keys else None), cond=cond)
        return self


def meaning(circuit, sys_qubits, matrix_of=None):
    """as circuit_sem.meaning, with Pauli-observable measurements"""
    ops = CS.flat_ops(circuit)
    anc = []
    for op in ops:
        for q in op.qubits:
            if q not in sys_qubits and q not in anc:
                anc.append(q)
    anc.sort()
    return BranchesExt(sys_qubits, anc).run(ops, matrix_of)

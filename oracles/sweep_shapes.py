"""Reference semantics of `cirq.Sweepable` values, written from the documentation (C18, Sampler.sample).

A *shape* is a small description (nested tuples / lists) of a `params` argument whose leaves are INDICES into
a pool of parameter values; the pool entries are whatever the harness puts there (solver variables).  The
check builds the real cirq objects from the same description (checks/C18.py `build_sweepable`); this module
says what they are documented to mean.  No function of cirq is called here.

    ('points', name, (i, j, ..))      cirq.Points(name, [v_i, v_j, ..])      name -> v_i, then v_j, ...
    ('zip', (f1, f2, ..))             cirq.Zip: the factors advance together, stops with the shortest
    ('ziplongest', (f1, f2, ..))      cirq.ZipLongest: advance together until the LONGEST is exhausted,
                                      shorter factors repeat their last value
    ('product', (f1, f2, ..))         cirq.Product: "the leftmost sweep is the outer loop"
    ('concat', (f1, f2, ..))          cirq.Concat: the assignments of f1 in sequence, then those of f2, ... (ONE sweep)
    ('listsweep', (kv1, kv2, ..))     cirq.ListSweep([ParamResolver(kv1), ..]): the given assignments in list order (ONE sweep)
    ('dict', ((name, i), ..))         a dict {name: v_i}: ONE assignment; an entry (name, (i, j)) is a sequence
                                      value: implicit Cartesian product in dict order (leftmost = outer loop),
                                      every resulting assignment being a sweep of its own
    ('resolver', ((name, i), ..))     cirq.ParamResolver({name: v_i}): ONE assignment
    ('dict:sym', ..), ('resolver:sym', ..)   the same with sympy.Symbol(name) as keys (a symbol and its name are the same parameter)
    None                              "a single empty mapping"
    [s1, s2, ..]                      a list (arbitrarily nested): the sweeps of s1, then those of s2, ...

`expand(shape, pool)` returns the list of SWEEPS, each a list of assignments (dict name -> pool value) in the
order in which the sweep is documented to visit them.
"""
from __future__ import annotations


def _merge(dicts):
    out = {}
    for d in dicts:
        for k, v in d.items():
            assert k not in out, 'duplicate symbol in one sweep (shape menu error)'
            out[k] = v
    return out


def _sweep(shape, pool):
    """assignments of ONE sweep object, in order"""
    kind = shape[0]
    if kind == 'points':
        _, name, idx = shape
        return [{name: pool[i]} for i in idx]
    if kind == 'zip':
        fs = [_sweep(f, pool) for f in shape[1]]
        n = min(len(f) for f in fs) if fs else 0
        return [_merge(f[t] for f in fs) for t in range(n)]
    if kind == 'ziplongest':
        fs = [_sweep(f, pool) for f in shape[1]]
        assert all(fs), 'ZipLongest factors must be non-empty (shape menu error)'
        n = max(len(f) for f in fs) if fs else 0
        return [_merge(f[min(t, len(f) - 1)] for f in fs) for t in range(n)]
    if kind == 'product':
        acc = [{}]
        for f in shape[1]:  # leftmost factor = outermost loop: every earlier combination meets every point of f
            pts = _sweep(f, pool)
            acc = [_merge((a, p)) for a in acc for p in pts]
        return acc
    if kind == 'concat':
        return [a for f in shape[1] for a in _sweep(f, pool)]
    if kind == 'listsweep':
        return [{name: pool[i] for name, i in kv} for kv in shape[1]]
    raise ValueError(kind)


def expand(shape, pool):
    """list of sweeps (each: list of assignments name -> value) that `shape` denotes as a Sweepable"""
    if shape is None:
        return [[{}]]
    if isinstance(shape, list):
        return [s for item in shape for s in expand(item, pool)]
    kind = shape[0].split(':')[0]
    if kind == 'resolver':
        return [[{name: pool[i] for name, i in shape[1]}]]
    if kind == 'dict':
        acc = [{}]
        for name, i in shape[1]:
            vals = [pool[j] for j in i] if isinstance(i, tuple) else [pool[i]]
            acc = [_merge((a, {name: v})) for a in acc for v in vals]
        return [[a] for a in acc]
    return [_sweep(shape, pool)]


def symbols(shape):
    """set of symbol names mentioned by a shape"""
    if shape is None:
        return set()
    if isinstance(shape, list):
        return set().union(*[symbols(s) for s in shape]) if shape else set()
    kind = shape[0].split(':')[0]
    if kind == 'points':
        return {shape[1]}
    if kind in ('dict', 'resolver'):
        return {name for name, _ in shape[1]}
    if kind == 'listsweep':
        return {name for kv in shape[1] for name, _ in kv}
    return set().union(*[symbols(f) for f in shape[1]]) if shape[1] else set()

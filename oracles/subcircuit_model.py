"""Reference model of sub-circuits (cirq.CircuitOperation) for C12: a SPEC TREE written in plain
Python data, the FLAT program obtained from it by applying the maps by hand, and a reference
interpreter of flat programs.

Written from the documentation, not from circuit_operation.py:

* CircuitOperation docstring: `repetitions` (negative = inverse circuit repeated), `qubit_map`,
  `measurement_key_map` (on unindexed key NAMES, measurement and control keys alike), `param_resolver`
  (single-step, innermost first: with_params docstring "composed with any existing ParamResolver via
  single-step resolution"), `repetition_ids` / `use_repetition_ids` ("any measurement key in the
  subcircuit will have its path prepended with the repetition id for each repetition. When False ...
  the measurement key will be repeated"), `parent_path` ("identifiers for any parent
  CircuitOperations"), `repeat_until` ("tested after each iteration ... will always run at least once").
* docs/build/classical_control.ipynb "Variable scope": "classically controlled operations will be
  resolved using local repetition IDs, if any": a control key NAME n used at key path P refers to the
  key P[:k]:n with the longest prefix P[:k] for which that key was measured EARLIER in a scope that
  encloses the control (its own loop iteration, or an enclosing circuit body before the sub-circuit
  operation); keys measured inside sibling sub-circuits that carry their own path are not visible
  (comment in CircuitOperation._with_rescoped_keys_: no binding across repeated sub-circuits "just
  because their repetition ids matched"); when nothing is visible the control refers to the global
  key n.  A loop WITHOUT repetition ids repeats the same operations (same keys, same bindings).
* cirq.control_keys docstring: for composite operations only control keys that have not been
  measured earlier in the sub-circuit are returned.
* KeyCondition / BitMaskKeyCondition / SympyCondition docstrings for the run-time value of a condition
  (`index` selects the measurement instance of a repeated key, -1 = latest; bitmask / target_value /
  equal_target as documented).

The only Cirq calls here are CONSTRUCTORS (to_cirq builds the real objects from the spec).
"""
from __future__ import annotations

import itertools

import numpy as np

from oracles import embed as EM
from oracles import gates_doc as D


# ------------------------------------------------------------------------------------------------
# spec tree
# ------------------------------------------------------------------------------------------------
class P:
    """parameter expression coeff * Symbol(name)"""

    def __init__(self, name, coeff=1):
        self.name, self.coeff = name, coeff

    def __repr__(self):
        return f'{self.coeff}*{self.name}'


class Cond:
    """classical condition on key NAME(s): kind in
    'key' (name != 0), 'keyidx' (instance idx of name != 0), 'mask' (BitMaskKeyCondition fields),
    'eq' (sympy Eq(name, value)), 'eq2' (sympy Eq(name, name2))"""

    def __init__(self, kind, name, **kw):
        self.kind, self.name, self.kw = kind, name, kw

    def names(self):
        return [self.name] + ([self.kw['name2']] if self.kind == 'eq2' else [])


class G:
    def __init__(self, fam, qs, e=1.0, conds=(), how='cco'):
        self.fam, self.qs, self.e = fam, tuple(qs), e
        self.conds = tuple(Cond('key', c) if isinstance(c, str) else c for c in conds)
        self.how = how  # 'cco' with_classical_controls / 'if' cirq.If


class M:
    def __init__(self, key, qs):
        self.key, self.qs = key, tuple(qs)


class Sub:
    def __init__(self, items, reps=1, qmap=None, kmap=None, params=None, ids=None, use_ids=None, path=(), until=None):
        self.items = list(items)
        self.reps = reps
        self.qmap = dict(qmap or {})
        self.kmap = dict(kmap or {})
        self.params = dict(params or {})
        self.ids = None if ids is None else list(ids)
        self.use_ids = use_ids
        self.path = tuple(path)
        self.until = until  # Cond or None


FAM = {
    # name: (number of qubits, documented matrix of exponent t)
    'X': (1, lambda t: D.X(t)),
    'Y': (1, lambda t: D.Y(t)),
    'Z': (1, lambda t: D.Z(t)),
    'H': (1, lambda t: D.H(t)),
    'CZ': (2, lambda t: D.CZ(t)),
    'CX': (2, lambda t: D.CX(t)),
    'ISWAP': (2, lambda t: D.ISWAP(t)),
    'SWAP': (2, lambda t: D.SWAP(t)),
    'GP': (0, lambda t: D.global_phase(D.ph(t))),  # global phase exp(i pi t)
}


def _cirq_gate(fam, e):
    import cirq

    if fam == 'GP':
        return cirq.GlobalPhaseGate(D.ph(e))
    base = {'X': cirq.X, 'Y': cirq.Y, 'Z': cirq.Z, 'H': cirq.H, 'CZ': cirq.CZ, 'CX': cirq.CX, 'ISWAP': cirq.ISWAP, 'SWAP': cirq.SWAP}[fam]
    return base**e


def _sym(e):
    import sympy

    if isinstance(e, P):
        s = sympy.Symbol(e.name)
        return s if e.coeff == 1 else e.coeff * s
    return e


def _cirq_cond(c):
    import cirq
    import sympy

    if c.kind == 'key':
        return c.name
    key = cirq.MeasurementKey(c.name)
    if c.kind == 'keyidx':
        return cirq.KeyCondition(key, index=c.kw['index'])
    if c.kind == 'mask':
        return cirq.BitMaskKeyCondition(key, index=c.kw.get('index', -1), target_value=c.kw.get('target', 0), equal_target=c.kw.get('equal', False), bitmask=c.kw.get('bitmask'))
    if c.kind == 'eq':
        return cirq.SympyCondition(sympy.Eq(sympy.Symbol(c.name), c.kw['value']))
    if c.kind == 'eq2':
        return cirq.SympyCondition(sympy.Eq(sympy.Symbol(c.name), sympy.Symbol(c.kw['name2'])))
    raise ValueError(c.kind)


def Q(i):
    import cirq

    return cirq.LineQubit(i)


def to_cirq(it):
    """the real Cirq operation described by a spec item (constructors only)"""
    import cirq

    if isinstance(it, G):
        op = _cirq_gate(it.fam, _sym(it.e)).on(*[Q(i) for i in it.qs])
        if it.conds:
            cs = [_cirq_cond(c) for c in it.conds]
            if it.how == 'if':
                op = cirq.If(cs, op)
            else:
                op = op.with_classical_controls(*cs)
        return op
    if isinstance(it, M):
        return cirq.measure(*[Q(i) for i in it.qs], key=it.key)
    if isinstance(it, Sub):
        kw = {}
        if it.reps != 1:
            kw['repetitions'] = it.reps
        if it.qmap:
            kw['qubit_map'] = {Q(a): Q(b) for a, b in it.qmap.items()}
        if it.kmap:
            kw['measurement_key_map'] = dict(it.kmap)
        if it.params:
            kw['param_resolver'] = {k: _sym(v) for k, v in it.params.items()}
        if it.ids is not None:
            kw['repetition_ids'] = list(it.ids)
        if it.use_ids is not None:
            kw['use_repetition_ids'] = it.use_ids
        if it.path:
            kw['parent_path'] = tuple(it.path)
        if it.until is not None:
            c = _cirq_cond(it.until)
            kw['repeat_until'] = cirq.KeyCondition(cirq.MeasurementKey(c)) if isinstance(c, str) else c
        return cirq.CircuitOperation(cirq.FrozenCircuit(*[to_cirq(x) for x in it.items]), **kw)
    raise TypeError(type(it))


# ------------------------------------------------------------------------------------------------
# flat program
# ------------------------------------------------------------------------------------------------
def key_str(k):
    path, name = k
    return ':'.join(list(path) + [name])


class FG:
    def __init__(self, fam, e, inv, qs, conds):
        self.fam, self.e, self.inv, self.qs, self.conds = fam, e, inv, tuple(qs), conds  # conds: [(Cond, {name: full key})]

    def matrix(self):
        if isinstance(self.e, P):
            return None
        m = FAM[self.fam][1](self.e)
        return dagger(m) if self.inv else m


class FM:
    def __init__(self, key, qs):
        self.key, self.qs = key, tuple(qs)


class FLoop:
    """repeat_until loop: run `body` (a flat program), test `cond` after each iteration, stop when it holds"""

    def __init__(self, body, cond):
        self.body, self.cond = body, cond  # cond: (Cond, {name: full key})
        self.qs = tuple(sorted({q for f in body for q in f.qs}))


def dagger(m):
    m = np.asarray(m)
    out = np.empty(m.shape[::-1], dtype=m.dtype)
    for i in range(m.shape[0]):
        for j in range(m.shape[1]):
            x = m[i, j]
            out[j, i] = x.conjugate() if hasattr(x, 'conjugate') else np.conj(x)
    return out


def _resolve(e, chain):
    """innermost resolver first, one substitution step per level"""
    for d in chain:
        if isinstance(e, P) and e.name in d:
            v = d[e.name]
            e = P(v.name, v.coeff * e.coeff) if isinstance(v, P) else (v * e.coeff if e.coeff != 1 else v)
    return e


def has_measurement(items):
    return any(isinstance(x, M) or (isinstance(x, Sub) and has_measurement(x.items)) for x in items)


def effective_ids(s):
    """repetition ids in force: explicit ids, or the default '0','1',.. when use_repetition_ids and
    |repetitions| != 1 (constructor docstring)"""
    use = s.use_ids if s.use_ids is not None else (s.ids is not None)
    n = abs(s.reps)
    ids = s.ids if s.ids else ([str(i) for i in range(n)] if (use and n != 1) else None)
    return ids if use else None


class _Ctx:
    def __init__(self, qf, kf, chain, path, inv):
        self.qf, self.kf, self.chain, self.path, self.inv = qf, kf, chain, path, inv


def _bind(name, path, visible):
    if ':' in name:
        # a fully qualified key string 'p:q:name' written by the user at top level (MeasurementKey.parse_serialized)
        assert not path, 'qualified control keys are only used at top level in this model'
        parts = name.split(':')
        return (tuple(parts[:-1]), parts[-1])
    for k in range(len(path), -1, -1):
        if (path[:k], name) in visible:
            return (path[:k], name)
    return ((), name)


def _flat_items(items, c, visible):
    out = []
    for it in reversed(items) if c.inv else items:
        if isinstance(it, G):
            conds = [(cd, {n: _bind(c.kf(n), c.path, visible) for n in cd.names()}) for cd in it.conds]
            out.append(FG(it.fam, _resolve(it.e, c.chain), c.inv, [c.qf(q) for q in it.qs], conds))
        elif isinstance(it, M):
            k = (c.path, c.kf(it.key))
            visible.add(k)
            out.append(FM(k, [c.qf(q) for q in it.qs]))
        else:
            out.extend(_flat_sub(it, c, visible))
    return out


def _flat_sub(s, c, visible):
    n = abs(s.reps)
    if n == 0:
        return []
    sub = _Ctx(
        lambda q, s=s, c=c: c.qf(s.qmap.get(q, q)),
        lambda k, s=s, c=c: c.kf(s.kmap.get(k, k)),
        [s.params] + c.chain,
        c.path + s.path,
        c.inv ^ (s.reps < 0),
    )
    outer_vis = {k for k in visible if len(k[0]) <= len(c.path)}
    ids = effective_ids(s)
    out = []
    if s.until is not None:
        # documented: incompatible with repetitions / repetition ids; the condition may (must) read a key measured
        # inside the loop body, tested AFTER each iteration
        assert s.reps == 1 and ids is None
        v = set(outer_vis)
        body = _flat_items(s.items, sub, v)
        visible |= v
        cond = (s.until, {n: _bind(sub.kf(n), sub.path, v) for n in s.until.names()})
        return [FLoop(body, cond)]
    if ids is not None and has_measurement(s.items):
        base = sub.path
        for rid in ids:
            v = set(outer_vis)
            sub.path = base + (rid,)
            out.extend(_flat_items(s.items, sub, v))
            visible |= v
    else:
        v = set(outer_vis)
        body = _flat_items(s.items, sub, v)
        visible |= v
        for _ in range(n):
            out.extend(body)
    return out


def flatten(items):
    """flat program of a top-level circuit body (list of spec items)"""
    return _flat_items(items, _Ctx(lambda q: q, lambda k: k, [], (), False), set())


# ---- structural oracles on a flat program ------------------------------------------------------------
def _walk(flat):
    for f in flat:
        if isinstance(f, FLoop):
            yield from _walk(f.body)
            yield f
        else:
            yield f


def flat_measurement_keys(flat):
    return {key_str(f.key) for f in _walk(flat) if isinstance(f, FM)}


def flat_external_controls(flat):
    """control keys not measured earlier in program order (cirq.control_keys docstring)"""
    seen, ext = set(), set()
    for f in _walk(flat):
        if isinstance(f, FM):
            seen.add(f.key)
        else:
            for _, b in ([f.cond] if isinstance(f, FLoop) else f.conds):
                for k in b.values():
                    if k not in seen:
                        ext.add(key_str(k))
    return ext


def flat_parameter_names(flat):
    return {f.e.name for f in _walk(flat) if isinstance(f, FG) and isinstance(f.e, P)}


def spec_qubits(items):
    """qubits of a circuit body after the nested qubit maps, unordered"""
    qs = set()
    for it in items:
        if isinstance(it, Sub):
            qs |= {it.qmap.get(q, q) for q in spec_qubits(it.items)}
        else:
            qs |= set(it.qs)
    return qs


def sub_qubits(s):
    """documented CircuitOperation.qubits: the wrapped circuit's qubits in default (sorted) order, mapped"""
    return tuple(s.qmap.get(q, q) for q in sorted(spec_qubits(s.items)))


# ---- unitary of a measurement-free flat program ---------------------------------------------------------
def flat_unitary(flat, order):
    """ordered product of the documented matrices on the qubits listed in `order` (big-endian)"""
    n = len(order)
    N = 2**n
    out = np.eye(N, dtype=complex).reshape((2,) * (2 * n))
    for f in flat:
        m = f.matrix()
        if f.fam == 'GP':
            out = _scale(out, m[0, 0])
        else:
            out = EM.apply_matrix_to_axes(m, out, [order.index(q) for q in f.qs])
    return np.asarray(out).reshape(N, N)


def _scale(t, s):
    t = np.asarray(t)
    out = np.empty(t.shape, dtype=object)
    for idx in itertools.product(*[range(k) for k in t.shape]):
        out[idx] = t[idx] * s
    return out


# ---- reference interpreter (measurements with given outcomes, classical control) ------------------
class MissingKey(Exception):
    pass


def _cond_value(cd, binding, records):
    def rec(name, index=-1):
        k = key_str(binding[name])
        if k not in records or not records[k]:
            raise MissingKey(k)
        return records[k][index]

    def as_int(bits):
        v = 0
        for b in bits:
            v = 2 * v + int(b)
        return v

    if cd.kind == 'key':
        return as_int(rec(cd.name)) != 0
    if cd.kind == 'keyidx':
        return as_int(rec(cd.name, cd.kw['index'])) != 0
    if cd.kind == 'mask':
        v = as_int(rec(cd.name, cd.kw.get('index', -1)))
        if cd.kw.get('bitmask') is not None:
            v &= cd.kw['bitmask']
        t = cd.kw.get('target', 0)
        return (v == t) if cd.kw.get('equal', False) else (v != t)
    if cd.kind == 'eq':
        return as_int(rec(cd.name)) == cd.kw['value']
    if cd.kind == 'eq2':
        return as_int(rec(cd.name)) == as_int(rec(cd.kw['name2']))
    raise ValueError(cd.kind)


def _const(x):
    """real constant value of x, or None.  A symbolic value whose non-constant part consists of pure unit-modulus
    exponentials with coefficients summing to <= 1e-9 (floating-point residue of exact cancellations such as
    cos^2 + sin^2 computed with complex128 coefficients) counts as its constant part."""
    from symx.snum import SNum

    if isinstance(x, SNum):
        c, rest = 0.0, 0.0
        for (mono, ang), coeff in x.t.items():
            if mono == () and ang == ():
                c = coeff
            elif mono == ():
                rest += abs(coeff)
            else:
                return None
        if rest > 1e-9:
            return None
        x = c
    x = complex(x)
    return x.real


def interpret(flat, order, real_records, max_iter=8):
    """run a flat program on |0..0> of the qubits in `order`.
    real_records: {key string: [bits tuple per instance]}: the i-th EXECUTION of a measurement of key K takes the
    outcome real_records[K][i] (so the interpreter is told the outcomes, and checks that each has non-zero Born
    probability and propagates state and conditions itself).
    Returns (state tensor, records {key string: [bits tuples]}, born [(probability vector, outcome)])."""
    n = len(order)
    st = {'psi': np.zeros((2,) * n, dtype=object)}
    st['psi'][...] = 0.0
    st['psi'][(0,) * n] = 1.0
    records, born = {}, []

    def run(prog):
        for f in prog:
            if isinstance(f, FLoop):
                for it in range(max_iter + 1):
                    if it == max_iter:
                        raise RuntimeError('reference interpreter: loop bound exceeded')
                    run(f.body)
                    if _cond_value(f.cond[0], f.cond[1], records):
                        break
            elif isinstance(f, FG):
                if all(_cond_value(cd, b, records) for cd, b in f.conds):
                    m = f.matrix()
                    if f.fam == 'GP':
                        st['psi'] = _scale(st['psi'], m[0, 0])
                    else:
                        st['psi'] = EM.apply_matrix_to_axes(m, st['psi'], [order.index(q) for q in f.qs])
            else:
                psi = st['psi']
                axes = [order.index(q) for q in f.qs]
                k = len(axes)
                ks = key_str(f.key)
                i = len(records.get(ks, []))
                inst = real_records.get(ks, [])
                if i >= len(inst) or len(inst[i]) != k:
                    raise MissingKey(f'{ks}[{i}]')
                bits = tuple(int(b) for b in inst[i])
                tot = 0.0
                for idx in itertools.product((0, 1), repeat=n):
                    if all(idx[a] == b for a, b in zip(axes, bits)):
                        x = psi[idx]
                        tot = tot + x * (x.conjugate() if hasattr(x, 'conjugate') else np.conj(x))
                p = _const(tot)
                if p is None:
                    raise NotImplementedError('reference interpreter: measurement probability must be a constant')
                if p <= 1e-12:
                    raise ZeroDivisionError(f'recorded outcome {bits} of {ks} has Born probability zero')
                born.append((ks, bits, p))
                new = np.empty((2,) * n, dtype=object)
                s = 1.0 / float(np.sqrt(p))
                for idx in itertools.product((0, 1), repeat=n):
                    keep = all(idx[a] == b for a, b in zip(axes, bits))
                    new[idx] = psi[idx] * s if keep else 0.0
                st['psi'] = new
                records.setdefault(ks, []).append(bits)

    run(flat)
    return st['psi'], records, born


# ---- scripted PRNG ----------------------------------------------------------------------------------------
class ScriptedPRNG:
    """stands for np.random.RandomState inside the simulator: `choice(n, p=probs)` records the
    probability vector the code asked for and returns an outcome CHOSEN BY THE EXPLORER among the
    outcomes of non-zero probability (every outcome is a path).  Probabilities must be constants here
    (C12 measures qubits prepared by constant gates; symbolic Born probabilities are C02)."""

    def __init__(self, cx, max_draws=64):
        self.cx = cx
        self.max_draws = max_draws  # unwinding bound for repeat_until loops: longer outcome sequences are not explored
        self.log = []  # (probs as floats, outcome)

    def choice(self, a, size=None, replace=True, p=None):
        from symx.ctx import Escape, Infeasible

        n = a if isinstance(a, int) else len(a)
        if p is None:
            raise Escape('symx: ScriptedPRNG.choice without p')
        ps = []
        for x in np.asarray(p, dtype=object).reshape(-1):
            v = _const(x)
            if v is None:
                raise Escape('symx: ScriptedPRNG: symbolic (non-constant) measurement probability')
            ps.append(v)
        allowed = [i for i in range(n) if ps[i] > 1e-12]

        def one():
            if len(self.log) >= self.max_draws:
                raise Infeasible()
            j = self.cx.choose(f'draw{len(self.log)}', n)
            if j not in allowed:
                raise Infeasible()
            self.log.append((ps, j))
            return j

        if size is None:
            return one()
        cnt = int(np.prod(size))
        return np.array([one() for _ in range(cnt)], dtype=np.int64).reshape(size)

    def randint(self, *a, **k):
        return 0

    def random(self, *a, **k):
        from symx.ctx import Escape

        raise Escape('symx: ScriptedPRNG.random not scripted')

    random_sample = random


def static_missing(flat):
    """key string of the first control that reads a key no earlier measurement (program order) wrote, else None"""
    seen = set()
    for f in _walk(flat):
        if isinstance(f, FM):
            seen.add(f.key)
        else:
            for _, b in ([f.cond] if isinstance(f, FLoop) else f.conds):
                for k in b.values():
                    if k not in seen:
                        return key_str(k)
    return None

"""Reference model of a circuit for C05: a plain list of lists of operations.

Written from the documentation (InsertStrategy docstrings, Circuit.insert / append /
insert_into_range / batch_* / clear_operations_touching / zip / concat_ragged docstrings, the
class docstring of Circuit for slicing, `+`, `*`), NOT by calling Circuit methods.  The only Cirq
functions used are per-operation accessors: `op.qubits`, `cirq.measurement_key_objs(op)`,
`cirq.control_keys(op)`, `cirq.inverse(op)`, `op.transform_qubits`.

Integer arguments may be symbolic (symx.SInt): the model only compares them (which forks the
exploration consistently with the path condition) and finally asks for their concrete value with
`int()` once they are confined to a finite range by those comparisons.
"""
from __future__ import annotations

NEW, NEW_THEN_INLINE, INLINE, EARLIEST, LATEST = 'NEW', 'NEW_THEN_INLINE', 'INLINE', 'EARLIEST', 'LATEST'
STRATEGIES = (EARLIEST, NEW, INLINE, NEW_THEN_INLINE, LATEST)


class MomentItem:
    """a whole moment inside an operation tree (inserted intact)"""

    def __init__(self, ops):
        self.ops = list(ops)


_INFO = {}


def info(op):
    """(qubits, measurement keys, control keys) of one operation"""
    r = _INFO.get(id(op))
    if r is None or r[0] is not op:
        import cirq

        r = (op, frozenset(op.qubits), frozenset(cirq.measurement_key_objs(op)), frozenset(cirq.control_keys(op)))
        _INFO[id(op)] = r
    return r[1:]


def conflict(a, b, qubits_only=False) -> bool:
    """documented reasons that keep two operations out of one moment / in order: a shared qubit,
    the same measurement key, or one measuring the key the other one is controlled by.
    (two operations merely controlled by the same key do not conflict)"""
    qa, ma, ca = info(a)
    qb, mb, cb = info(b)
    if qa & qb:
        return True
    if qubits_only:
        return False
    return bool((ma & mb) or (ma & cb) or (ca & mb))


def group_runs(items):
    """maximal runs of consecutive operations that could share one moment; a Moment is its own run
    (documented in _group_into_moment_compatible: [X(a), X(b), X(a)] -> [[X(a), X(b)], [X(a)]])"""
    runs, cur = [], []
    for it in items:
        if isinstance(it, MomentItem):
            if cur:
                runs.append(cur)
                cur = []
            runs.append(it)
            continue
        if any(conflict(o, it) for o in cur):
            runs.append(cur)
            cur = []
        cur.append(it)
    if cur:
        runs.append(cur)
    return runs


class CircuitModel:
    def __init__(self, moments=()):
        self.m = [list(x) for x in moments]

    def copy(self):
        return CircuitModel(self.m)

    def __len__(self):
        return len(self.m)

    def all_ops(self):
        return [o for mo in self.m for o in mo]

    # ---- helpers ---------------------------------------------------------------------------
    def free(self, i, op, qubits_only=False) -> bool:
        """moment i has room for op (indices outside the circuit are trivially free)"""
        if not 0 <= i < len(self.m):
            return True
        return not any(conflict(o, op, qubits_only) for o in self.m[i])

    def clamp(self, index) -> int:
        """insert index -> position 0..len: negative counts from the end, out of range is clipped"""
        n = len(self.m)
        if index < 0:
            index = n + index
            if index < 0:
                return 0
            return int(index)
        if index > n:
            return n
        return int(index)

    def slide_back(self, k, op) -> int:
        """EARLIEST: scan backward from the insert location k until a moment that conflicts with op;
        the answer is the moment just after it (0 if the start of the circuit is reached)"""
        j = k
        while j > 0 and self.free(j - 1, op):
            j -= 1
        return j

    def put(self, p, op):
        if p == len(self.m):
            self.m.append([op])
        else:
            assert self.free(p, op, qubits_only=True), 'model placed an operation onto a used qubit'
            self.m[p].append(op)

    # ---- Circuit.insert ----------------------------------------------------------------------
    def insert(self, index, items, strategy=EARLIEST):
        """returns the index just after the inserted operations"""
        items = list(items)
        k = self.clamp(index)
        if strategy == NEW:
            runs = [it if isinstance(it, MomentItem) else [it] for it in items]
        else:
            runs = group_runs(items)
        if strategy == LATEST:
            return self._insert_latest(k, runs)
        for run in runs:
            if isinstance(run, MomentItem):
                self.m.insert(k, list(run.ops))
                k += 1
                continue
            if strategy == INLINE:
                # INLINE: into the moment just before the insert location if every operation of the run
                # fits there, otherwise a new moment is created at the insert location for the run
                if k > 0 and all(self.free(k - 1, op) for op in run):
                    for op in run:
                        self.put(k - 1, op)
                else:
                    self.m.insert(k, list(run))
                    k += 1
            elif strategy == EARLIEST:
                # EARLIEST: every operation slides back from the insert location to just after its last
                # conflict; it may stay in the moment AT the insert location when that has room; if some
                # operation of the run can neither slide nor stay, a new moment is created at the
                # insert location first.
                def fits(op):
                    return self.free(k, op) or (k > 0 and self.free(k - 1, op))

                if not all(fits(op) for op in run):
                    self.m.insert(k, [])
                top = 0
                for op in run:
                    p = self.slide_back(k, op)
                    self.put(p, op)
                    top = max(top, p)
                k = max(k, top + 1)
            elif strategy == NEW:
                self.m.insert(k, list(run))
                k += 1
            elif strategy == NEW_THEN_INLINE:
                # first operation opens a new moment at the insert location, the rest of its run joins it
                self.m.insert(k, list(run))
                k += 1
                strategy = INLINE
            else:
                raise ValueError('unknown strategy')
        return k

    def _insert_latest(self, k, runs):
        """LATEST: scan forward from the insert location until a conflicting moment; the operation goes
        into the moment just before it (last moment if no conflict; a new moment at the insert location
        if the moment at the insert location conflicts; a new moment at the end when inserting at the
        end).  Runs are processed last to first so that the given order is kept.  Returns one plus
        the index of the last moment that received something (k if nothing was inserted)."""
        touched = []
        for run in reversed(runs):
            if isinstance(run, MomentItem):
                mo = list(run.ops)
                self.m.insert(k, mo)
                touched.append(mo)
                continue
            for op in run:
                n = len(self.m)
                if k == n:
                    mo = [op]
                    self.m.append(mo)
                else:
                    j = k
                    while j < n and self.free(j, op):
                        j += 1
                    if j == k:
                        mo = [op]
                        self.m.insert(k, mo)
                    else:
                        mo = self.m[j - 1]
                        mo.append(op)
                touched.append(mo)
        if not touched:
            return k
        return 1 + max(i for i, mo in enumerate(self.m) if any(mo is t for t in touched))

    def append(self, items, strategy=EARLIEST):
        self.insert(len(self.m), items, strategy)

    # ---- insert_into_range -------------------------------------------------------------------------
    def insert_into_range(self, ops, start, end):
        """write operations inline into moments start..end-1 (first moment at or after the running position
        whose qubits are free); what does not fit is inserted at `end`"""
        if not (0 <= start and start <= end and end <= len(self.m)):
            raise IndexError('bad range')
        start, end = int(start), int(end)
        ops = list(ops)
        i = start
        n = 0
        while n < len(ops):
            op = ops[n]
            while i < end and not self.free(i, op, qubits_only=True):
                i += 1
            if i >= end:
                break
            self.m[i].append(op)
            n += 1
        if n >= len(ops):
            return end
        return self.insert(end, ops[n:], EARLIEST)

    # ---- batch edits (all-or-nothing) ----------------------------------------------------------
    def _at(self, i) -> int:
        """python list index semantics"""
        n = len(self.m)
        if i < -n or i >= n:
            raise IndexError('moment index out of range')
        i = int(i)
        return i + n if i < 0 else i

    def batch_insert_into(self, pairs):
        c = self.copy()
        for i, ops in pairs:
            i = c._at(i)
            for op in ops:
                if not c.free(i, op, qubits_only=True):
                    raise ValueError('overlapping operations')
                c.m[i].append(op)
        self.m = c.m

    def batch_remove(self, pairs):
        c = self.copy()
        for i, op in pairs:
            i = c._at(i)
            if op not in c.m[i]:
                raise ValueError('operation not present')
            c.m[i] = [o for o in c.m[i] if o != op]
        self.m = c.m

    def batch_replace(self, triples):
        c = self.copy()
        for i, old, new in triples:
            i = c._at(i)
            if old not in c.m[i]:
                raise ValueError('operation not present')
            mo = []
            for o in c.m[i]:
                mo.append(new if o == old else o)
            # the resulting moment must be a valid moment
            for a in range(len(mo)):
                for b in range(a + 1, len(mo)):
                    if conflict(mo[a], mo[b], qubits_only=True):
                        raise ValueError('overlapping operations')
            c.m[i] = mo
        self.m = c.m

    def batch_insert(self, pairs):
        """documented: all EARLIEST; later insertions are shifted by what earlier ones added; for equal
        indices the later insertion ends up before the earlier one"""
        c = self.copy()
        pairs = list(pairs)
        order = list(range(len(pairs)))
        # stable sort by index (insertion sort on possibly symbolic keys)
        for a in range(1, len(order)):
            b = a
            while b > 0 and pairs[order[b]][0] < pairs[order[b - 1]][0]:
                order[b], order[b - 1] = order[b - 1], order[b]
                b -= 1
        shift = 0
        a = 0
        while a < len(order):
            i = pairs[order[a]][0]
            group = [pairs[order[a]][1]]
            b = a + 1
            while b < len(order) and pairs[order[b]][0] == i:
                group.append(pairs[order[b]][1])
                b += 1
            a = b
            items = [it for g in reversed(group) for it in g]
            at = i + shift
            nxt = c.insert(at, items, EARLIEST)
            if nxt > at:
                shift += nxt - at
        self.m = c.m

    def clear_operations_touching(self, qubits, indices):
        qs = frozenset(qubits)
        for k in indices:
            if 0 <= k and k < len(self.m):
                k = int(k)
                self.m[k] = [o for o in self.m[k] if not (info(o)[0] & qs)]

    # ---- list-like behaviour -------------------------------------------------------------------------
    def setitem(self, key, value):
        if isinstance(key, slice):
            self.m[_cslice(key)] = [list(v) for v in value]
        else:
            self.m[self._at(key)] = list(value)

    def delitem(self, key):
        if isinstance(key, slice):
            del self.m[_cslice(key)]
        else:
            del self.m[self._at(key)]

    def getslice(self, key):
        return CircuitModel(self.m[_cslice(key)])

    def times(self, n):
        if n <= 0:
            return CircuitModel([])
        return CircuitModel(self.m * int(n))

    def plus(self, other: 'CircuitModel'):
        return CircuitModel(self.m + other.m)

    def inverse(self):
        """moments reversed, every operation replaced by its inverse; TypeError if one has none"""
        import cirq

        out = []
        for mo in reversed(self.m):
            inv = []
            for o in mo:
                io = cirq.inverse(o, None)
                if io is None:
                    raise TypeError('no inverse')
                inv.append(io)
            out.append(inv)
        return CircuitModel(out)

    def transform_qubits(self, qmap):
        return CircuitModel([[o.transform_qubits(lambda q: qmap.get(q, q)) for o in mo] for mo in self.m])

    def zip(self, other, align='LEFT'):
        n1, n2 = len(self.m), len(other.m)
        n = max(n1, n2)
        pad1, pad2 = [[] for _ in range(n - n1)], [[] for _ in range(n - n2)]
        a = (self.m + pad1) if align == 'LEFT' else (pad1 + self.m)
        b = (other.m + pad2) if align == 'LEFT' else (pad2 + other.m)
        out = []
        for x, y in zip(a, b):
            for o in x:
                for p in y:
                    if conflict(o, p, qubits_only=True):
                        raise ValueError('overlapping operations')
            out.append(list(x) + list(y))
        return CircuitModel(out)

    def concat_ragged(self, other, align='LEFT'):
        """the second circuit is placed after the first and moved inward until just before operations
        would collide; without collision: LEFT stops when the starts align, RIGHT when the ends align,
        FIRST at whichever comes first"""
        n1, n2 = len(self.m), len(other.m)
        bound = {'LEFT': n1, 'RIGHT': n2, 'FIRST': min(n1, n2)}[align]
        trailing, leading = {}, {}
        for i, mo in enumerate(self.m):
            for o in mo:
                for q in info(o)[0]:
                    trailing[q] = n1 - 1 - i
        for i, mo in reversed(list(enumerate(other.m))):
            for o in mo:
                for q in info(o)[0]:
                    leading[q] = i
        s = bound
        for q in trailing:
            if q in leading:
                s = min(s, trailing[q] + leading[q])
        off2 = n1 - s
        off1 = 0
        if off2 < 0:
            off1, off2 = -off2, 0
        n = max(off1 + n1, off2 + n2)
        out = [[] for _ in range(n)]
        for i, mo in enumerate(self.m):
            out[off1 + i].extend(mo)
        for i, mo in enumerate(other.m):
            out[off2 + i].extend(mo)
        return CircuitModel(out)

    # ---- insert_at_frontier ---------------------------------------------------------------------------
    def insert_at_frontier(self, ops, start, frontier):
        """documented: operations are placed inline starting at moment `start`, each one at the first
        position not before `start` and not before the frontier of its qubits (frontier[q] = earliest
        moment in which an operation on q may be placed; advanced past each placed operation); existing
        operations at or after `start` on those qubits are pushed later by inserting empty moments (at
        the first such existing operation) so that nothing collides.  ValueError if a frontier of a
        touched qubit is after start.  Returns the updated frontier."""
        ops = list(ops)
        qs = []
        for o in ops:
            for q in o.qubits:
                if q not in qs:
                    qs.append(q)
        fr = dict(frontier)
        for q in qs:
            if fr.get(q, 0) > start:
                raise ValueError('frontier after start')
        start = int(start)
        n = len(self.m)
        nxt = {}
        for q in qs:
            # first moment at or after start that acts on q (len if none)
            j = start if start > 0 else 0
            while j < n and not any(q in info(o)[0] for o in self.m[j]):
                j += 1
            nxt[q] = j if j < n else n
        where = []
        for o in ops:
            t = start
            for q in o.qubits:
                if fr.get(q, 0) > t:
                    t = fr.get(q, 0)
            t = int(t)
            where.append(t)
            for q in o.qubits:
                fr[q] = t + 1
        need = 0
        for q in qs:
            need = max(need, fr[q] - nxt[q])
        if need > 0:
            at = min(nxt.values())
            self.m[at:at] = [[] for _ in range(need)]
            for q in list(fr):
                if q not in nxt and fr[q] > at:
                    fr[q] = fr[q] + need
        while len(self.m) <= max(where):
            self.m.append([])
        for o, t in zip(ops, where):
            assert self.free(t, o, qubits_only=True), 'model placed an operation onto a used qubit'
            self.m[t].append(o)
        return fr


def _cslice(s: slice) -> slice:
    f = lambda v: None if v is None else int(v)
    return slice(f(s.start), f(s.stop), f(s.step))


# ---- independent invariants (no model involved) --------------------------------------------------------


def disjoint_moments(moments) -> bool:
    for mo in moments:
        seen = set()
        for o in mo:
            for q in o.qubits:
                if q in seen:
                    return False
                seen.add(q)
    return True


def positions(moments):
    pos = {}
    for i, mo in enumerate(moments):
        for o in mo:
            pos.setdefault(o, []).append(i)
    return pos


def order_invariants(before, after, inserted, k0s, groups, qubits_only=False, exempt_after=False):
    """property-level invariants of one insert-like edit, evaluated on plain lists of lists of
    operations without the model.  `inserted` = flat list of inserted operations in the order given,
    `k0s[i]` = (clamped) insertion point of inserted[i], `groups[i]` = id of the tree element it
    came from (operations of one inserted Moment share an id and are not ordered among themselves).
    Returns a list of violated invariants (empty = fine).

      - nothing lost, nothing duplicated, disjoint qubits in every moment
      - existing operations: moments stay intact and keep their order
      - inserted operations that conflict keep the given order
      - an inserted operation comes after every conflicting operation that was before its insertion
        point, and (unless exempt_after) before every conflicting one that was at or after it
    Order checks need distinguishable occurrences; they are skipped when an operation occurs twice."""
    bad = []
    allb = [o for mo in before for o in mo]
    alla = [o for mo in after for o in mo]
    import collections

    if collections.Counter(alla) != collections.Counter(allb + list(inserted)):
        bad.append('operations lost or duplicated')
        return bad
    if not disjoint_moments(after):
        bad.append('moment with overlapping qubits')
    if len(set(alla)) != len(alla):
        return bad
    pb, pa = positions(before), positions(after)
    P = lambda o: pa[o][0]
    B = lambda o: pb[o][0]
    for x in allb:
        for y in allb:
            if B(x) < B(y) and not P(x) < P(y):
                bad.append(f'existing order broken: {x} / {y}')
            if B(x) == B(y) and P(x) != P(y):
                bad.append(f'existing moment split: {x} / {y}')
    ins = list(inserted)
    for a in range(len(ins)):
        for b in range(a + 1, len(ins)):
            if groups[a] == groups[b]:
                if P(ins[a]) != P(ins[b]):
                    bad.append(f'inserted moment split: {ins[a]} / {ins[b]}')
                continue
            if conflict(ins[a], ins[b], qubits_only) and not P(ins[a]) < P(ins[b]):
                bad.append(f'inserted order broken: {ins[a]} / {ins[b]}')
    for x, k0 in zip(ins, k0s):
        for e in allb:
            if not conflict(x, e, qubits_only):
                continue
            if B(e) < k0:
                if not P(e) < P(x):
                    bad.append(f'inserted {x} not after earlier {e}')
            elif not exempt_after:
                if not P(x) < P(e):
                    bad.append(f'inserted {x} not before later {e}')
    return bad

"""Pauli conjugation / multiplication tables derived from the matrices at run time."""
from __future__ import annotations

import itertools

import numpy as np

I2 = np.eye(2, dtype=complex)
X = np.array([[0, 1], [1, 0]], dtype=complex)
Y = np.array([[0, -1j], [1j, 0]], dtype=complex)
Z = np.array([[1, 0], [0, -1]], dtype=complex)
BY_XZ = {(0, 0): I2, (1, 0): X, (1, 1): Y, (0, 1): Z}


def pauli_matrix(bits):
    """bits = (x0, z0, x1, z1, ...) -> tensor product of Hermitian Paulis (big-endian)"""
    m = np.eye(1, dtype=complex)
    for k in range(0, len(bits), 2):
        m = np.kron(m, BY_XZ[(bits[k], bits[k + 1])])
    return m


def conjugation_table(U, k):
    """for a k-qubit unitary U: dict in_bits -> (out_bits, flip) with U P U^dag = (-1)^flip P'.
    Raises ValueError if U is not Clifford."""
    table = {}
    Ud = U.conj().T
    allbits = list(itertools.product((0, 1), repeat=2 * k))
    mats = {b: pauli_matrix(b) for b in allbits}
    for b in allbits:
        M = U @ mats[b] @ Ud
        found = None
        for b2 in allbits:
            P2 = mats[b2]
            # tr(P2 M)/2^k = +-1 when M = +-P2
            c = np.trace(P2 @ M) / (2**k)
            if abs(abs(c) - 1) < 1e-8:
                if abs(c.imag) > 1e-8:
                    raise ValueError('conjugated Pauli has imaginary phase: not Hermitian-preserving')
                found = (b2, 0 if c.real > 0 else 1)
                break
        if found is None:
            raise ValueError('not a Clifford unitary')
        table[b] = found
    return table


def sym_lookup(in_bits, table, n_out):
    """in_bits: list of SBool; table: in tuple -> (out tuple, flip).  Returns n_out+1 SBools
    (outputs then flip) built as DNF over the table (exact for every input valuation)."""
    from symx.sint import SBool

    outs = [SBool(False) for _ in range(n_out + 1)]
    for key, (out, flip) in table.items():
        m = SBool(True)
        for b, v in zip(in_bits, key):
            m = m & (b if v else ~b)
        vals = list(out) + [flip]
        for j, v in enumerate(vals):
            if v:
                outs[j] = outs[j] | m
    return outs

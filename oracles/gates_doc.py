"""Closed-form gate matrices transcribed from the gates' docstrings / textbooks.

Written against the documentation, NOT against cirq.ops code.  Works on floats and on SNum
(via symx.snum helpers), so the same oracle serves symbolic runs and concrete replay.
All matrices are in Cirq's documented big-endian qubit order.
"""
from __future__ import annotations

import math

import numpy as np

from symx.snum import SNum, cos, exp, sin, sqrt

PI = math.pi
I2 = [[1, 0], [0, 1]]


def M(rows):
    """build a matrix that may contain symbolic entries"""
    flat = [e for r in rows for e in r]
    if any(isinstance(e, SNum) for e in flat):
        a = np.empty((len(rows), len(rows[0])), dtype=object)
        for i, r in enumerate(rows):
            for j, e in enumerate(r):
                a[i, j] = e if isinstance(e, SNum) else SNum.const(e)
        return a
    return np.array(rows, dtype=complex)


def ph(turn_half):
    """exp(i*pi*x)"""
    return exp(1j * PI * turn_half)


def phr(rads):
    """exp(i*x)"""
    return exp(1j * rads)


def _c(t):
    return cos(PI * t / 2)


def _s(t):
    return sin(PI * t / 2)


# ---- single qubit ------------------------------------------------------------------------------
def X(t, shift=0.0):
    g = ph(t / 2) * ph(t * shift)
    c, s = _c(t), _s(t)
    return M([[g * c, -1j * g * s], [-1j * g * s, g * c]])


def Y(t, shift=0.0):
    g = ph(t / 2) * ph(t * shift)
    c, s = _c(t), _s(t)
    return M([[g * c, -g * s], [g * s, g * c]])


def Z(t, shift=0.0):
    g = ph(t * shift)
    return M([[g, 0], [0, g * ph(t)]])


def H(t, shift=0.0):
    g = ph(t / 2) * ph(t * shift)
    c, s = _c(t), _s(t)
    r = 1 / math.sqrt(2)
    return M([[g * (c - 1j * s * r), -1j * g * s * r], [-1j * g * s * r, g * (c + 1j * s * r)]])


def rx(theta):
    c, s = cos(theta / 2), sin(theta / 2)
    return M([[c, -1j * s], [-1j * s, c]])


def ry(theta):
    c, s = cos(theta / 2), sin(theta / 2)
    return M([[c, -s], [s, c]])


def rz(theta):
    return M([[phr(-theta / 2), 0], [0, phr(theta / 2)]])


def mm(*ms):
    out = ms[0]
    for m in ms[1:]:
        out = out @ m
    return out


def phased_x(t, p, shift=0.0):
    """Z^p X^t Z^-p (documented composition), with EigenGate-style global shift"""
    return mm(Z(p), X(t, shift), Z(-p))


def phased_xz(x, z, a):
    """documented matrix of PhasedXZGate"""
    c, s = _c(x), _s(x)
    return M(
        [
            [ph(x / 2) * c, -1j * ph(x / 2 - a) * s],
            [-1j * ph(x / 2 + z + a) * s, ph(x / 2 + z) * c],
        ]
    )


def global_phase(coef):
    return M([[coef]])


# ---- two qubit ---------------------------------------------------------------------------------
def CZ(t, shift=0.0):
    g = ph(t * shift)
    return M([[g, 0, 0, 0], [0, g, 0, 0], [0, 0, g, 0], [0, 0, 0, g * ph(t)]])


def _ctrl(block, g):
    z = 0
    return M([[g, z, z, z], [z, g, z, z], [z, z, block[0][0], block[0][1]], [z, z, block[1][0], block[1][1]]])


def CX(t, shift=0.0):
    g = ph(t * shift)
    return _ctrl(X(t, shift), g)


def CY(t, shift=0.0):
    g = ph(t * shift)
    return _ctrl(Y(t, shift), g)


def SWAP(t, shift=0.0):
    g0 = ph(t * shift)
    g = ph(t / 2) * g0
    c, s = _c(t), _s(t)
    return M([[g0, 0, 0, 0], [0, g * c, -1j * g * s, 0], [0, -1j * g * s, g * c, 0], [0, 0, 0, g0]])


def ISWAP(t, shift=0.0):
    g0 = ph(t * shift)
    c, s = _c(t), _s(t)
    return M([[g0, 0, 0, 0], [0, g0 * c, 1j * g0 * s, 0], [0, 1j * g0 * s, g0 * c, 0], [0, 0, 0, g0]])


def XX(t, shift=0.0):
    f = ph(t / 2) * ph(t * shift)
    c, s = f * _c(t), -1j * f * _s(t)
    return M([[c, 0, 0, s], [0, c, s, 0], [0, s, c, 0], [s, 0, 0, c]])


def YY(t, shift=0.0):
    f = ph(t / 2) * ph(t * shift)
    c, s = f * _c(t), -1j * f * _s(t)
    return M([[c, 0, 0, -s], [0, c, s, 0], [0, s, c, 0], [-s, 0, 0, c]])


def ZZ(t, shift=0.0):
    g = ph(t * shift)
    w = g * ph(t)
    return M([[g, 0, 0, 0], [0, w, 0, 0], [0, 0, w, 0], [0, 0, 0, g]])


def ms(rads):
    """cirq.ms(rads) = exp(-i*rads*XX)"""
    c, s = cos(rads), sin(rads)
    return M([[c, 0, 0, -1j * s], [0, c, -1j * s, 0], [0, -1j * s, c, 0], [-1j * s, 0, 0, c]])


def fsim(theta, phi):
    a, b, c = cos(theta), -1j * sin(theta), phr(-phi)
    return M([[1, 0, 0, 0], [0, a, b, 0], [0, b, a, 0], [0, 0, 0, c]])


def phased_fsim(theta, zeta, chi, gamma, phi):
    c, s = cos(theta), sin(theta)
    return M(
        [
            [1, 0, 0, 0],
            [0, phr(-gamma - zeta) * c, -1j * phr(-gamma + chi) * s, 0],
            [0, -1j * phr(-gamma - chi) * s, phr(-gamma + zeta) * c, 0],
            [0, 0, 0, phr(-2 * gamma - phi)],
        ]
    )


def phased_iswap(p, t, shift=0.0):
    g0 = ph(t * shift)
    c, s = _c(t), _s(t)
    f = ph(2 * p)
    fc = ph(-2 * p)
    return M([[g0, 0, 0, 0], [0, g0 * c, 1j * g0 * s * f, 0], [0, 1j * g0 * s * fc, g0 * c, 0], [0, 0, 0, g0]])


def givens(theta):
    c, s = cos(theta), sin(theta)
    return M([[1, 0, 0, 0], [0, c, -s, 0], [0, s, c, 0], [0, 0, 0, 1]])


def cphase(rads):
    return M([[1, 0, 0, 0], [0, 1, 0, 0], [0, 0, 1, 0], [0, 0, 0, phr(rads)]])


def riswap(rads):
    c, s = cos(rads), sin(rads)
    return M([[1, 0, 0, 0], [0, c, 1j * s, 0], [0, 1j * s, c, 0], [0, 0, 0, 1]])


PAULI = {
    'X': np.array([[0, 1], [1, 0]], dtype=complex),
    'Y': np.array([[0, -1j], [1j, 0]], dtype=complex),
    'Z': np.array([[1, 0], [0, -1]], dtype=complex),
}


def pauli_interaction(p0, inv0, p1, inv1, t, shift=0.0):
    """phases by exp(i*pi*t) the joint (-1)-eigenspace of P0 and P1 (+1 when inverted)"""
    e = np.eye(2)
    pr0 = (e + (1 if inv0 else -1) * PAULI[p0]) / 2
    pr1 = (e + (1 if inv1 else -1) * PAULI[p1]) / 2
    P = np.kron(pr0, pr1)
    g = ph(t * shift)
    w = ph(t) - 1
    I4 = np.eye(4, dtype=complex)
    if isinstance(w, SNum) or isinstance(g, SNum):
        out = np.empty((4, 4), dtype=object)
        for i in range(4):
            for j in range(4):
                out[i, j] = g * (SNum.const(I4[i, j]) + w * complex(P[i, j]))
        return out
    return g * (I4 + w * P)


# ---- three qubit -------------------------------------------------------------------------------
def _embed_last(block, n, g):
    """identity*g except `block` acting on the last len(block) basis states"""
    k = len(block)
    rows = [[(g if i == j else 0) for j in range(n)] for i in range(n)]
    for i in range(k):
        for j in range(k):
            rows[n - k + i][n - k + j] = block[i][j]
    return M(rows)


def CCZ(t, shift=0.0):
    g = ph(t * shift)
    return _embed_last([[g * ph(t)]], 8, g)


def CCX(t, shift=0.0):
    return _embed_last(X(t, shift), 8, ph(t * shift))


def CCY(t, shift=0.0):
    return _embed_last(Y(t, shift), 8, ph(t * shift))


def CSWAP():
    m = np.eye(8, dtype=complex)
    m[[5, 6]] = m[[6, 5]]
    return m


def diagonal(angles):
    n = len(angles)
    rows = [[0] * n for _ in range(n)]
    for i, a in enumerate(angles):
        rows[i][i] = phr(a)
    return M(rows)


def phase_gradient(n, t):
    N = 1 << n
    rows = [[0] * N for _ in range(N)]
    for k in range(N):
        rows[k][k] = ph(2 * t * k / N)
    return M(rows)


def qft(n, without_reverse=False):
    N = 1 << n
    w = np.exp(2j * np.pi / N)
    m = np.array([[w ** (j * k) for k in range(N)] for j in range(N)]) / np.sqrt(N)
    if without_reverse:
        # without the final bit reversal: output index bits reversed
        perm = [int(format(i, f'0{n}b')[::-1], 2) for i in range(N)]
        m = m[perm, :]
    return m


# ---- IonQ native gates (docs.ionq.com native gates) ----------------------------------------------
def gpi(phi):
    return M([[0, ph(-2 * phi)], [ph(2 * phi), 0]])


def gpi2(phi):
    r = 1 / math.sqrt(2)
    return M([[r, -1j * r * ph(-2 * phi)], [-1j * r * ph(2 * phi), r]])


def ionq_ms(phi0, phi1, theta):
    c, s = cos(PI * theta), sin(PI * theta)
    return M(
        [
            [c, 0, 0, -1j * ph(-2 * (phi0 + phi1)) * s],
            [0, c, -1j * ph(-2 * (phi0 - phi1)) * s, 0],
            [0, -1j * ph(2 * (phi0 - phi1)) * s, c, 0],
            [-1j * ph(2 * (phi0 + phi1)) * s, 0, 0, c],
        ]
    )


def ionq_zz(theta):
    return M([[ph(-theta), 0, 0, 0], [0, ph(theta), 0, 0], [0, 0, ph(theta), 0], [0, 0, 0, ph(-theta)]])


# ---- channels (Kraus operators from the docstrings) ----------------------------------------------
def kraus_amplitude_damp(g):
    return [M([[1, 0], [0, sqrt(1 - g)]]), M([[0, sqrt(g)], [0, 0]])]


def kraus_generalized_amplitude_damp(p, g):
    sp, sq = sqrt(p), sqrt(1 - p)
    return [
        M([[sp, 0], [0, sp * sqrt(1 - g)]]),
        M([[0, sp * sqrt(g)], [0, 0]]),
        M([[sq * sqrt(1 - g), 0], [0, sq]]),
        M([[0, 0], [sq * sqrt(g), 0]]),
    ]


def kraus_phase_damp(g):
    return [M([[1, 0], [0, sqrt(1 - g)]]), M([[0, 0], [0, sqrt(g)]])]


def mixture_depolarize(p):
    return [(1 - p, np.eye(2)), (p / 3, PAULI['X']), (p / 3, PAULI['Y']), (p / 3, PAULI['Z'])]


def mixture_asymmetric_depolarize(px, py, pz):
    return [(1 - px - py - pz, np.eye(2)), (px, PAULI['X']), (py, PAULI['Y']), (pz, PAULI['Z'])]


def mixture_bit_flip(p):
    return [(1 - p, np.eye(2)), (p, PAULI['X'])]


def mixture_phase_flip(p):
    return [(1 - p, np.eye(2)), (p, PAULI['Z'])]


def kraus_reset(dim=2):
    out = []
    for k in range(dim):
        m = np.zeros((dim, dim), dtype=complex)
        m[0, k] = 1
        out.append(m)
    return out

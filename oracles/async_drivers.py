"""Deterministic single-thread drivers for C20.

Part 1 (duet):    `run_collector(...)` runs the real `cirq.Collector.collect_async` inside ONE duet
                  scheduler together with a controller task.  The controller only acts when every
                  other duet task is blocked (quiescence) and then completes / fails sampler futures
                  in the order dictated by the caller-supplied `decide` callbacks.  No thread, no time.

Part 2 (asyncio): `StreamHarness` runs the real `StreamManager` (`submit`, `_manage_stream`,
                  `_manage_execution`, `ResponseDemux`, `_cancel`) on a PRIVATE asyncio loop through
                  an in-loop executor (no background thread) against `ModelEngine`, a small model of the
                  Quantum Engine QuantumRunStream service written from the protocol documentation
                  (program / job existence, result available when the job has finished, errors
                  PROGRAM_ALREADY_EXISTS / JOB_ALREADY_EXISTS / PROGRAM_DOES_NOT_EXIST / JOB_DOES_NOT_EXIST).

Nothing here calls the functions under test "a second way": the drivers only produce events and record
what the real code did; expectations are computed in checks/C20.py from the recorded history.
"""
from __future__ import annotations

import asyncio
import signal
from contextlib import contextmanager


class Hang(Exception):
    """the code under test would wait forever / spins forever"""


@contextmanager
def time_guard(seconds=20):
    """a path that does not finish is a livelock of the code under test, not a harness state"""

    def on_alarm(signum, frame):
        raise Hang(f'no termination within {seconds}s on one schedule (livelock)')

    try:
        old = signal.signal(signal.SIGALRM, on_alarm)
    except ValueError:  # not in main thread
        yield
        return
    signal.setitimer(signal.ITIMER_REAL, seconds)
    try:
        yield
    finally:
        signal.setitimer(signal.ITIMER_REAL, 0)
        signal.signal(signal.SIGALRM, old)


# =================================================================================================
# Part 1: duet controller for Collector.collect_async
# =================================================================================================


class Res:
    """the result object a sampler call returns (identity is what matters)"""

    __slots__ = ('jid',)

    def __init__(self, jid):
        self.jid = jid

    def __repr__(self):
        return f'Res({self.jid})'


class JobError(Exception):
    pass


class CtlSampler:
    """fake sampler: every run_async call parks on a future that only the controller completes"""

    def __init__(self, log, circuit_ids):
        self.log = log
        self.circuit_ids = circuit_ids  # id(circuit) -> job index
        self.pending = []  # [(call_no, jid, future)] in start order
        self.calls = 0
        self.returned = {}  # call_no -> Res / exception

    async def run_async(self, program, *, repetitions):
        import duet

        jid = self.circuit_ids.get(id(program))
        call = self.calls
        self.calls += 1
        f = duet.AwaitableFuture()
        self.log.append(('start', call, jid, repetitions))
        self.pending.append((call, jid, f))
        try:
            return await f
        except BaseException as e:
            if not (f.done() and not f.cancelled() and f.exception() is e):
                self.log.append(('aborted', call, jid))
            raise


def run_collector(collector, log, circuit_ids, concurrency, max_total_samples, decide_pick, decide_fail, decide_more):
    """Runs collector.collect_async under the deterministic controller.

    decide_pick(step, k)  -> index in range(k) of the pending sampler call to complete next
    decide_fail(step)     -> True: complete it with an exception
    decide_more(step)     -> True: complete another pending call BEFORE the collector gets to run again
    Returns dict(outcome=('returned', value) | ('raised', exc), hang=bool)
    """
    import duet
    import duet.impl as impl

    sampler = CtlSampler(log, circuit_ids)
    out = {'done': False, 'outcome': None, 'hang': False, 'sampler': sampler}

    def others_blocked(me, sched):
        for t in list(sched.active_tasks):
            if t is me or t.done:
                continue
            if t._ready_future.done():
                return False
        return True

    async def controller():
        me = impl.current_task()
        sched = me.scheduler
        step = 0
        while True:
            for _ in range(100000):
                await duet.completed_future(None)  # yield one scheduler tick
                if out['done'] or others_blocked(me, sched):
                    break
            else:
                raise Hang('collector never became quiescent')
            if out['done']:
                return
            live = [p for p in sampler.pending if not p[2].done()]
            sampler.pending = live
            log.append(('blocked', len(live)))
            if not live:
                out['hang'] = True
                raise Hang('collect_async is waiting although no sampler call is outstanding (lost wake-up)')
            while True:
                k = decide_pick(step, len(live))
                call, jid, f = live.pop(k)
                fail = decide_fail(step)
                if fail:
                    err = JobError(f'job {jid} call {call} failed')
                    sampler.returned[call] = err
                    log.append(('complete', call, jid, err))
                    f.set_exception(err)
                else:
                    r = Res(jid)
                    sampler.returned[call] = r
                    log.append(('complete', call, jid, r))
                    f.set_result(r)
                more = bool(live) and decide_more(step)
                step += 1
                if not more:
                    break

    async def main():
        async with duet.new_scope() as scope:
            scope.spawn(controller)
            try:
                rv = await collector.collect_async(sampler, concurrency=concurrency, max_total_samples=max_total_samples)
                out['outcome'] = ('returned', rv)
            except Exception as e:
                out['outcome'] = ('raised', e)
            finally:
                out['done'] = True
                log.append(('finished',))

    with time_guard():
        try:
            duet.run(main)
        except Hang as e:
            out['hang'] = True
            if out['outcome'] is None:
                out['outcome'] = ('raised', e)
    sampler.pending = [p for p in sampler.pending if not p[2].done()]
    return out


# =================================================================================================
# Part 2: model Quantum Engine stream service + in-loop executor + stepper
# =================================================================================================


class ModelEngine:
    """Model of the Quantum Engine side of QuantumRunStream (one project).

    State: set of existing programs, jobs (name -> state 'running' | 'done' | 'cancelled').
    Semantics (from the service documentation / StreamError codes):
      create_quantum_program_and_job : program exists -> PROGRAM_ALREADY_EXISTS; else program and job are
                                       created, job starts running; the reply (QuantumResult) is sent on
                                       the stream that carried the request when the job finishes.
      create_quantum_job             : program missing -> PROGRAM_DOES_NOT_EXIST; job exists ->
                                       JOB_ALREADY_EXISTS; else job created and run as above.
      get_quantum_result             : job missing -> JOB_DOES_NOT_EXIST; else reply with the result as soon
                                       as the job has finished.
      cancel_quantum_job             : recorded (unary RPC).
    A broken stream loses every reply that was not yet sent on it and every request not yet processed.
    """

    def __init__(self, quantum, programs=(), done_jobs=(), running_jobs=(), both_exist_code='program'):
        self.q = quantum
        self.programs = set(programs)
        self.jobs = {j: 'done' for j in done_jobs}  # name -> state
        self.jobs.update({j: 'running' for j in running_jobs})
        self.both_exist_code = both_exist_code  # which truthful code is sent when program AND job already exist
        self.job_creations = {}  # name -> number of times a job with this name was created (executed)
        self.program_creations = {}
        self.waiters = {}  # job name -> [(stream, message_id)]
        self.requests = []  # every request the service processed: (stream no, kind, message_id, target)
        self.cancels = []  # names
        self.streams = []
        self.open_fail = []  # exceptions to raise on the next stream opens

    # ---- transport ---------------------------------------------------------------------------
    async def quantum_run_stream(self, requests, **kwargs):
        st = _Stream(len(self.streams))
        self.streams.append(st)
        # as in grpc.aio the request iterator is consumed by its own task, created with the call
        st.reader = asyncio.get_running_loop().create_task(st.read(requests))
        if self.open_fail:
            exc = self.open_fail.pop(0)
            st.broken = True
            raise exc
        return st.responses()

    async def cancel_quantum_job(self, request, **kwargs):
        self.cancels.append(request.name)
        if self.jobs.get(request.name) == 'running':
            self.jobs[request.name] = 'cancelled'
        await asyncio.sleep(0)

    # ---- driver events -----------------------------------------------------------------------
    def live_stream(self):
        for st in reversed(self.streams):
            if not st.broken and not st.closed:
                return st
        return None

    def _result(self, name):
        return self.q.QuantumResult(parent=name)

    def _reply(self, st, mid, **kw):
        if st.broken or st.closed:
            return
        st.out.put_nowait(self.q.QuantumRunStreamResponse(message_id=mid, **kw))

    def _error(self, st, mid, code, text):
        self._reply(st, mid, error=self.q.StreamError(code=code, message=text))

    def process_next(self, st, inject=None):
        """the service handles the oldest unprocessed request of stream st"""
        q = self.q
        Code = q.StreamError.Code
        req = st.inbox.pop(0)
        mid = req.message_id
        if inject is not None:
            self.requests.append((st.no, 'rejected', mid, None))
            self._error(st, mid, inject, f'injected error {int(inject)} for message {mid}')
            return
        if 'create_quantum_program_and_job' in req:
            r = req.create_quantum_program_and_job
            prog, job = r.quantum_program.name, r.quantum_job.name
            self.requests.append((st.no, 'create_program_and_job', mid, job))
            if prog in self.programs:
                if job in self.jobs and self.both_exist_code == 'job':
                    return self._error(st, mid, Code.JOB_ALREADY_EXISTS, f'job {job} exists')
                return self._error(st, mid, Code.PROGRAM_ALREADY_EXISTS, f'program {prog} exists')
            self.programs.add(prog)
            self.program_creations[prog] = self.program_creations.get(prog, 0) + 1
            self._create_job(st, mid, job)
        elif 'create_quantum_job' in req:
            r = req.create_quantum_job
            prog, job = r.parent, r.quantum_job.name
            self.requests.append((st.no, 'create_job', mid, job))
            if prog not in self.programs:
                return self._error(st, mid, Code.PROGRAM_DOES_NOT_EXIST, f'program {prog} missing')
            if job in self.jobs:
                return self._error(st, mid, Code.JOB_ALREADY_EXISTS, f'job {job} exists')
            self._create_job(st, mid, job)
        elif 'get_quantum_result' in req:
            job = req.get_quantum_result.parent
            self.requests.append((st.no, 'get_result', mid, job))
            if job not in self.jobs:
                return self._error(st, mid, Code.JOB_DOES_NOT_EXIST, f'job {job} missing')
            if self.jobs[job] == 'done':
                self._reply(st, mid, result=self._result(job))
            elif self.jobs[job] == 'cancelled':
                self._reply(st, mid, job=q.QuantumJob(name=job))
            else:
                self.waiters.setdefault(job, []).append((st, mid))
        else:
            self.requests.append((st.no, 'unknown', mid, None))
            self._error(st, mid, Code.INVALID_ARGUMENT, 'unrecognised request')

    def _create_job(self, st, mid, job):
        self.jobs[job] = 'running'
        self.job_creations[job] = self.job_creations.get(job, 0) + 1
        self.waiters.setdefault(job, []).append((st, mid))

    def running_jobs(self):
        return sorted(j for j, s in self.jobs.items() if s == 'running')

    def finish_job(self, job):
        self.jobs[job] = 'done'
        for st, mid in self.waiters.pop(job, []):
            self._reply(st, mid, result=self._result(job))

    def break_stream(self, st, exc):
        st.broken = True
        st.inbox.clear()
        st.out.put_nowait(exc)


class _Stream:
    def __init__(self, no):
        self.no = no
        self.inbox = []
        self.out = asyncio.Queue()
        self.broken = False
        self.closed = False
        self.reader = None
        self.lost = []

    async def read(self, requests):
        async for r in requests:
            if self.broken:
                self.lost.append(r)  # written to a dead stream
            else:
                self.inbox.append(r)
        # request iterator finished: client half-closed; the service ends the reply stream
        self.closed = True
        self.out.put_nowait(_EOS)

    async def responses(self):
        while True:
            m = await self.out.get()
            if m is _EOS:
                return
            if isinstance(m, BaseException):
                raise m
            yield m


_EOS = object()


class InLoopExecutor:
    """stands in for AsyncioExecutor: coroutines become tasks of the private loop (same thread)"""

    def __init__(self, loop):
        self.loop = loop
        self.tasks = []

    def submit(self, func, *args, **kwargs):
        coro = func(*args, **kwargs)
        if getattr(func, '__name__', '') == '_make_request_queue':
            # needs a synchronous .result(): the coroutine has no await, step it to completion
            try:
                coro.send(None)
            except StopIteration as s:
                f = _Done(s.value)
                return f
            raise RuntimeError('harness: _make_request_queue suspended')
        t = self.loop.create_task(coro)
        self.tasks.append(t)
        return t


class _Done:
    def __init__(self, v):
        self.v = v

    def result(self, timeout=None):
        return self.v

    def done(self):
        return True

    def cancel(self):
        return False


def make_manager(loop, engine):
    """real StreamManager whose executor is the private loop"""
    from cirq_google.engine import stream_manager as sm

    ex = InLoopExecutor(loop)

    class LoopStreamManager(sm.StreamManager):
        @property
        def _executor(self):
            return ex

    mgr = LoopStreamManager(engine)
    return mgr, ex


async def settle(loop, limit=10000):
    """yield until no other callback is ready on the loop (all coroutines blocked)"""
    for _ in range(limit):
        await asyncio.sleep(0)
        if not loop._ready:
            return
    raise Hang('asyncio loop never became quiescent (busy loop in the client)')


def run_stream_scenario(driver, seconds=20):
    """driver(loop) is a coroutine function run to completion on a fresh private loop"""
    loop = asyncio.new_event_loop()
    errors = []
    loop.set_exception_handler(lambda l, c: errors.append(c))
    try:
        with time_guard(seconds):
            return loop.run_until_complete(driver(loop)), errors
    finally:
        try:
            pend = [t for t in asyncio.all_tasks(loop) if not t.done()]
            for t in pend:
                t.cancel()
            if pend:
                loop.run_until_complete(asyncio.gather(*pend, return_exceptions=True))
        except BaseException:
            pass
        loop.close()

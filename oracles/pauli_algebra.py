"""Reference semantics for Pauli strings: matrices built from the 2x2 Pauli matrices by kron,
explicit matrix products / conjugations / expectation sums.  Nothing here calls Cirq.

A Pauli string on n qubits is (letters, coeff): letters[k] in 0..3 (0=I, 1=X, 2=Y, 3=Z) is the
factor on qubit k of a big-endian register, coeff is a number or a symbolic scalar.  All helpers
work on numeric and on object (symbolic) data and skip concrete zeros so that symbolic terms stay
small.
"""
from __future__ import annotations

import itertools

import numpy as np

from oracles.pauli import I2, X, Y, Z

P2 = [I2, X, Y, Z]
LETTER = 'IXYZ'


def _is0(v):
    return isinstance(v, (int, float, complex, np.number)) and v == 0


def kron_letters(letters):
    m = np.eye(1, dtype=complex)
    for l in letters:
        m = np.kron(m, P2[l])
    return m


def scale(c, M):
    """c * M entry-wise, object result when c is symbolic"""
    M = np.asarray(M)
    if isinstance(c, (int, float, complex, np.number)) and M.dtype != object:
        return complex(c) * M
    out = np.empty(M.shape, dtype=object)
    for idx in np.ndindex(*M.shape):
        v = M[idx]
        out[idx] = 0j if _is0(v) else c * v
    return out


def string_matrix(letters, coeff=1):
    return scale(coeff, kron_letters(letters))


def add(A, B):
    A, B = np.asarray(A), np.asarray(B)
    out = np.empty(A.shape, dtype=object)
    for idx in np.ndindex(*A.shape):
        a, b = A[idx], B[idx]
        out[idx] = b if _is0(a) else (a if _is0(b) else a + b)
    return out


def matmul(A, B):
    A, B = np.asarray(A), np.asarray(B)
    if A.dtype != object and B.dtype != object:
        return A @ B
    n, m = A.shape
    m2, p = B.shape
    assert m == m2
    out = np.empty((n, p), dtype=object)
    for i in range(n):
        for j in range(p):
            tot = 0j
            for l in range(m):
                a = A[i, l]
                if _is0(a):
                    continue
                b = B[l, j]
                if _is0(b):
                    continue
                tot = tot + a * b
            out[i, j] = tot
    return out


def dagger(A):
    A = np.asarray(A)
    if A.dtype != object:
        return A.conj().T
    out = np.empty(A.shape[::-1], dtype=object)
    for i in range(A.shape[0]):
        for j in range(A.shape[1]):
            v = A[i, j]
            out[j, i] = v.conjugate() if hasattr(v, 'conjugate') else v
    return out


def embed(M, positions, n):
    """2^n x 2^n matrix of the k-qubit matrix M acting on `positions` (big-endian) of n qubits,
    by explicit index arithmetic."""
    M = np.asarray(M)
    k = len(positions)
    N = 2**n
    out = np.zeros((N, N), dtype=M.dtype if M.dtype != object else object)
    if M.dtype == object:
        out[:, :] = 0j
    rest = [q for q in range(n) if q not in positions]
    for rbits in itertools.product((0, 1), repeat=len(rest)):
        for ib in itertools.product((0, 1), repeat=k):
            for jb in itertools.product((0, 1), repeat=k):
                bi, bj = [0] * n, [0] * n
                for q, v in zip(rest, rbits):
                    bi[q] = bj[q] = v
                for q, v in zip(positions, ib):
                    bi[q] = v
                for q, v in zip(positions, jb):
                    bj[q] = v
                I = int(''.join(map(str, bi)), 2) if n else 0
                J = int(''.join(map(str, bj)), 2) if n else 0
                i = int(''.join(map(str, ib)), 2) if k else 0
                j = int(''.join(map(str, jb)), 2) if k else 0
                out[I, J] = M[i, j]
    return out


def ordered_product(steps, n):
    """matrix of a circuit: steps = [(matrix, positions), ...] applied first to last"""
    tot = np.eye(2**n, dtype=complex)
    for M, pos in steps:
        tot = matmul(embed(M, pos, n), tot)
    return tot


def expectation_sv(psi, M):
    """<psi| M |psi> by the explicit double sum (psi flat, any entries)"""
    psi = np.asarray(psi).reshape(-1)
    N = psi.shape[0]
    tot = 0j
    for i in range(N):
        ci = psi[i].conjugate()
        for j in range(N):
            m = M[i, j]
            if _is0(m):
                continue
            tot = tot + ci * m * psi[j]
    return tot


def expectation_dm(rho, M):
    """tr(rho M) by the explicit double sum"""
    N = M.shape[0]
    rho = np.asarray(rho).reshape(N, N)
    tot = 0j
    for i in range(N):
        for j in range(N):
            m = M[j, i]
            if _is0(m):
                continue
            tot = tot + rho[i, j] * m
    return tot


def rotation(letters, theta_cos, theta_sin):
    """cos(theta) I + i sin(theta) P for the unit Pauli string `letters` (cos/sin passed in so that
    they may be symbolic)"""
    P = kron_letters(letters)
    N = P.shape[0]
    return add(scale(theta_cos, np.eye(N, dtype=complex)), scale(1j * theta_sin, P))


def phasor(letters, phase_pos, phase_neg):
    """phase_pos * (I+P)/2 + phase_neg * (I-P)/2: the +1 / -1 eigenspaces of P get the two phases"""
    P = kron_letters(letters)
    N = P.shape[0]
    Id = np.eye(N, dtype=complex)
    return add(scale(phase_pos, (Id + P) / 2), scale(phase_neg, (Id - P) / 2))


def commute(lettersA, lettersB):
    A, B = kron_letters(lettersA), kron_letters(lettersB)
    return bool(np.allclose(A @ B, B @ A))


def perturb_scalar(v):
    return v + 0.01

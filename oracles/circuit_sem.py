"""Reference interpreter for circuits with measurements / classical control (C06).

Meaning of a circuit, written from the documentation (Circuit class docstring: moments are applied
in order, operations of one moment in the order they are listed; MeasurementGate docstring: the
result bits are the computational-basis outcome XOR invert_mask, stored under `key`; classically
controlled operations run iff every condition holds on the record so far; KeyCondition docstring:
"true if any bit of the measurement is non-zero"):

    circuit  |->  { record r  |->  list of Kraus tensors K }      (a "branch table")

such that, for every input density operator rho of the SYSTEM qubits (all other qubits start in |0>),
the joint sub-normalised outcome is  (r, sum_K K rho K^dagger).  Two circuits have the same meaning
iff for every record r the completely positive maps agree after tracing out the non-system
qubits, i.e. iff the super-operators   S_r = sum_K sum_a K[.,a,.] (x) conj(K[.,a,.])   agree.

Only per-operation accessors of Cirq are used (`op.qubits`, `op.gate`, `op.classical_controls`,
`cirq.unitary(op)` / `cirq.kraus(op)` of ONE operation, which C03/C04 tie to the documented
matrices); the composition (embedding, ordering, projection, branching, tracing) is done here by
explicit index arithmetic.  Everything works on floats and on symbolic SNum entries.
"""
from __future__ import annotations

import itertools

import numpy as np

from oracles import embed as EM


def _is_zero(e):
    from symx.snum import SNum

    if isinstance(e, SNum):
        return not e.t
    return e == 0


def _conj(e):
    return e.conjugate() if hasattr(e, 'conjugate') else np.conj(e)


def flat_ops(circuit):
    """operations in execution order; plain CircuitOperations (no maps/resolvers) are expanded here,
    repetitions by repeating"""
    import cirq

    out = []
    for moment in circuit.moments if hasattr(circuit, 'moments') else circuit:
        for op in moment.operations:
            _expand(op, out)
    return out


def _expand(op, out):
    import cirq

    un = op.untagged
    if isinstance(un, cirq.CircuitOperation):
        plain = (
            not un.qubit_map
            and not un.measurement_key_map
            and not un.param_resolver.param_dict
            and un.repeat_until is None
            and isinstance(un.repetitions, (int, np.integer))
            and un.repetitions >= 0
            and (un.repetitions == 1 or not cirq.is_measurement(un.circuit))
            and not un.parent_path
        )
        if plain:
            for _ in range(int(un.repetitions)):
                for m in un.circuit.moments:
                    for o in m.operations:
                        _expand(o, out)
            return
        for o in un.mapped_circuit(deep=True).all_operations():
            _expand(o, out)
        return
    out.append(op)


class Branches:
    """branch table over `qubits` (system qubits first, then ancillas); tensors have shape
    dims(qubits) + (D_in,) where D_in is the dimension of the system-input space"""

    def __init__(self, sys_qubits, anc_qubits=()):
        self.sys = list(sys_qubits)
        self.anc = list(anc_qubits)
        self.qubits = self.sys + self.anc
        self.dims = [q.dimension for q in self.qubits]
        self.pos = {q: i for i, q in enumerate(self.qubits)}
        ds = [q.dimension for q in self.sys]
        self.D = int(np.prod(ds)) if ds else 1
        K = np.zeros(tuple(self.dims) + (self.D,), dtype=object)
        for j, idx in enumerate(itertools.product(*[range(d) for d in ds])):
            K[tuple(idx) + (0,) * len(self.anc) + (j,)] = 1
        self.table = {(): [K]}

    # -- single steps --------------------------------------------------------------------------
    def _apply(self, K, M, qs):
        return EM.apply_matrix_to_axes(np.asarray(M), K, [self.pos[q] for q in qs])

    def unitary(self, M, qs, cond=None):
        new = {}
        for rec, Ks in self.table.items():
            if cond is not None and not cond(dict(rec)):
                new[rec] = Ks
            else:
                new[rec] = [self._apply(K, M, qs) for K in Ks]
        self.table = new

    def kraus(self, Ms, qs, key=None, cond=None):
        """channel; with `key` the index of the selected operator is recorded (KrausChannel docstring)"""
        new = {}
        for rec, Ks in self.table.items():
            if cond is not None and not cond(dict(rec)):
                new.setdefault(rec, []).extend(Ks)
                continue
            for i, M in enumerate(Ms):
                r2 = rec if key is None else _rec_add(rec, key, (i,))
                for K in Ks:
                    K2 = self._apply(K, M, qs)
                    if all(_is_zero(e) for e in K2.reshape(-1)):
                        continue
                    new.setdefault(r2, []).append(K2)
        self.table = new

    def measure(self, qs, key, invert_mask=(), cond=None):
        axes = [self.pos[q] for q in qs]
        dims = [self.dims[a] for a in axes]
        mask = list(invert_mask) + [False] * (len(qs) - len(invert_mask))
        new = {}
        for rec, Ks in self.table.items():
            if cond is not None and not cond(dict(rec)):
                new.setdefault(rec, []).extend(Ks)
                continue
            for outcome in itertools.product(*[range(d) for d in dims]):
                bits = tuple((b ^ 1 if (m and b < 2) else b) if m else b for b, m in zip(outcome, mask))
                r2 = _rec_add(rec, key, bits)
                for K in Ks:
                    K2 = np.zeros(K.shape, dtype=object)
                    sl = [slice(None)] * K.ndim
                    for a, v in zip(axes, outcome):
                        sl[a] = v
                    K2[tuple(sl)] = K[tuple(sl)]
                    if all(_is_zero(e) for e in K2.reshape(-1)):
                        continue
                    new.setdefault(r2, []).append(K2)
        self.table = new

    # -- whole circuits --------------------------------------------------------------------------
    def run(self, ops, matrix_of=None):
        import cirq

        for op in ops:
            cond = None
            inner = op
            ctrls = getattr(op, 'classical_controls', None)
            if ctrls:
                cond = _make_cond(ctrls)
                inner = op.without_classical_controls()
            g = inner.gate
            if isinstance(g, cirq.MeasurementGate):
                if g.confusion_map:
                    raise NotImplementedError('confusion maps are not modelled')
                self.measure(inner.qubits, str(g.key), g.full_invert_mask(), cond)
                continue
            if matrix_of is not None:
                M = matrix_of(inner)
                if M is not None:
                    self.unitary(M, inner.qubits, cond)
                    continue
            if cirq.has_unitary(inner):
                self.unitary(cirq.unitary(inner), inner.qubits, cond)
                continue
            keys = cirq.measurement_key_names(inner)
            if len(keys) > 1:
                raise NotImplementedError('multi-key channel')
            self.kraus(list(cirq.kraus(inner)), inner.qubits, key=(next(iter(keys)) if keys else None), cond=cond)
        return self

    # -- observables -----------------------------------------------------------------------------
    def superops(self):
        """{record: S} with S[(i,j),(k,l)] = sum_K sum_a K[i,a,j] conj(K[k,a,l]); i,k system-out, j,l system-in;
        returned as dict (i,j,k,l)->entry holding only the lower triangle incl. diagonal of the
        Hermitian index pair ((i,j),(k,l)) and only syntactically non-zero entries"""
        D = self.D
        A = int(np.prod([q.dimension for q in self.anc])) if self.anc else 1
        out = {}
        for rec, Ks in self.table.items():
            S = {}
            for K in Ks:
                Km = K.reshape(D, A, D)
                for a in range(A):
                    nz = [(i, j, Km[i, a, j]) for i in range(D) for j in range(D) if not _is_zero(Km[i, a, j])]
                    for (i, j, x) in nz:
                        for (k, l, y) in nz:
                            if (k, l) > (i, j):
                                continue
                            S[(i, j, k, l)] = S.get((i, j, k, l), 0) + x * _conj(y)
            out[rec] = S
        return out

    def single_unitary(self):
        """for measurement-free unitary circuits without ancillas: the D x D matrix"""
        assert list(self.table) == [()] and len(self.table[()]) == 1 and not self.anc
        return self.table[()][0].reshape(self.D, self.D)


def _rec_add(rec, key, bits):
    d = dict(rec)
    d[key] = d.get(key, ()) + (tuple(bits),)
    return tuple(sorted(d.items()))


def _make_cond(ctrls):
    import cirq

    def cond(rec):
        for c in ctrls:
            if isinstance(c, cirq.KeyCondition):
                vals = rec.get(str(c.key))
                if vals is None:
                    raise ValueError(f'control on key {c.key} before it is measured')
                if not any(vals[c.index]):
                    return False
            else:
                store = cirq.ClassicalDataDictionaryStore(
                    _records={cirq.MeasurementKey.parse_serialized(k): list(v) for k, v in rec.items()}
                )
                if not c.resolve(store):
                    return False
        return True

    return cond


def meaning(circuit, sys_qubits, matrix_of=None):
    """branch table of a circuit; qubits of the circuit outside `sys_qubits` are ancillas in |0>"""
    ops = flat_ops(circuit)
    anc = []
    for op in ops:
        for q in op.qubits:
            if q not in sys_qubits and q not in anc:
                anc.append(q)
    anc.sort()
    return Branches(sys_qubits, anc).run(ops, matrix_of)


def mat_mul_dagger(V, U):
    """V @ U^dagger entry by entry (symbolic-safe, skips syntactic zeros)"""
    n = V.shape[0]
    Uc = [[_conj(U[j, k]) for k in range(n)] for j in range(n)]
    out = np.empty((n, n), dtype=object)
    for i in range(n):
        row = [(k, V[i, k]) for k in range(n) if not _is_zero(V[i, k])]
        for j in range(n):
            tot = 0
            for k, v in row:
                u = Uc[j][k]
                if _is_zero(u):
                    continue
                tot = tot + v * u
            out[i, j] = tot
    return out


def _op_matrix(op, matrix_of):
    import cirq

    if matrix_of is not None:
        m = matrix_of(op)
        if m is not None:
            return np.asarray(m)
    if getattr(op, 'classical_controls', None) or cirq.is_measurement(op) or not cirq.has_unitary(op):
        raise ValueError(f'not a unitary operation: {op!r}')
    return np.asarray(cirq.unitary(op))


def _conj_matrix(M):
    out = np.empty(M.shape, dtype=object)
    for i in range(M.shape[0]):
        for j in range(M.shape[1]):
            out[i, j] = _conj(M[i, j])
    return out


def out_times_in_dagger(circ_in, circ_out, qubits, matrix_of_in=None):
    """(product of the output circuit's operation matrices) @ (product of the input's)^dagger for
    measurement-free circuits, evaluated from the middle outwards
        ... v3 v2 (v1 u1^dagger) u2^dagger u3^dagger ...
    so that operations the pass left alone cancel syntactically before the next factor arrives
    (same value as multiplying both circuits out first; only the cost differs)."""
    qubits = list(qubits)
    dims = [q.dimension for q in qubits]
    n = len(qubits)
    Dm = int(np.prod(dims)) if dims else 1
    pos = {q: i for i, q in enumerate(qubits)}
    T = np.zeros(tuple(dims) * 2, dtype=object)
    for idx in itertools.product(*[range(d) for d in dims]):
        T[tuple(idx) * 2] = 1
    ins = flat_ops(circ_in)
    outs = flat_ops(circ_out)
    i = j = 0
    while i < len(outs) or j < len(ins):
        take_out = j >= len(ins) or (i < len(outs) and i * max(len(ins), 1) <= j * max(len(outs), 1))
        if take_out:
            op = outs[i]
            i += 1
            T = EM.apply_matrix_to_axes(_op_matrix(op, None), T, [pos[q] for q in op.qubits])
        else:
            op = ins[j]
            j += 1
            T = EM.apply_matrix_to_axes(_conj_matrix(_op_matrix(op, matrix_of_in)), T, [n + pos[q] for q in op.qubits])
    return T.reshape(Dm, Dm)

"""Reference semantics: apply a matrix to chosen axes of a tensor by explicit index arithmetic
(no cirq.linalg).  Works on numeric and symbolic (object) data."""
from __future__ import annotations

import itertools

import numpy as np


def apply_matrix_to_axes(M, T, axes, dims=None):
    """out[..., i_axes, ...] = sum_j M[i, j] * T[..., j_axes, ...]; M indexed big-endian over axes."""
    T = np.asarray(T) if not isinstance(T, np.ndarray) else T
    shape = T.shape
    dims = [shape[a] for a in axes]
    D = int(np.prod(dims)) if dims else 1
    assert M.shape == (D, D), (M.shape, D)
    out = np.empty(shape, dtype=object)
    sub = list(itertools.product(*[range(d) for d in dims]))
    for idx in itertools.product(*[range(s) for s in shape]):
        i = 0
        for a, d in zip(axes, dims):
            i = i * d + idx[a]
        tot = 0
        for j, js in enumerate(sub):
            m = M[i, j]
            if isinstance(m, (int, float, complex)) and m == 0:
                continue
            src = list(idx)
            for a, v in zip(axes, js):
                src[a] = v
            tot = tot + m * T[tuple(src)]
        out[idx] = tot
    return out


def embed_matrix(M, qubit_positions, n, dims=None):
    """full 2^n x 2^n (or mixed-radix) matrix of M acting on `qubit_positions` of n qudits"""
    dims = dims or [2] * n
    N = int(np.prod(dims))
    eye = np.eye(N, dtype=complex).reshape(dims + dims)
    # apply to the row (output) indices
    out = apply_matrix_to_axes(M, eye, list(qubit_positions))
    return out.reshape(N, N)


def sym_tensor(cx, shape, prefix='T', box=1.0):
    """tensor of arbitrary complex entries re+i*im, each part a symbolic real in [-box, box]"""
    out = np.empty(shape, dtype=object if cx.mode != 'concrete' else complex)
    for idx in itertools.product(*[range(s) for s in shape]):
        nm = prefix + ''.join(str(i) for i in idx)
        re = cx.real(nm + 'r', -box, box)
        im = cx.real(nm + 'i', -box, box)
        out[idx] = re + 1j * im
    if cx.mode != 'concrete':
        from symx.proxy import SymArray

        return out.view(SymArray)
    return out

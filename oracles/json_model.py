"""Harness model of the `json` module's TREE semantics (no text), written from the Python library
documentation of json.JSONEncoder / json.loads(object_hook=...).

Why: the C-level text encoder/decoder cannot carry solver values, but everything Cirq adds to JSON
(CirqEncoder.default: cirq_type tagging, VAL/REF memo, sympy/complex/numpy special cases; ObjectHook:
resolver lookup, _from_json_dict_ / constructor dispatch) is Python that only sees the tree.  The
model below drives exactly these two real callbacks the way `json.dumps(obj, cls=CirqEncoder)` and
`json.loads(text, object_hook=ObjectHook(...))` drive them:

 encoding (docs: "JSONEncoder ... supports dict, list, tuple, str, int, float, int/float-derived enums,
   True, False, None; default(o) is called for everything else and its result is encoded instead")
     dict   -> object; keys must be str/int/float/bool/None, non-str keys are converted to their JSON
               text ("true"/"false"/"null"/repr of number); insertion order is kept
     list, tuple -> array (so tuples come back as lists)
     str, int, float, bool, None -> themselves (float text is repr(): round-trips every finite float exactly;
               int text is exact)
     other  -> encode(default(o))
 decoding ("object_hook is called with the result of every JSON object decoded (a dict) and its return
   value is used in place of the dict", inner objects first, in document order)

Symbolic scalars (SNum/SInt/SBool) stand for the Python float/int/bool the caller would have passed
and are therefore leaves.  What the model deliberately leaves out (= outside the claim): the text
itself (escaping, NaN/Infinity spelling, indent/separators), gzip, file handling.
"""
from __future__ import annotations

import numpy as np

from symx.sint import SBool, SInt
from symx.snum import SNum

SYM = (SNum, SInt, SBool)


class JsonModelError(TypeError):
    pass


def _key_text(k):
    if isinstance(k, str):
        return k
    if k is True:
        return 'true'
    if k is False:
        return 'false'
    if k is None:
        return 'null'
    if isinstance(k, int):
        return int.__repr__(k)
    if isinstance(k, float):
        return float.__repr__(k)
    raise JsonModelError(f'keys must be str, int, float, bool or None, not {type(k).__name__}')


def encode_tree(obj, default, _depth=0, _markers=None):
    """what json.dumps would write, as a tree of dict/list/leaf"""
    if _markers is None:
        _markers = set()
    if _depth > 60:
        raise JsonModelError('json model: nesting too deep')
    if obj is None or obj is True or obj is False or isinstance(obj, str):
        return obj
    if isinstance(obj, SYM):
        return obj
    if isinstance(obj, (int, float)):  # includes np.float64 (float subclass), IntEnum
        return obj
    if isinstance(obj, (list, tuple)):
        return [encode_tree(x, default, _depth + 1, _markers) for x in obj]
    if isinstance(obj, dict):
        return {_key_text(k): encode_tree(v, default, _depth + 1, _markers) for k, v in obj.items()}
    oid = id(obj)
    if oid in _markers:
        raise ValueError('Circular reference detected')
    _markers.add(oid)
    try:
        return encode_tree(default(obj), default, _depth + 1, _markers)
    finally:
        _markers.discard(oid)


def decode_tree(tree, object_hook):
    """what json.loads(text, object_hook=hook) would return for the text of `tree`"""
    if isinstance(tree, list):
        return [decode_tree(x, object_hook) for x in tree]
    if isinstance(tree, dict):
        return object_hook({k: decode_tree(v, object_hook) for k, v in tree.items()})
    return tree


def cirq_roundtrip(obj):
    """model of cirq.read_json(json_text=cirq.to_json(obj)) through the REAL CirqEncoder.default and the
    REAL ObjectHook with the default resolvers"""
    from cirq.protocols import json_serialization as js

    enc = js.CirqEncoder()
    tree = encode_tree(obj, enc.default)
    hook = js.ObjectHook(js.DEFAULT_RESOLVERS)
    return decode_tree(tree, hook), tree


def text_roundtrip(obj):
    """the real thing (concrete values only)"""
    import cirq

    return cirq.read_json(json_text=cirq.to_json(obj))


def tree_leaves(tree, out=None):
    out = [] if out is None else out
    if isinstance(tree, list):
        for x in tree:
            tree_leaves(x, out)
    elif isinstance(tree, dict):
        for v in tree.values():
            tree_leaves(v, out)
    else:
        out.append(tree)
    return out

"""Extension of oracles/json_model.py for COMPLEX symbolic scalars (used by checks/C11.py json.lin.*).

json_model.encode_tree treats every symbolic scalar as a leaf ("stands for the float / int / bool the caller would
have passed").  That is right for a real-valued SNum, but a Python `complex` is NOT a JSON leaf: json.dumps hands it to
`default(o)`, and CirqEncoder.default turns it into {'cirq_type': 'complex', 'real': ..., 'imag': ...}, which ObjectHook
sends to the resolver entry 'complex' on the way back.  With complex leaves that branch of the real encoder is never
executed on symbolic values, so a cleaning / rounding step inside it would only be visible at concrete points.

Here a symbolic scalar that is not syntactically real (it has a non-zero imaginary coefficient somewhere, e.g.
`u * 1j` or `s + u * 1j`) stands for the Python `complex` the caller would have passed and is therefore sent through
the REAL `default` callback exactly like any other non-JSON object; its result (a dict with real symbolic leaves) is
encoded recursively.  Everything else is identical to json_model.encode_tree (same documented json semantics).
"""
from __future__ import annotations

from oracles import json_model as JM
from symx.snum import SNum


def is_complex_leaf(x) -> bool:
    return isinstance(x, SNum) and not x.is_const() and not x.is_syntactically_real()


def encode_tree(obj, default, _depth=0, _markers=None):
    if _markers is None:
        _markers = set()
    if _depth > 60:
        raise JM.JsonModelError('json model: nesting too deep')
    if is_complex_leaf(obj):
        return encode_tree(default(obj), default, _depth + 1, _markers)
    if obj is None or obj is True or obj is False or isinstance(obj, str):
        return obj
    if isinstance(obj, JM.SYM):
        return obj
    if isinstance(obj, (int, float)):
        return obj
    if isinstance(obj, (list, tuple)):
        return [encode_tree(x, default, _depth + 1, _markers) for x in obj]
    if isinstance(obj, dict):
        return {JM._key_text(k): encode_tree(v, default, _depth + 1, _markers) for k, v in obj.items()}
    oid = id(obj)
    if oid in _markers:
        raise ValueError('Circular reference detected')
    _markers.add(oid)
    try:
        return encode_tree(default(obj), default, _depth + 1, _markers)
    finally:
        _markers.discard(oid)


def cirq_roundtrip(obj):
    """model of cirq.read_json(json_text=cirq.to_json(obj)) through the REAL CirqEncoder.default and the REAL ObjectHook
    (default resolvers), complex symbolic scalars included"""
    from cirq.protocols import json_serialization as js

    enc = js.CirqEncoder()
    tree = encode_tree(obj, enc.default)
    hook = js.ObjectHook(js.DEFAULT_RESOLVERS)
    return JM.decode_tree(tree, hook), tree

"""Independent OpenQASM 2.0 / 3.0 reader (harness side of C19).

Written from the language specifications, not from cirq.contrib.qasm_import or any Cirq code:

* OpenQASM 2.0: Cross, Bishop, Smolin, Gambetta, "Open Quantum Assembly Language" (arXiv:1707.03429):
  grammar of the appendix (strict: reals need a '.', `if (creg==int) qop;` guards exactly ONE quantum
  operation, only `==` exists), built-ins `U(theta,phi,lambda)` := Rz(phi) Ry(theta) Rz(lambda) and `CX`,
  and the library `qelib1.inc` reproduced below as QASM TEXT which this reader parses itself.  `sx`
  and `sxdg` are not in the paper's qelib1.inc; they are in the qelib1.inc distributed with Qiskit and
  are accepted as "extension" gates (reported in Result.extension_gates).
* OpenQASM 3.0 (openqasm.com, "Standard library" / stdgates.inc): declarations `qubit[n] q;`,
  `bit[n] c;`, `c[i] = measure q[j];`, `if (cond) stmt` / `if (cond) { ... }` with `==`, `!=`, `&&`;
  built-in U(theta,phi,lambda) = [[cos(t/2), -e^{i lambda} sin(t/2)], [e^{i phi} sin(t/2),
  e^{i(phi+lambda)} cos(t/2)]] and the stdgates.inc gates given by their defining expressions
  (ctrl @, pow(1/2) @, inv @, gphase evaluated on matrices here).  stdgates.inc has NO `sxdg`; a
  caller may pass lenient=('sxdg',) to have it read as inv @ sx (reported in Result.nonstandard_gates).

A classical register is an unsigned integer with bit 0 the LEAST significant bit (both versions).

Numbers may be Python floats or symbolic SNum; a placeholder token  §k§  in a parameter expression is
resolved through the `lookup` callback (symx.qasm_shim.TOKENS) so symbolic gate parameters survive the
trip through the emitted text.

Semantics produced by `run`: for the outcome values supplied by the `outcome` callback (one Boolean
per measurement / reset event) the Kraus operator of the whole program as a 2^n x 2^n matrix over the
declared qubits (axis i = i-th declared qubit, big-endian flattening), plus the list of classical
events.  Unitary programs have no events and the operator is their unitary.
"""
from __future__ import annotations

import itertools
import math
import re

import numpy as np

from symx.snum import SNum, cos, exp, sin

PI = math.pi


class QasmError(Exception):
    pass


# =============================================================================================
# lexer
# =============================================================================================
_TOK = re.compile(
    r'\s*(?:'
    r'(?P<ph>§\d+§)'
    r'|(?P<real>(?:\d+\.\d*|\.\d+)(?:[eE][-+]?\d+)?)'
    r'|(?P<badreal>\d+[eE][-+]?\d+)'
    r'|(?P<int>\d+)'
    r'|(?P<id>[A-Za-z_][A-Za-z0-9_]*)'
    r'|(?P<str>"[^"\n]*")'
    r'|(?P<op>==|!=|&&|\|\||->|\*\*|[-+*/^(){}\[\];,=<>!@])'
    r')'
)


def _strip_comments(text):
    """returns (code_without_comments, {line_no: comment_text})"""
    code, comments = [], {}
    for i, line in enumerate(text.split('\n')):
        j = line.find('//')
        if j >= 0:
            comments[i] = line[j + 2 :].strip()
            line = line[:j]
        code.append(line)
    return code, comments


def _lex(code_lines):
    toks = []
    for ln, line in enumerate(code_lines):
        pos = 0
        while pos < len(line):
            if line[pos:].strip() == '':
                break
            m = _TOK.match(line, pos)
            if not m:
                raise QasmError(f'line {ln + 1}: cannot tokenize {line[pos:pos + 20]!r}')
            kind = m.lastgroup
            toks.append((kind, m.group(kind), ln))
            pos = m.end()
    return toks


# =============================================================================================
# parser -> AST
# =============================================================================================
class _P:
    def __init__(self, toks, version=None, in_library=False):
        self.t = toks
        self.i = 0
        self.version = version
        self.in_library = in_library

    def peek(self, k=0):
        return self.t[self.i + k] if self.i + k < len(self.t) else ('eof', '', -1)

    def next(self):
        tok = self.peek()
        if tok[0] == 'eof':
            raise QasmError('unexpected end of program')
        self.i += 1
        return tok

    def accept(self, val):
        if self.peek()[1] == val and self.peek()[0] in ('op', 'id'):
            self.i += 1
            return True
        return False

    def expect(self, val):
        tok = self.next()
        if tok[1] != val:
            raise QasmError(f'line {tok[2] + 1}: expected {val!r}, found {tok[1]!r}')
        return tok

    def ident(self):
        tok = self.next()
        if tok[0] != 'id':
            raise QasmError(f'line {tok[2] + 1}: identifier expected, found {tok[1]!r}')
        return tok[1]

    def integer(self):
        tok = self.next()
        if tok[0] != 'int':
            raise QasmError(f'line {tok[2] + 1}: non-negative integer expected, found {tok[1]!r}')
        return int(tok[1])

    # ---- expressions:  exp := term {(+|-) term};  term := unary {(*|/) unary};  unary := -unary | pow
    def expr(self):
        node = self.term()
        while self.peek()[1] in ('+', '-') and self.peek()[0] == 'op':
            op = self.next()[1]
            node = (op, node, self.term())
        return node

    def term(self):
        node = self.unary()
        while self.peek()[1] in ('*', '/') and self.peek()[0] == 'op':
            op = self.next()[1]
            node = (op, node, self.unary())
        return node

    def unary(self):
        if self.peek()[0] == 'op' and self.peek()[1] == '-':
            self.next()
            return ('neg', self.unary())
        if self.peek()[0] == 'op' and self.peek()[1] == '+':
            self.next()
            return self.unary()
        return self.power()

    def power(self):
        base = self.atom()
        if self.peek()[0] == 'op' and self.peek()[1] in ('^', '**'):
            op = self.next()[1]
            if (op == '^') != (self.version == '2.0'):
                raise QasmError(f'power operator {op!r} not in OpenQASM {self.version}')
            return ('pow', base, self.unary())
        return base

    def atom(self):
        kind, val, ln = self.next()
        if kind == 'real':
            return ('num', float(val))
        if kind == 'badreal':
            if self.version == '2.0':
                raise QasmError(f'line {ln + 1}: {val!r} is not an OpenQASM 2.0 real (needs a decimal point)')
            return ('num', float(val))
        if kind == 'int':
            return ('num', int(val))
        if kind == 'ph':
            return ('ph', val)
        if kind == 'id':
            if val in ('pi', 'π'):
                return ('num', PI)
            if val in ('sin', 'cos', 'tan', 'exp', 'ln', 'sqrt') and self.peek()[1] == '(':
                self.expect('(')
                a = self.expr()
                self.expect(')')
                return ('fn', val, a)
            return ('var', val)
        if kind == 'op' and val == '(':
            e = self.expr()
            self.expect(')')
            return e
        raise QasmError(f'line {ln + 1}: unexpected {val!r} in expression')

    # ---- arguments
    def arg(self):
        name = self.ident()
        if self.accept('['):
            idx = self.integer()
            self.expect(']')
            return (name, idx)
        return (name, None)

    def arglist(self):
        out = [self.arg()]
        while self.accept(','):
            out.append(self.arg())
        return out

    # ---- conditions
    def cond(self):
        terms = [self.cond_atom()]
        while self.peek()[1] == '&&':
            if self.version == '2.0':
                raise QasmError("'&&' is not OpenQASM 2.0")
            self.next()
            terms.append(self.cond_atom())
        return terms

    def cond_atom(self):
        if self.accept('('):
            inner = self.cond()
            self.expect(')')
            if len(inner) != 1:
                raise QasmError('nested conjunctions are not supported by this reader')
            return inner[0]
        reg = self.arg()
        tok = self.next()
        if tok[1] not in ('==', '!='):
            raise QasmError(f'line {tok[2] + 1}: comparison expected in condition, found {tok[1]!r}')
        if tok[1] == '!=' and self.version == '2.0':
            raise QasmError("'!=' is not OpenQASM 2.0 (only `if (creg==int)` exists)")
        if reg[1] is not None and self.version == '2.0':
            raise QasmError('OpenQASM 2.0 conditions compare a whole creg')
        val = self.integer()
        return (reg, tok[1], val)

    # ---- statements
    def quantum_op(self):
        """one quantum operation (gate call / measure / reset / barrier) ending with ';'"""
        kind, val, ln = self.peek()
        if kind != 'id':
            raise QasmError(f'line {ln + 1}: statement expected, found {val!r}')
        if val == 'measure':
            if self.version != '2.0':
                raise QasmError('`measure q -> c;` is OpenQASM 2.0 syntax')
            self.next()
            q = self.arg()
            self.expect('->')
            c = self.arg()
            self.expect(';')
            return ('measure', q, c)
        if val == 'reset':
            self.next()
            q = self.arg()
            self.expect(';')
            return ('reset', q)
        if val == 'barrier':
            self.next()
            a = self.arglist()
            self.expect(';')
            return ('barrier', a)
        # 3.0 assignment measurement:  c[i] = measure q[j];
        if self.version == '3.0':
            save = self.i
            try:
                c = self.arg()
                if self.accept('='):
                    self.expect('measure')
                    q = self.arg()
                    self.expect(';')
                    return ('measure', q, c)
            except QasmError:
                pass
            self.i = save
        name = self.ident()
        params = []
        if self.accept('('):
            if not self.accept(')'):
                params.append(self.expr())
                while self.accept(','):
                    params.append(self.expr())
                self.expect(')')
        args = self.arglist()
        self.expect(';')
        return ('gate', name, params, args)

    def statement(self):
        kind, val, ln = self.peek()
        if val == 'if' and kind == 'id':
            self.next()
            self.expect('(')
            c = self.cond()
            self.expect(')')
            if self.peek()[1] == '{':
                if self.version == '2.0':
                    raise QasmError('`if (...) { ... }` blocks are not OpenQASM 2.0')
                self.next()
                body = []
                while not self.accept('}'):
                    body.append(self.statement())
                return ('if', c, body)
            if self.version == '2.0':
                return ('if', c, [self.quantum_op()])
            return ('if', c, [self.statement()])
        return self.quantum_op()

    def gate_def(self):
        name = self.ident()
        params = []
        if self.accept('('):
            if not self.accept(')'):
                params.append(self.ident())
                while self.accept(','):
                    params.append(self.ident())
                self.expect(')')
        qargs = [self.ident()]
        while self.accept(','):
            qargs.append(self.ident())
        self.expect('{')
        body = []
        while not self.accept('}'):
            body.append(self.quantum_op())
        return name, (params, qargs, body)


class Program:
    def __init__(self):
        self.version = None
        self.includes = []
        self.qregs = []  # (name, size)
        self.cregs = []  # (name, size, comment)
        self.gates = {}
        self.stmts = []
        self.comments = {}
        self.qubits_comment = None


def parse(text: str) -> Program:
    code, comments = _strip_comments(text)
    toks = _lex(code)
    prog = Program()
    prog.comments = comments
    for c in comments.values():
        if c.startswith('Qubits:'):
            prog.qubits_comment = c[len('Qubits:') :].strip()
    p = _P(toks)
    # header
    tok = p.next()
    if tok[1] != 'OPENQASM':
        raise QasmError('program must start with OPENQASM <version>;')
    v = p.next()
    if v[0] not in ('real', 'int'):
        raise QasmError('version number expected')
    prog.version = {'2.0': '2.0', '2': '2.0', '3.0': '3.0', '3': '3.0'}.get(v[1])
    if prog.version is None:
        raise QasmError(f'unsupported OPENQASM version {v[1]!r}')
    p.version = prog.version
    p.expect(';')
    while p.peek()[0] != 'eof':
        kind, val, ln = p.peek()
        if kind == 'id' and val == 'include':
            p.next()
            s = p.next()
            if s[0] != 'str':
                raise QasmError('include needs a file name string')
            p.expect(';')
            prog.includes.append(s[1].strip('"'))
        elif kind == 'id' and val in ('qreg', 'creg'):
            if prog.version != '2.0':
                # 3.0 keeps qreg/creg for backwards compatibility
                pass
            p.next()
            name = p.ident()
            p.expect('[')
            n = p.integer()
            p.expect(']')
            p.expect(';')
            if val == 'qreg':
                prog.qregs.append((name, n))
            else:
                prog.cregs.append((name, n, comments.get(ln)))
        elif kind == 'id' and val in ('qubit', 'bit') and prog.version == '3.0':
            p.next()
            n = 1
            if p.accept('['):
                n = p.integer()
                p.expect(']')
            name = p.ident()
            p.expect(';')
            if val == 'qubit':
                prog.qregs.append((name, n))
            else:
                prog.cregs.append((name, n, comments.get(ln)))
        elif kind == 'id' and val == 'gate':
            p.next()
            name, d = p.gate_def()
            prog.gates[name] = d
        else:
            prog.stmts.append(p.statement())
    return prog


# =============================================================================================
# gate libraries
# =============================================================================================
QELIB1_TEXT = r'''
// Quantum Experience (QE) Standard Header -- qelib1.inc, arXiv:1707.03429 appendix / openqasm 2.0 repo
gate u3(theta,phi,lambda) q { U(theta,phi,lambda) q; }
gate u2(phi,lambda) q { U(pi/2,phi,lambda) q; }
gate u1(lambda) q { U(0,0,lambda) q; }
gate cx c,t { CX c,t; }
gate id a { U(0,0,0) a; }
gate u0(gamma) q { U(0,0,0) q; }
gate x a { u3(pi,0,pi) a; }
gate y a { u3(pi,pi/2,pi/2) a; }
gate z a { u1(pi) a; }
gate h a { u2(0,pi) a; }
gate s a { u1(pi/2) a; }
gate sdg a { u1(-pi/2) a; }
gate t a { u1(pi/4) a; }
gate tdg a { u1(-pi/4) a; }
gate rx(theta) a { u3(theta, -pi/2,pi/2) a; }
gate ry(theta) a { u3(theta,0,0) a; }
gate rz(phi) a { u1(phi) a; }
gate cz a,b { h b; cx a,b; h b; }
gate cy a,b { sdg b; cx a,b; s b; }
gate swap a,b { cx a,b; cx b,a; cx a,b; }
gate ch a,b {
h b; sdg b;
cx a,b;
h b; t b;
cx a,b;
t b; h b; s b; x b; s a;
}
gate ccx a,b,c
{
  h c;
  cx b,c; tdg c;
  cx a,c; t c;
  cx b,c; tdg c;
  cx a,c; t b; t c; h c;
  cx a,b; t a; tdg b;
  cx a,b;
}
gate cswap a,b,c
{
  cx c,b;
  ccx a,b,c;
  cx c,b;
}
gate crz(lambda) a,b
{
  u1(lambda/2) b;
  cx a,b;
  u1(-lambda/2) b;
  cx a,b;
}
gate cu1(lambda) a,b
{
  u1(lambda/2) a;
  cx a,b;
  u1(-lambda/2) b;
  cx a,b;
  u1(lambda/2) b;
}
gate cu3(theta,phi,lambda) c, t
{
  u1((lambda-phi)/2) t;
  cx c,t;
  u3(-theta/2,0,-(phi+lambda)/2) t;
  cx c,t;
  u3(theta/2,phi,0) t;
}
'''

# gates added to qelib1.inc by Qiskit (not in the OpenQASM 2.0 paper); definitions as shipped there
QELIB1_EXT_TEXT = r'''
gate sx a { sdg a; h a; sdg a; }
gate sxdg a { s a; h a; s a; }
gate p(lambda) q { U(0,0,lambda) q; }
'''


def _parse_lib(text):
    code, _ = _strip_comments(text)
    p = _P(_lex(code), version='2.0', in_library=True)
    out = {}
    while p.peek()[0] != 'eof':
        p.expect('gate')
        name, d = p.gate_def()
        out[name] = d
    return out


QELIB1 = _parse_lib(QELIB1_TEXT)
QELIB1_EXT = _parse_lib(QELIB1_EXT_TEXT)


def _E(x):
    """exp(i x) for float or SNum"""
    return exp(1j * x)


def _M(rows):
    flat = [e for r in rows for e in r]
    if any(isinstance(e, SNum) for e in flat):
        a = np.empty((len(rows), len(rows[0])), dtype=object)
        for i, r in enumerate(rows):
            for j, e in enumerate(r):
                a[i, j] = e if isinstance(e, SNum) else SNum.const(e)
        return a
    return np.array(rows, dtype=complex)


def U_v2(theta, phi, lam):
    """OpenQASM 2.0 built-in:  Rz(phi) Ry(theta) Rz(lambda)  (arXiv:1707.03429 eq. (2))"""
    c, s = cos(theta / 2), sin(theta / 2)
    return _M(
        [
            [_E(-(phi + lam) / 2) * c, -_E(-(phi - lam) / 2) * s],
            [_E((phi - lam) / 2) * s, _E((phi + lam) / 2) * c],
        ]
    )


def U_v3(theta, phi, lam):
    """OpenQASM 3.0 built-in U gate (spec, 'Built-in gates')"""
    c, s = cos(theta / 2), sin(theta / 2)
    return _M([[c, -_E(lam) * s], [_E(phi) * s, _E(phi + lam) * c]])


CX_MATRIX = np.array([[1, 0, 0, 0], [0, 1, 0, 0], [0, 0, 0, 1], [0, 0, 1, 0]], dtype=complex)


def _ctrl(m):
    m = np.asarray(m)
    k = m.shape[0]
    out = np.zeros((2 * k, 2 * k), dtype=object if m.dtype == object else complex)
    if m.dtype == object:
        for i in range(2 * k):
            for j in range(2 * k):
                out[i, j] = SNum.const(1 if (i == j and i < k) else 0)
    else:
        out[:k, :k] = np.eye(k)
    out[k:, k:] = m
    return out


def _pow_half(m):
    """pow(1/2) @ g : principal square root of a CONSTANT unitary (eigenphases in (-pi, pi])"""
    w, v = np.linalg.eig(np.asarray(m, dtype=complex))
    ph = np.angle(w)
    ph = np.where(np.isclose(ph, -np.pi), np.pi, ph)
    return (v * np.exp(0.5j * ph)) @ np.linalg.inv(v)


def _inv(m):
    return np.asarray(m, dtype=complex).conj().T


def _scal(a, m):
    m = np.asarray(m)
    if isinstance(a, SNum) or m.dtype == object:
        out = np.empty(m.shape, dtype=object)
        for idx in np.ndindex(*m.shape):
            out[idx] = a * m[idx]
        return out
    return a * m


_X3 = U_v3(PI, 0, PI)
_Y3 = U_v3(PI, PI / 2, PI / 2)


def _P3(lam):
    return _M([[1, 0], [0, _E(lam)]])


_Z3 = _P3(PI)
_H3 = U_v3(PI / 2, 0, PI)
_S3 = _pow_half(_Z3)
_T3 = _pow_half(_S3)
_SX3 = _pow_half(_X3)
_SWAP3 = np.array([[1, 0, 0, 0], [0, 0, 1, 0], [0, 1, 0, 0], [0, 0, 0, 1]], dtype=complex)


def _rx3(t):
    c, s = cos(t / 2), sin(t / 2)
    return _M([[c, -1j * s], [-1j * s, c]])


def _ry3(t):
    c, s = cos(t / 2), sin(t / 2)
    return _M([[c, -s], [s, c]])


def _rz3(lam):
    return _M([[_E(-lam / 2), 0], [0, _E(lam / 2)]])


# name -> (n_params, n_qubits, matrix function); stdgates.inc of the OpenQASM 3 specification
STDGATES3 = {
    'p': (1, 1, _P3),
    'x': (0, 1, lambda: _X3),
    'y': (0, 1, lambda: _Y3),
    'z': (0, 1, lambda: _Z3),
    'h': (0, 1, lambda: _H3),
    's': (0, 1, lambda: _S3),
    'sdg': (0, 1, lambda: _inv(_S3)),
    't': (0, 1, lambda: _T3),
    'tdg': (0, 1, lambda: _inv(_T3)),
    'sx': (0, 1, lambda: _SX3),
    'rx': (1, 1, _rx3),
    'ry': (1, 1, _ry3),
    'rz': (1, 1, _rz3),
    'cx': (0, 2, lambda: _ctrl(_X3)),
    'cy': (0, 2, lambda: _ctrl(_Y3)),
    'cz': (0, 2, lambda: _ctrl(_Z3)),
    'cp': (1, 2, lambda l: _ctrl(_P3(l))),
    'crx': (1, 2, lambda t: _ctrl(_rx3(t))),
    'cry': (1, 2, lambda t: _ctrl(_ry3(t))),
    'crz': (1, 2, lambda t: _ctrl(_rz3(t))),
    'ch': (0, 2, lambda: _ctrl(_H3)),
    'swap': (0, 2, lambda: _SWAP3),
    'ccx': (0, 3, lambda: _ctrl(_ctrl(_X3))),
    'cswap': (0, 3, lambda: _ctrl(_SWAP3)),
    'cu': (4, 2, lambda t, p, l, g: _ctrl(_scal(_E(g), U_v3(t, p, l)))),
    'CX': (0, 2, lambda: _ctrl(_X3)),
    'phase': (1, 1, _P3),
    'cphase': (1, 2, lambda l: _ctrl(_P3(l))),
    'id': (0, 1, lambda: np.eye(2, dtype=complex)),
    'u1': (1, 1, lambda l: U_v3(0, 0, l)),
    'u2': (2, 1, lambda p, l: _scal(_E(-(p + l) / 2), U_v3(PI / 2, p, l))),
    'u3': (3, 1, lambda t, p, l: _scal(_E(-(p + l) / 2), U_v3(t, p, l))),
}
# not in stdgates.inc; only read when the caller asks for leniency
LENIENT3 = {'sxdg': (0, 1, lambda: _inv(_SX3))}


# =============================================================================================
# evaluation
# =============================================================================================
def _is_zero(e):
    if isinstance(e, SNum):
        return not e.t
    return e == 0


def apply_to_axes(m, T, axes):
    """T' = (m on `axes`) . T  where T has one axis per qubit first (row/output indices) followed by
    any number of further axes; m is indexed big-endian over `axes`."""
    shape = T.shape
    k = len(axes)
    sym = (np.asarray(m).dtype == object) or (T.dtype == object)
    out = np.empty(shape, dtype=object if sym else complex)
    sub = list(itertools.product((0, 1), repeat=k))
    rows = []
    for i in range(len(sub)):
        rows.append([(j, m[i, j]) for j in range(len(sub)) if not _is_zero(m[i, j])])
    for idx in itertools.product(*[range(s) for s in shape]):
        i = 0
        for a in axes:
            i = i * 2 + idx[a]
        tot = 0
        src = list(idx)
        for j, mij in rows[i]:
            for a, v in zip(axes, sub[j]):
                src[a] = v
            x = T[tuple(src)]
            if _is_zero(x):
                continue
            tot = tot + mij * x
        out[idx] = tot
    return out


def _ev(node, env, lookup):
    k = node[0]
    if k == 'num':
        return node[1]
    if k == 'ph':
        if lookup is None:
            raise QasmError(f'placeholder {node[1]} without a lookup table')
        return lookup(node[1])
    if k == 'var':
        if node[1] not in env:
            raise QasmError(f'unknown identifier {node[1]!r} in expression')
        return env[node[1]]
    if k == 'neg':
        return -_ev(node[1], env, lookup)
    if k in ('+', '-', '*', '/'):
        a, b = _ev(node[1], env, lookup), _ev(node[2], env, lookup)
        if k == '+':
            return a + b
        if k == '-':
            return a - b
        if k == '*':
            return a * b
        return a / b
    if k == 'pow':
        return _ev(node[1], env, lookup) ** _ev(node[2], env, lookup)
    if k == 'fn':
        a = _ev(node[2], env, lookup)
        if isinstance(a, SNum):
            if node[1] in ('sin', 'cos'):
                return {'sin': sin, 'cos': cos}[node[1]](a)
            raise QasmError(f'{node[1]} of a symbolic value')
        return {'sin': math.sin, 'cos': math.cos, 'tan': math.tan, 'exp': math.exp, 'ln': math.log, 'sqrt': math.sqrt}[node[1]](a)
    raise QasmError(f'bad expression node {k}')


class Result:
    def __init__(self):
        self.version = None
        self.n = 0
        self.op = None  # 2^n x 2^n operator (Kraus operator of the chosen outcomes)
        self.events = []  # ('measure', qubit, creg, bit, occ, value) / ('reset', qubit, occ, value)
        self.cregs = []
        self.qregs = []
        self.extension_gates = set()
        self.nonstandard_gates = set()
        self.conditional_stmts = []  # (condition list, truth value) per executed `if`
        self.gate_calls = []  # (name, qubit indices, conditional?) top-level calls in program order
        self.includes = []
        self.qubits_comment = None


class _Machine:
    def __init__(self, prog, outcome, lookup, lenient):
        self.prog = prog
        self.outcome = outcome
        self.lookup = lookup
        self.lenient = tuple(lenient)
        self.res = Result()
        self.cache = {}
        self.qoff = {}
        n = 0
        for name, size in prog.qregs:
            if name in self.qoff:
                raise QasmError(f'qreg {name} declared twice')
            self.qoff[name] = (n, size)
            n += size
        self.n = n
        self.cbits = {}
        self.csize = {}
        for name, size, _c in prog.cregs:
            if name in self.csize or name in self.qoff:
                raise QasmError(f'register {name} declared twice')
            self.csize[name] = size
            for j in range(size):
                self.cbits[(name, j)] = False
        self.occ = {}
        N = 2**n
        self.T = np.eye(N, dtype=complex).reshape((2,) * (2 * n)) if n else np.ones((), dtype=complex)

    # ---- libraries ---------------------------------------------------------------------
    def _lib_v2(self, name):
        if name in self.prog.gates:
            return self.prog.gates[name]
        if 'qelib1.inc' in self.prog.includes:
            if name in QELIB1:
                return QELIB1[name]
            if name in QELIB1_EXT:
                self.res.extension_gates.add(name)
                return QELIB1_EXT[name]
        return None

    def gate_matrix(self, name, pvals):
        """local matrix (big-endian over the gate's own qubit arguments)"""
        concrete = all(not isinstance(v, SNum) for v in pvals)
        key = (name, tuple(float(v) for v in pvals)) if concrete else None
        if key is not None and key in self.cache:
            return self.cache[key]
        m = self._gate_matrix(name, pvals)
        if key is not None:
            self.cache[key] = m
        return m

    def _gate_matrix(self, name, pvals):
        v = self.prog.version
        if name == 'U':
            if len(pvals) != 3:
                raise QasmError('U takes 3 parameters')
            return U_v2(*pvals) if v == '2.0' else U_v3(*pvals)
        if v == '2.0':
            if name == 'CX':
                if pvals:
                    raise QasmError('CX takes no parameters')
                return CX_MATRIX
            d = self._lib_v2(name)
            if d is None:
                raise QasmError(f'gate {name!r} is not defined (OpenQASM 2.0, includes={self.prog.includes})')
            return self._compose(d, pvals, name)
        # 3.0
        if name in self.prog.gates:
            return self._compose(self.prog.gates[name], pvals, name)
        ent = None
        if 'stdgates.inc' in self.prog.includes:
            ent = STDGATES3.get(name)
        if ent is None and name in self.lenient and name in LENIENT3:
            ent = LENIENT3[name]
            self.res.nonstandard_gates.add(name)
        if ent is None:
            raise QasmError(f'gate {name!r} is not defined (OpenQASM 3.0, includes={self.prog.includes}; stdgates.inc has no such gate)')
        npar, _nq, fn = ent
        if len(pvals) != npar:
            raise QasmError(f'gate {name} takes {npar} parameters, got {len(pvals)}')
        return fn(*pvals)

    def _compose(self, d, pvals, name):
        params, qargs, body = d
        if len(params) != len(pvals):
            raise QasmError(f'gate {name} takes {len(params)} parameters, got {len(pvals)}')
        env = dict(zip(params, pvals))
        k = len(qargs)
        pos = {q: i for i, q in enumerate(qargs)}
        T = np.eye(2**k, dtype=complex).reshape((2,) * (2 * k))
        for st in body:
            if st[0] == 'barrier':
                continue
            if st[0] != 'gate':
                raise QasmError(f'{st[0]} inside a gate body')
            _, gname, pex, args = st
            vals = [_ev(e, env, self.lookup) for e in pex]
            axes = []
            for a, idx in args:
                if idx is not None or a not in pos:
                    raise QasmError(f'bad qubit argument {a} in body of gate {name}')
                axes.append(pos[a])
            if len(set(axes)) != len(axes):
                raise QasmError(f'repeated qubit in body of gate {name}')
            m = self.gate_matrix(gname, vals)
            if m.shape[0] != 2 ** len(axes):
                raise QasmError(f'gate {gname} applied to {len(axes)} qubits in body of {name}')
            T = apply_to_axes(m, T, axes)
        return T.reshape(2**k, 2**k)

    # ---- execution -----------------------------------------------------------------------
    def qubit(self, arg):
        name, idx = arg
        if name not in self.qoff:
            raise QasmError(f'unknown quantum register {name!r}')
        off, size = self.qoff[name]
        if idx is None:
            if size == 1 and self.prog.version == '3.0':
                return off
            raise QasmError('whole-register (broadcast) arguments are not supported by this reader')
        if not 0 <= idx < size:
            raise QasmError(f'qubit index {name}[{idx}] out of range')
        return off + idx

    def cbit(self, arg):
        name, idx = arg
        if name not in self.csize:
            raise QasmError(f'unknown classical register {name!r}')
        if idx is None:
            if self.csize[name] == 1:
                return (name, 0)
            raise QasmError('whole-register measurement targets are not supported by this reader')
        if not 0 <= idx < self.csize[name]:
            raise QasmError(f'bit index {name}[{idx}] out of range')
        return (name, idx)

    def reg_value(self, name):
        return sum((1 << j) for j in range(self.csize[name]) if self.cbits[(name, j)])

    def eval_cond(self, conds):
        ok = True
        for (reg, op, val) in conds:
            name, idx = reg
            if name not in self.csize:
                raise QasmError(f'condition on unknown classical register {name!r}')
            if idx is None:
                have = self.reg_value(name)
            else:
                if not 0 <= idx < self.csize[name]:
                    raise QasmError(f'bit index {name}[{idx}] out of range')
                have = int(self.cbits[(name, idx)])
            ok = ok and ((have == val) if op == '==' else (have != val))
        return ok

    def _project(self, q, b):
        p = np.zeros((2, 2), dtype=complex)
        p[int(b), int(b)] = 1
        self.T = apply_to_axes(p, self.T, [q])

    def exec(self, st, conditional=False):
        k = st[0]
        if k == 'if':
            truth = self.eval_cond(st[1])
            self.res.conditional_stmts.append((st[1], truth))
            for inner in st[2]:
                if truth:
                    self.exec(inner, conditional=True)
                else:
                    self._validate_only(inner)
            return
        if k == 'barrier':
            return
        if k == 'gate':
            _, name, pex, args = st
            vals = [_ev(e, {}, self.lookup) for e in pex]
            axes = [self.qubit(a) for a in args]
            if len(set(axes)) != len(axes):
                raise QasmError(f'gate {name} applied to a repeated qubit')
            m = self.gate_matrix(name, vals)
            if m.shape[0] != 2 ** len(axes):
                raise QasmError(f'gate {name} expects {int(math.log2(m.shape[0]))} qubits, got {len(axes)}')
            self.res.gate_calls.append((name, tuple(axes), conditional))
            self.T = apply_to_axes(m, self.T, axes)
            return
        if k == 'measure':
            q = self.qubit(st[1])
            c = self.cbit(st[2])
            occ = self.occ.get(('m',) + c, 0)
            self.occ[('m',) + c] = occ + 1
            b = bool(self.outcome('measure', c[0], c[1], occ))
            self._project(q, b)
            self.cbits[c] = b
            self.res.events.append(('measure', q, c[0], c[1], occ, b))
            return
        if k == 'reset':
            q = self.qubit(st[1])
            occ = self.occ.get(('r', q), 0)
            self.occ[('r', q)] = occ + 1
            b = bool(self.outcome('reset', q, None, occ))
            self._project(q, b)
            if b:
                self.T = apply_to_axes(np.array([[0, 1], [1, 0]], dtype=complex), self.T, [q])
            self.res.events.append(('reset', q, occ, b))
            return
        raise QasmError(f'cannot execute statement {k}')

    def _validate_only(self, st):
        """a guarded statement that is not executed must still be well-formed (defined gate, valid args)"""
        if st[0] == 'gate':
            vals = [_ev(e, {}, self.lookup) for e in st[2]]
            axes = [self.qubit(a) for a in st[3]]
            m = self.gate_matrix(st[1], vals)
            if m.shape[0] != 2 ** len(axes):
                raise QasmError(f'gate {st[1]} applied to {len(axes)} qubits')
            self.res.gate_calls.append((st[1], tuple(axes), True))
        elif st[0] == 'measure':
            self.qubit(st[1])
            self.cbit(st[2])
        elif st[0] == 'reset':
            self.qubit(st[1])
        elif st[0] == 'if':
            for inner in st[2]:
                self._validate_only(inner)


def run(text_or_program, outcome=None, lookup=None, lenient=()):
    """interpret the program for the outcome values delivered by `outcome(kind, reg, bit, occ)`"""
    prog = parse(text_or_program) if isinstance(text_or_program, str) else text_or_program
    expected_inc = {'2.0': 'qelib1.inc', '3.0': 'stdgates.inc'}[prog.version]
    for inc in prog.includes:
        if inc not in ('qelib1.inc', 'stdgates.inc'):
            raise QasmError(f'cannot resolve include {inc!r}')
        if inc != expected_inc:
            raise QasmError(f'include {inc!r} does not belong to OpenQASM {prog.version}')

    def no_outcome(*a):
        raise QasmError('program measures/resets but no outcome callback was given')

    m = _Machine(prog, outcome or no_outcome, lookup, lenient)
    for st in prog.stmts:
        m.exec(st)
    r = m.res
    r.version = prog.version
    r.n = m.n
    N = 2**m.n
    r.op = m.T.reshape(N, N)
    r.cregs = list(prog.cregs)
    r.qregs = list(prog.qregs)
    r.includes = list(prog.includes)
    r.qubits_comment = prog.qubits_comment
    return r

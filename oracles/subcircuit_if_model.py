"""Extension of oracles/subcircuit_model.py (C12) by CONDITIONAL BLOCKS: a classical condition in front of a
whole sub-circuit or of several operations (cirq.If / ClassicallyControlledOperation whose body is a
CircuitOperation), and by key-protocol transformations applied to such operations by hand.

Written from the documentation, not from if_op.py / classically_controlled_operation.py:

* cirq.If docstring: "An operation that conditionally executes a sub-operation based on classical conditions.
  This operation decomposes into a cirq.ClassicallyControlledOperation"; constructor: `condition` may be one
  condition or a sequence, "`sub_operation` and `more_operations` are combined into a cirq.CircuitOperation";
  ValueError "if the sub-operation contains measurement keys".
* ClassicallyControlledOperation docstring: the sub-operation runs iff ALL conditions hold ("Multiple consecutive
  ClassicallyControlledOperation layers are squashed").  A body without measurements cannot change the records,
  so a condition in front of a block is the same condition on every operation of the unrolled block.
* scoping (docs/build/classical_control.ipynb "Variable scope" and the CircuitOperation docstring, as in the base
  model): the condition of the block is an ordinary control key AT THE PLACE OF THE BLOCK (renamed by the key maps
  of all enclosing sub-circuits, bound to the innermost visible key of that name); the controls inside the body
  are renamed / bound in the scope of the body (its own key map, parent path), exactly as if the block carried no
  condition.
* key protocols (protocols/measurement_key_protocol.py docstrings) of ONE operation:
  - with_measurement_key_mapping(op, m): "Remaps the target's measurement keys according to the provided key_map"
    (control keys are keys touched): every key NAME n becomes m.get(n, n), paths kept;
  - with_key_path_prefix(op, p): "Prefixes the path to the target's measurement keys": a condition key P:n becomes
    p+P:n; a sub-circuit gets `parent_path = p + parent_path` (CircuitOperation docstring: parent_path = "identifiers
    for any parent CircuitOperations") and its own controls keep binding by scope;
  - with_rescoped_keys(op, p, bindable): "Rescopes any measurement and control keys to the provided path, given the
    existing keys": the operation as it reads at key path p when `bindable` are the keys measured so far;
  - with_key_path(op, p): "Adds the path to the target's MEASUREMENT keys": an operation that measures nothing is
    not changed by it;
  - control_keys(op): the keys the operation reads that are not measured earlier inside it.

The only Cirq calls are CONSTRUCTORS (to_cirq).  Flat programs use the FG / FM classes of the base model, so its
interpreter and structural oracles apply unchanged.
"""
from __future__ import annotations

from oracles import subcircuit_model as SM
from oracles.subcircuit_model import FG, FM, Cond, G, M, Sub


class IfB:
    """conditional block.  conds: key names / Cond; body: list of spec items (G, Sub, IfB; no measurements);
    how: 'if'   cirq.If(conds, *body)      (one body item: that operation; several: Cirq wraps them in a CircuitOperation)
         'tree' cirq.If(conds, [first, [rest...]])  (OP_TREE form of the same)
         'cco'  body[0].with_classical_controls(*conds)   (exactly one body item)"""

    def __init__(self, conds, body, how='if'):
        self.conds = tuple(Cond('key', c) if isinstance(c, str) else c for c in conds)
        self.body = list(body)
        self.how = how
        assert (how == 'if') or (how == 'tree' and len(self.body) > 1) or (how == 'cco' and len(self.body) == 1)

    @property
    def qs(self):  # lets SM.spec_qubits / SM.sub_qubits see the qubits of the block
        return tuple(sorted(SM.spec_qubits(self.body)))


# ------------------------------------------------------------------------------------------------
# real objects (constructors only)
# ------------------------------------------------------------------------------------------------
def sub_kwargs(it):
    """constructor arguments of the CircuitOperation described by a Sub"""
    kw = {}
    if it.reps != 1:
        kw['repetitions'] = it.reps
    if it.qmap:
        kw['qubit_map'] = {SM.Q(a): SM.Q(b) for a, b in it.qmap.items()}
    if it.kmap:
        kw['measurement_key_map'] = dict(it.kmap)
    if it.params:
        kw['param_resolver'] = {k: SM._sym(v) for k, v in it.params.items()}
    if it.ids is not None:
        kw['repetition_ids'] = list(it.ids)
    if it.use_ids is not None:
        kw['use_repetition_ids'] = it.use_ids
    if it.path:
        kw['parent_path'] = tuple(it.path)
    assert it.until is None, 'repeat_until is not part of the conditional-block model'
    return kw


def to_cirq(it):
    import cirq

    if isinstance(it, IfB):
        cs = [SM._cirq_cond(c) for c in it.conds]
        ops = [to_cirq(x) for x in it.body]
        if it.how == 'cco':
            return ops[0].with_classical_controls(*cs)
        cond = cs[0] if len(cs) == 1 else cs  # both documented forms: one condition / a sequence
        if it.how == 'tree':
            return cirq.If(cond, [ops[0], [ops[1:]]])
        return cirq.If(cond, *ops)
    if isinstance(it, Sub):
        return cirq.CircuitOperation(cirq.FrozenCircuit(*[to_cirq(x) for x in it.items]), **sub_kwargs(it))
    return SM.to_cirq(it)


# ------------------------------------------------------------------------------------------------
# flat program
# ------------------------------------------------------------------------------------------------
def _split(name):
    parts = name.split(':')
    return tuple(parts[:-1]), parts[-1]


def _kf(c, name):
    """key maps act on the NAME of a key, its path is kept"""
    qpath, nm = _split(name)
    return ':'.join(qpath + (c.kf(nm),))


def _bind(name, path, visible):
    """a control key QP:n read at key path P refers to P[:k]+QP:n for the longest prefix for which that key is
    visible, else to QP:n itself (QP = () for the plain names a user writes)"""
    qpath, nm = _split(name)
    for k in range(len(path), -1, -1):
        if (path[:k] + qpath, nm) in visible:
            return (path[:k] + qpath, nm)
    return (qpath, nm)


def _bound_conds(conds, c, visible):
    return [(cd, {n: _bind(_kf(c, n), c.path, visible) for n in cd.names()}) for cd in conds]


def _flat_items(items, c, visible):
    out = []
    for it in reversed(items) if c.inv else items:
        if isinstance(it, G):
            out.append(FG(it.fam, SM._resolve(it.e, c.chain), c.inv, [c.qf(q) for q in it.qs], _bound_conds(it.conds, c, visible)))
        elif isinstance(it, M):
            qpath, nm = _split(it.key)  # a key written with a path ('p:a') keeps it below the path of its scope
            k = (c.path + qpath, c.kf(nm))
            visible.add(k)
            out.append(FM(k, [c.qf(q) for q in it.qs]))
        elif isinstance(it, IfB):
            oc = _bound_conds(it.conds, c, visible)
            inner = _flat_items(it.body, c, visible) if len(it.body) == 1 else _flat_sub(Sub(it.body), c, visible)
            for f in inner:
                assert isinstance(f, FG), 'a conditional block contains no measurement'
                out.append(FG(f.fam, f.e, f.inv, f.qs, oc + list(f.conds)))
        else:
            out.extend(_flat_sub(it, c, visible))
    return out


def _flat_sub(s, c, visible):
    n = abs(s.reps)
    if n == 0:
        return []
    assert s.until is None
    sub = SM._Ctx(
        lambda q, s=s, c=c: c.qf(s.qmap.get(q, q)),
        lambda k, s=s, c=c: c.kf(s.kmap.get(k, k)),
        [s.params] + c.chain,
        c.path + s.path,
        c.inv ^ (s.reps < 0),
    )
    outer_vis = {k for k in visible if len(k[0]) <= len(c.path)}
    ids = SM.effective_ids(s)
    out = []
    if ids is not None and SM.has_measurement(s.items):
        base = sub.path
        for rid in ids:
            v = set(outer_vis)
            sub.path = base + (rid,)
            out.extend(_flat_items(s.items, sub, v))
            visible |= v
    else:
        v = set(outer_vis)
        body = _flat_items(s.items, sub, v)
        visible |= v
        for _ in range(n):
            out.extend(body)
    return out


def flatten(items, path=(), visible=(), kmap=None):
    """flat program of a circuit body.  Default: a top-level circuit.  `path` / `visible` / `kmap`: the same body read
    at key path `path` when the keys `visible` ((path, name) pairs) have been measured, under the key map `kmap`
    (this is what with_rescoped_keys / with_measurement_key_mapping of the operations mean)"""
    km = dict(kmap or {})
    return _flat_items(items, SM._Ctx(lambda q: q, lambda k: km.get(k, k), [], tuple(path), False), set(visible))


# ------------------------------------------------------------------------------------------------
# key-path PREFIX applied to a spec by hand
# ------------------------------------------------------------------------------------------------
def _pref_cond(cd, prefix):
    pre = ':'.join(prefix) + ':'
    kw = dict(cd.kw)
    if cd.kind == 'eq2':
        kw['name2'] = pre + kw['name2']
    return Cond(cd.kind, pre + cd.name, **kw)


def prefixed(it, prefix):
    """the spec of cirq.with_key_path_prefix(op, prefix) (see module docstring)"""
    if isinstance(it, G):
        return G(it.fam, it.qs, it.e, conds=[_pref_cond(c, prefix) for c in it.conds], how=it.how)
    if isinstance(it, Sub):
        return Sub(it.items, reps=it.reps, qmap=it.qmap, kmap=it.kmap, params=it.params, ids=it.ids, use_ids=it.use_ids, path=tuple(prefix) + it.path)
    if isinstance(it, IfB):
        body = [prefixed(it.body[0], prefix)] if len(it.body) == 1 else [Sub(it.body, path=tuple(prefix))]
        return IfB([_pref_cond(c, prefix) for c in it.conds], body, 'if' if it.how == 'tree' else it.how)
    raise TypeError(type(it))
